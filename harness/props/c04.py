"""C04 — declared precedents cover every cell a formula actually reads.

Correspondence: for generated formula trees with every written reference form
(plain, $, sheet-qualified, ranges, the intersection operator, ROW/COLUMN/INDEX
arguments, calls, arithmetic) the model's token scan of the emitted code
(Model/Scan.v needed) must equal ExcelFormula(text).needed_addresses, and the
model's code ExcelFormula(text).python_code; the model's read trace must be
covered by its scan (theorem C04_cover, re-evaluated on every case).

Oracle (independent of the model), on real workbooks built with openpyxl and
compiled with ExcelCompiler(excel=workbook): the two read paths handed to
compiled formulas (compiler._evaluate / compiler._evaluate_range) are wrapped
before the first evaluation so that every (formula cell being evaluated, address
read) pair is recorded; then
  * every read is a declared precedent of that cell, or a range all of whose
    cells lie inside a declared range of that cell (intersection operator);
  * dep_graph has the edge precedent -> dependant for every declared precedent,
    member -> range for every member of a declared range (blank members
    included: the input block has blank cells), and every cell of a
    computed read reaches the dependant through a declared range containing it;
  * every cell read while a formula cell is evaluated — directly, through the
    range nodes it reads, or through an unbounded range (A:A, B:C: at least the
    cells of the input block in those columns) — is an ancestor of the formula
    cell in dep_graph;
  * perturbing an input cell that is not an ancestor of a formula cell in
    dep_graph never changes that cell's value.
The workbooks also hold references to the formula cell's own coordinate on the
other sheet (Sheet2!H3 = Sheet1!H3*2, =SUM(Sheet1!H3:H4), with ROW()/COLUMN()
without argument nearby); a second stream (build_unbounded_workbook) puts a
whole-column / whole-row reference next to the explicit range it stands for,
either one compiled first; a third (build_broken_workbook) puts one or two formulas that can NOT be compiled
(external-workbook link, missing sheet, unknown table, unbalanced parentheses, relative R1C1) among ordinary ones, the
caller carries on after each error (try/except, or validate_calcs first) and the clauses are judged on every formula
cell that did evaluate; a fourth (build_table_workbook) has openpyxl Tables with calculated columns (ONE formula text
with "this row" structured references in every row) and defined names, under the same sheet / table names at other
coordinates in every workbook of the run.  Reads made by a graph build nested in an evaluation are the build's, not
the formula's."""
import logging
import re

from harness import wbgen
from harness.common import enc_val, ensure_impl_on_path, known_predicate   # noqa: F401
from harness.props import c02 as g

GEN_MODULES = ['excelformula', 'excelutil', 'aggregates', 'stats']
EXTRA_TARGETS = ('Proofs/C04.vo', 'Proofs/C04Example.vo')
ASSUMPTIONS = [
    "the read trace of the model is the set of _C_/_R_ call nodes of the emitted code (Python evaluates every "
    "argument; an exception can only shorten the trace); the containment of an intersection in its operands is "
    "C11_intersection",
    "dep_graph construction (_process_gen_graph), the reads of _evaluate/_evaluate_range and the influence "
    "consequence are proved over the machine model coq/Model/Graph.v + coq/Model/ReadTrace.v (C04_edges, "
    "C04_trace_*, C04_influence*); the model is tied to ExcelCompiler by the C01 differential run and, for the read "
    "traces, by the graph-trace stream here (single-sheet single-column workbooks of harness/wbgen.py); on real "
    "multi-sheet workbooks with names, unions and CSE members the same statements are judged by the oracle",
    "C04_reads_are_edges takes the link between address texts and graph nodes (cell_map) and between a formula "
    "cell's declared precedents and needed_addresses as hypotheses (declared_needed); the oracle checks them on "
    "real workbooks (edge for every needed address)",
]

# repaired in /repo b9ea5fb: no longer a registered predicate (a recurrence is reported)
def _built_twice(case):
    """=SUM(A1:A4) compiled before =SUM(A:A) (A:A stands for A1:A4): _make_cells builds the _CellRange A1:A4 a second
    time for the unbounded reference and replaces it in cell_map; the dependant that named A1:A4 keeps its edge from
    the replaced node only.  Matched: a missing edge explicit range -> written formula, where an unbounded reference
    of the workbook stands for exactly that range and the replaced node of the same address still has the edge."""
    args = case.get('args') or []
    return (case.get('call') == 'edge' and len(args) == 2 and str(args[0]).startswith('=') and ':' in args[1]
            and bool(case.get('stood_for_by')) and case.get('replaced_twin') is True)


REF_CELLS = ['A1', 'B2', 'C3', '$A$1', 'b2', '$B2', 'C$3', 'Sheet2!C3', 'Sheet2!$C$3', 'AA10']
REF_RANGES = ['A1:B2', '$A$1:C3', 'B1:C3', 'A2:C2', 'Sheet2!A1:B2', 'A1:A3', 'B2:B3', 'Sheet2!B1:C3']


def rand_ref_tree(rng, depth):
    """formula trees rich in references"""
    def cell():
        return ('ref', rng.choice(REF_CELLS))

    def rng_():
        return ('ref', rng.choice(REF_RANGES))

    def isect(d):
        a = rng_() if d <= 1 or rng.random() < 0.7 else isect(d - 1)
        return ('bin', ' ', a, rng_())
    if depth <= 1:
        return cell() if rng.random() < 0.7 else ('num', rng.choice(['1', '2', '0.5']))
    r = rng.random()
    if r < 0.14:
        return ('call', rng.choice(['SUM', 'MAX', 'MIN', 'AVERAGE', 'sum']),
                [rng.choice([rng_, cell, lambda: isect(2)])() for _ in range(rng.randrange(1, 4))])
    if r < 0.22:
        return ('call', rng.choice(['ROW', 'COLUMN', 'row']), [rng.choice([cell, rng_, lambda: isect(2)])()])
    if r < 0.30:
        return ('call', 'INDEX', [rng.choice([rng_, lambda: isect(2)])(), rand_ref_tree(rng, depth - 1),
                                  ('num', rng.choice(['1', '2']))])
    if r < 0.38:
        return ('call', 'IF', [rand_ref_tree(rng, depth - 1), rand_ref_tree(rng, depth - 1),
                               None if rng.random() < 0.2 else rand_ref_tree(rng, depth - 1)])
    if r < 0.46:
        return isect(3)
    if r < 0.54:
        return (rng.choice(['neg', 'pct']), rand_ref_tree(rng, depth - 1))
    if r < 0.58:
        return ('ref', rng.choice(['A1:B2:C3', 'A:A', '1:2', 'Sheet2!A1:B2:C3']))     # outside the emitter model
    return ('bin', rng.choice(g.OPS[:12]), rand_ref_tree(rng, depth - 1), rand_ref_tree(rng, depth - 1))


def txt(cs):
    return ''.join(chr(c) for c in cs)


def correspondence(ctx):
    ensure_impl_on_path()
    from pycel.excelformula import ExcelFormula
    rng = ctx.rng
    trees = [rand_ref_tree(rng, rng.randrange(2, 7)) for _ in range(ctx.n(12000, 100000))]
    trees += [g.rand_tree(rng, rng.randrange(2, 7), False) for _ in range(ctx.n(1500, 15000))]
    cases = []
    for e in trees:
        t = g.to_cst(e, rng, 0.1)
        # (no line feeds here: openpyxl's tokenizer emits a line feed that FOLLOWS an operand BEFORE that operand,
        #  which after an intersection operator leaves two white-space tokens in a row and the operator is lost:
        #  =SUM(A1:B2 B1:C3<LF>) fails in _build_ast — reported, outside this property)
        cases.append((e, t, ('=' + g.render(t, rng, 0.2)).replace('\n', ' ')))
    answers = ctx.model.batch([('needed', [g.enc_cst(t)]) for (_, t, _) in cases]) if ctx.model else None
    seen = set()
    for idx, (e, t, text) in enumerate(cases):
        key = ('scan', text)
        try:
            f = ExcelFormula(text)
            code = f.python_code
            need = [a.address for a in f.needed_addresses]
            got = (code, need)
        except Exception as exc:       # noqa: BLE001
            got = ('raise', type(exc).__name__)
        ctx.count(key, nontrivial=key not in seen, kind='scan:' + e[0], sample=dict(formula=text, impl=got))
        seen.add(key)
        case = dict(call='needed_addresses', args=[text])
        if answers is None:
            continue
        a = answers[idx]
        if a[0] != 0:
            ctx.divergence(case, got, a, 'Model/Syntax.v parse = ExcelFormula parser')
            continue
        m_code, m_need, modelled, written, reads = txt(a[1]), [txt(x) for x in a[2]], a[3], a[4], a[5]
        if not modelled:
            ctx.histogram['scan-unmodelled'] = ctx.histogram.get('scan-unmodelled', 0) + 1
            continue
        if got[0] == 'raise':
            ctx.divergence(case, got, [m_code, m_need], 'Model/Scan.v needed = ExcelFormula.needed_addresses')
            continue
        if m_code != code:
            ctx.divergence(case, code, m_code, 'Model/Emit.v code = ExcelFormula.python_code')
        if m_need != need:
            ctx.divergence(case, need, m_need, 'Model/Scan.v needed = ExcelFormula.needed_addresses')
        # theorem C04_cover, evaluated: every read of the model's trace is covered by the model's scan
        if written:
            ctx.histogram['cover:written'] = ctx.histogram.get('cover:written', 0) + 1
            for r in reads:
                ok = (r[0] == 0 and txt(r[1]) in m_need) or (r[0] == 1 and all(txt(x) in m_need for x in r[1:]))
                if not ok:
                    ctx.divergence(case, need, r, 'model: reads covered by needed (theorem C04_cover)')


# ------------------------------------------------------------------ real workbooks
COLS = 'ABC'


def build_workbook(rng):
    import openpyxl
    from openpyxl.workbook.defined_name import DefinedName
    from openpyxl.worksheet.formula import ArrayFormula
    wb = openpyxl.Workbook()
    s1 = wb.active
    s1.title = 'Sheet1'
    s2 = wb.create_sheet('Sheet2')
    inputs = {}
    for ws in (s1, s2):
        for r in range(1, 4):
            for c in range(1, 4):
                v = rng.choice([rng.randrange(1, 50), rng.randrange(1, 50), rng.randrange(1, 200) / 4])
                if rng.random() < 0.12 and (r, c) != (3, 3):
                    v = None        # a blank member of the written ranges (C3 keeps the used range 3 x 3)
                else:
                    ws.cell(r, c).value = v
                inputs[f'{ws.title}!{COLS[c - 1]}{r}'] = v
    wb.defined_names['myrange'] = DefinedName('myrange', attr_text='Sheet1!$A$1:$B$2')
    wb.defined_names['mycell'] = DefinedName('mycell', attr_text='Sheet2!$B$2')

    def cell(sheet=None):
        a = rng.choice(COLS) + str(rng.randrange(1, 4))
        if rng.random() < 0.3:
            a = '$' + a[0] + '$' + a[1]
        elif rng.random() < 0.15:
            a = a[0] + '$' + a[1]
        if sheet is None:
            sheet = rng.choice(['', '', '', 'Sheet2!', 'Sheet1!'])
        return sheet + a

    def rng_(sheet=None):
        c1, c2 = sorted(rng.sample(range(3), 2)) if rng.random() < 0.7 else [rng.randrange(3)] * 2
        r1, r2 = sorted(rng.sample(range(1, 4), 2)) if rng.random() < 0.7 else [rng.randrange(1, 4)] * 2
        if (c1, r1) == (c2, r2):
            c2 = min(2, c1 + 1) if c1 < 2 else c1
            r2 = r1 + 1 if c1 == c2 and r1 < 3 else r2
            if (c1, r1) == (c2, r2):
                c1, r1 = 0, 1
        d = '$' if rng.random() < 0.25 else ''
        if sheet is None:
            sheet = rng.choice(['', '', '', 'Sheet2!', 'Sheet1!'])
        return f'{sheet}{d}{COLS[c1]}{d}{r1}:{COLS[c2]}{r2}'

    forms = {}
    prev = []
    n = rng.randrange(8, 22)
    for i in range(1, n + 1):
        home = rng.choice(['Sheet1', 'Sheet1', 'Sheet2'])
        addr = f'{home}!E{i}'
        k = rng.randrange(22)
        if k >= 20:
            # unbounded ranges: whole columns of the input block (no formula lives in columns A-C)
            col = rng.choice(['A:A', 'B:B', 'C:C', 'A:B', 'B:C', '$A:$A'])
            sh = rng.choice(['', '', 'Sheet2!', 'Sheet1!'])
            f = rng.choice([f'=SUM({sh}{col})', f'=MAX({sh}{col})+{cell()}', f'=COUNT({sh}{col})',
                            f'=SUM({sh}{col},{rng_()})'])
        elif k == 0:
            f = f'={cell()}+{cell()}*2'
        elif k == 1:
            f = f'=SUM({rng_()})'
        elif k == 2:
            sh = rng.choice(['', 'Sheet2!'])
            f = f'=SUM({rng_(sh)} {rng_(sh)})'
        elif k == 3:
            f = f'=SUM(({cell()},{cell()}))'
        elif k == 4:
            f = f'=SUM(A1:B2:{rng.choice(["C3", "C2", "B3"])})'
        elif k == 5:
            f = '=SUM(myrange)+mycell'
        elif k == 6:
            f = rng.choice(['=ROW()', '=COLUMN()', f'=ROW({cell()})', f'=COLUMN({rng_("")})'])
        elif k == 7:
            f = f'=ROW({rng_("")} {rng_("")})'
        elif k == 8:
            f = f'=INDEX({rng_()},1,1)'
        elif k == 9:
            f = f'=INDEX(A1:C3,ROW({cell("")}),COLUMN({cell("")}))'
        elif k == 10:
            f = f'=IF({cell()}>{rng.randrange(1, 50)},{cell()},{cell()})'
        elif k == 11 and prev:
            f = f'={rng.choice(prev)}+{cell()}'
        elif k == 12 and prev:
            f = f'=SUM({rng_()})-{rng.choice(prev)}*{rng.choice(prev)}'
        elif k == 13:
            f = f'=MAX({rng_()})-MIN({rng_()},{cell()})'
        elif k == 14:
            f = f'=-{cell()}^2+{cell()}%'
        elif k == 15:
            sh = rng.choice(['', 'Sheet2!'])
            f = f'={rng_(sh)} {rng_(sh)}'
        elif k == 16:
            f = f'=SUM({rng_("")} {rng_("")} {rng_("")})'
        elif k == 17:
            f = f'=AVERAGE({rng_()},{rng_()})&"x"'
        elif k == 18:
            f = f'=IF(ISERROR({cell()}/{cell()}),{cell()},SUM({rng_()}))'
        else:
            f = f'={cell()}&{cell()}'
        forms[addr] = f
        wb[home][f'E{i}'] = f
        prev.append(addr if home == 'Sheet1' else addr)
    # CSE members
    cse = rng.random() < 0.7
    if cse:
        col = rng.choice(COLS)
        s1['G1'] = ArrayFormula('G1:G2', f'={col}1:{col}2*2')
        forms['Sheet1!G1'] = forms['Sheet1!G2'] = f'{{={col}1:{col}2*2}}'
    # references to the cell (or a range) at the formula cell's OWN coordinate on the other sheet: Sheet2!H4 =
    # Sheet1!H4*2, =SUM(Sheet1!H4:H5), with ROW()/COLUMN() without argument (the cell's reference to itself) nearby;
    # the source is an input, a blank or a formula cell; a CSE block reading the block of the same coordinates
    must = []
    for r in rng.sample([1, 3, 5, 7], rng.choice([0, 1, 2, 2, 3])):      # odd rows: r + 1 is never another r
        src, dst = rng.sample(['Sheet1', 'Sheet2'], 2)
        c = rng.choice('HI')
        xy, below, right = f'{c}{r}', f'{c}{r + 1}', f'{chr(ord(c) + 1)}{r}'
        k = rng.randrange(4)
        if k == 0:
            pass                                                   # blank source
        elif k == 1:
            forms[f'{src}!{xy}'] = wb[src][xy] = rng.choice([f'={cell()}*3', '=ROW()*10', f'=SUM({rng_()})'])
        else:
            inputs[f'{src}!{xy}'] = wb[src][xy] = rng.randrange(1, 50)
            must.append(f'{src}!{xy}')
        if rng.random() < 0.5 and c == 'H':
            inputs[f'{src}!{below}'] = wb[src][below] = rng.randrange(1, 50)
            must.append(f'{src}!{below}')
        d = rng.choice(['', '', '$'])
        ref = f'{src}!{d}{c}{d}{r}'
        forms[f'{dst}!{xy}'] = wb[dst][xy] = rng.choice([
            f'={ref}*2', f'={ref}', f'={ref}+ROW()', f'=COLUMN()*100+{ref}', f'=ROW()&"/"&{ref}&"/"&COLUMN()',
            f'=SUM({ref}:{below})', f'=SUM({ref}:{right})+ROW()', f'=COUNT({src}!{xy}:{below})+COLUMN()',
            f'=IF({ref}>{rng.randrange(1, 50)},{cell()},ROW())', f'={ref}+{cell()}', f'={ref}-{dst}!{below}',
            f'=INDEX({src}!{xy}:{below},1,1)', f'=MAX({src}!{xy}:{below},{src}!{right})'])
        prev.append(f'{dst}!{xy}')
        if rng.random() < 0.4:
            home = rng.choice(['Sheet1', 'Sheet2'])
            n += 1
            forms[f'{home}!E{n}'] = wb[home][f'E{n}'] = f'={dst}!{xy}+{cell()}'
    if cse and rng.random() < 0.4:
        s2['G1'] = ArrayFormula('G1:G2', '=Sheet1!G1:G2+1')
        forms['Sheet2!G1'] = forms['Sheet2!G2'] = '{=Sheet1!G1:G2+1}'
    return wb, inputs, forms, must


def build_unbounded_workbook(rng):
    """Whole-column / whole-row references NEXT TO the explicit range they stand for.  One or two sheets; on the data
    sheet a block of 2-3 columns x 2-5 rows (blank cells; now and then a formula cell inside a column, reading
    earlier rows); 3-8 formula cells in columns E-F of either sheet, among them at least one with an unbounded
    reference U (A:A, A:B, $B:$B, 2:2) and one with the explicit range X equal to U's part inside the used range of
    the data sheet (A1:A{max_row}, A2:{max_column}2) — in separate cells, or both in one formula in either order.
    Returns (workbook, inputs, forms, order): order, a random permutation of the formula cells, is the order in
    which they are first evaluated, so X is compiled before U in about half of the workbooks."""
    import openpyxl
    from openpyxl.utils import get_column_letter
    wb = openpyxl.Workbook()
    wb.active.title = 'Sheet1'
    sheets = ['Sheet1']
    if rng.random() < 0.5:
        wb.create_sheet('Sheet2')
        sheets.append('Sheet2')
    data = rng.choice(sheets)
    ncol, m = rng.choice([2, 3]), rng.randrange(2, 6)
    inputs, forms, written = {}, {}, set()
    for r in range(1, m + 1):
        for c in range(1, ncol + 1):
            xy = f'{COLS[c - 1]}{r}'
            corner = (r, c) in ((m, 1), (1, ncol))          # these two keep the used range m x ncol
            if r > 1 and not corner and rng.random() < 0.15:
                forms[f'{data}!{xy}'] = wb[data][xy] = rng.choice(
                    [f'={COLS[c - 1]}{r - 1}*2', f'={COLS[rng.randrange(ncol)]}1+{r}', f'=SUM({COLS[c - 1]}1:{COLS[c - 1]}{r - 1})']
                    if r > 2 else [f'={COLS[c - 1]}{r - 1}*2', f'={COLS[rng.randrange(ncol)]}1+{r}'])
                written.add((r, c))
                continue
            v = rng.choice([rng.randrange(1, 50), rng.randrange(1, 50), rng.randrange(1, 200) / 4])
            if not corner and rng.random() < 0.15:
                v = None
            else:
                wb[data][xy] = v
                written.add((r, c))
            inputs[f'{data}!{xy}'] = v
    rt = rng.randrange(1, m + 1)            # the row of the whole-row reference: no formula cell of the data sheet there
    free = {sh: [(r, c) for c in (5, 6) for r in range(1, 8) if not (sh == data and r == rt)] for sh in sheets}
    slots = []
    for _ in range(rng.randrange(3, 9)):
        sh = rng.choice(sheets)
        r, c = free[sh].pop(rng.randrange(len(free[sh])))
        slots.append((sh, f'{get_column_letter(c)}{r}'))
        if sh == data:
            written.add((r, c))
    max_row, max_col = max(r for r, _ in written), max(c for _, c in written)

    def q(home, ref):
        return ref if home == data and rng.random() < 0.6 else f'{data}!{ref}'

    def pair():
        d = '$' if rng.random() < 0.2 else ''
        if rng.random() < 0.3:
            return f'{d}{rt}:{d}{rt}', f'{d}A{d}{rt}:{get_column_letter(max_col)}{rt}'
        c1, c2 = sorted(rng.choice(range(ncol)) for _ in range(2)) if rng.random() < 0.35 else [rng.randrange(ncol)] * 2
        return f'{d}{COLS[c1]}:{d}{COLS[c2]}', f'{d}{COLS[c1]}{d}1:{COLS[c2]}{max_row}'

    def cell(home):
        return q(home, rng.choice(COLS[:ncol]) + str(rng.randrange(1, m + 1)))

    pairs = [pair() for _ in range(rng.choice([1, 1, 2]))]
    kinds = ['X', 'U'] if rng.random() < 0.8 else [rng.choice(['XU', 'UX'])]
    kinds = (kinds + [rng.choice(['X', 'U', 'XU', 'UX', 'o', 'o']) for _ in slots])[:len(slots)]
    rng.shuffle(kinds)
    prev = []
    for (home, xy), kind in zip(slots, kinds):
        u, x = rng.choice(pairs)
        u, x = q(home, u), q(home, x)
        agg = rng.choice(['SUM', 'SUM', 'MAX', 'COUNT', 'MIN'])
        if kind == 'X':
            f = rng.choice([f'={agg}({x})', f'={agg}({x})+{cell(home)}', f'=SUM({x},{cell(home)})', f'=INDEX({x},1,1)'])
        elif kind == 'U':
            f = rng.choice([f'={agg}({u})', f'={agg}({u})+{cell(home)}', f'=SUM({u},{cell(home)})', f'=COUNT({u})&"x"'])
        elif kind == 'XU':
            f = rng.choice([f'=SUM({x})+{agg}({u})', f'=SUM({x},{u})', f'=IF(SUM({x})>0,{agg}({u}),0)'])
        elif kind == 'UX':
            f = rng.choice([f'=SUM({u})-{agg}({x})', f'=COUNT({u},{x})', f'=MAX({u})&MIN({x})'])
        elif prev and rng.random() < 0.5:
            f = f'={rng.choice(prev)}+{cell(home)}'
        else:
            r1 = rng.randrange(1, m)
            f = rng.choice([f'={cell(home)}+{cell(home)}*2', f'=SUM({q(home, f"A{r1}:A{m}")})',
                            f'=SUM({q(home, f"A1:{COLS[ncol - 1]}{r1}")})'])
        forms[f'{home}!{xy}'] = wb[home][xy] = f
        prev.append(f'{home}!{xy}')
    order = list(forms)
    rng.shuffle(order)
    return wb, inputs, forms, order



# ------------------------------------------------------------------ workbooks with formulas that can not be compiled
@known_predicate('C04-queued-after-failed-build')
def _queued_after_failed_build(case):
    """A build that raised (one formula of the workbook can not be compiled) leaves the cells that were waiting to be
    wired in graph_todos; a later evaluate of such a cell does not build the graph again (the cell is in cell_map),
    so it is computed without its precedent -> dependant edges until some other, unbuilt address is evaluated.
    Matched: a missing edge into / unreachable read of a cell that IS STILL in graph_todos (case['queued'])."""
    return case.get('call') in ('edge', 'reach') and case.get('queued') is True


BAD_KINDS = ('external', 'missing-sheet', 'unknown-table', 'syntax', 'relative-r1c1')


def build_broken_workbook(rng):
    """One or two sheets with a 3 x 3 input block; 5-10 ordinary formula cells in columns E-F (cells, ranges, chains
    through earlier formula cells) and one or two formulas that can NOT be compiled: a link into another workbook
    ([1]Other!A1), a sheet that does not exist, a table that does not exist, unbalanced parentheses, a relative R1C1
    reference; ordinary formulas read them together with other formula cells (=E2+E5, =SUM(E1:E4)), so that when the
    build fails ordinary cells are still waiting to be wired.
    Returns (workbook, inputs, forms, order, kinds of the bad formulas)."""
    import openpyxl
    wb = openpyxl.Workbook()
    wb.active.title = 'Sheet1'
    sheets = ['Sheet1']
    if rng.random() < 0.4:
        wb.create_sheet('Sheet2')
        sheets.append('Sheet2')
    inputs, forms = {}, {}
    for sh in sheets:
        for r in range(1, 4):
            for c in range(1, 4):
                inputs[f'{sh}!{COLS[c - 1]}{r}'] = wb[sh][f'{COLS[c - 1]}{r}'] = rng.choice(
                    [rng.randrange(1, 50), rng.randrange(1, 50), rng.randrange(1, 200) / 4])

    def cell(home):
        sh = rng.choice(sheets)
        a = rng.choice(COLS) + str(rng.randrange(1, 4))
        return a if sh == home and rng.random() < 0.7 else f'{sh}!{a}'

    def rng_(home):
        sh = rng.choice(sheets)
        c1, c2 = sorted(rng.choice(range(3)) for _ in range(2))
        r1, r2 = sorted(rng.sample(range(1, 4), 2))
        a = f'{COLS[c1]}{r1}:{COLS[c2]}{r2}'
        return a if sh == home and rng.random() < 0.7 else f'{sh}!{a}'

    def bad(home, kind):
        if kind == 'external':
            return rng.choice([f'=[1]Other!A1+{cell(home)}', f'={cell(home)}*[1]Other!$B$2', '=SUM([2]Data!A1:A3)',
                               "='[1]My Data'!C3+1", f'=IF({cell(home)}>0,{cell(home)},[1]Other!A1)'])
        if kind == 'missing-sheet':
            return rng.choice(['=NoSheet!A1+1', f'=SUM(Missing!A1:B2,{cell(home)})', f'={cell(home)}-NoSheet!$C$3',
                               f'=IF({cell(home)}>0,{cell(home)},NoSheet!A1)', f'=NoSheet!B2+{cell(home)}'])
        if kind == 'unknown-table':
            return rng.choice(['=SUM(NoTable[qty])', f'=NoTable[[#This Row],[qty]]*{cell(home)}',
                               f'={cell(home)}+SUM(Gone[[#Data],[price]])'])
        if kind == 'syntax':
            return rng.choice([f'=SUM({cell(home)}', f'=({cell(home)}+{cell(home)}))*2', f'=MAX({rng_(home)},'])
        return rng.choice(['=RC[-1]*2', f'=R[-1]C+{cell(home)}'])

    slots = [(sh, f'{col}{r}') for sh in sheets for col in 'EF' for r in range(1, 7)]
    rng.shuffle(slots)
    n = rng.randrange(6, 12)
    slots = slots[:n]
    nbad = rng.choice([1, 1, 2])
    bad_at = set(rng.sample(range(0, n - 2), nbad))      # at least two cells come after a bad one
    kinds, prev, bads = [], [], []
    for i, (home, xy) in enumerate(slots):
        addr = f'{home}!{xy}'
        if i in bad_at:
            kind = rng.choice(BAD_KINDS[:4] * 3 + BAD_KINDS[4:])
            kinds.append(kind)
            f = bad(home, kind)
            bads.append(addr)
        else:
            k = rng.randrange(10)
            good = [p for p in prev if p not in bads]
            if bads and good and k < 3:
                # the pattern that leaves an ordinary cell waiting: an ordinary formula cell and a bad one, read by
                # one formula (the LIFO queue takes the bad one first)
                a, b = rng.choice(good), rng.choice(bads)
                f = rng.choice([f'={a}+{b}', f'=SUM({a},{cell(home)},{b})', f'={a}*2-{b}', f'={b}+{a}',
                                f'=IF({a}>0,{b},{cell(home)})', f'=MAX({a},{rng.choice(good)},{b})'])
            elif prev and k < 5:
                f = rng.choice([f'={rng.choice(prev)}+{cell(home)}', f'={rng.choice(prev)}*2+{rng.choice(prev)}',
                                f'=SUM({rng_(home)})-{rng.choice(prev)}'])
            elif k == 5:
                col = rng.choice('EF')
                sh = rng.choice(sheets)
                r1, r2 = sorted(rng.sample(range(1, 7), 2))
                f = f'=SUM({sh}!{col}{r1}:{col}{r2})' if not (sh == home and col == xy[0] and r1 <= int(xy[1:]) <= r2) \
                    else f'=SUM({rng_(home)})'
            elif k == 6:
                f = f'=SUM({rng_(home)})+{cell(home)}'
            elif k == 7:
                f = f'=MAX({rng_(home)})-MIN({rng_(home)},{cell(home)})'
            elif k == 8:
                f = f'=IF({cell(home)}>{rng.randrange(1, 50)},{cell(home)},{cell(home)})'
            else:
                f = f'={cell(home)}*2+{cell(home)}'
        forms[addr] = wb[home][xy] = f
        prev.append(addr)
    order = list(forms)
    rng.shuffle(order)
    return wb, inputs, forms, order, kinds


# ------------------------------------------------------------------ tables: one formula text, precedents per cell
TABLE_OF = {'Sheet1': 'Orders', 'Sheet2': 'Costs'}


def build_table_workbook(rng):
    """One or two sheets, ALWAYS called Sheet1 / Sheet2, each with a table (Orders / Costs) whose position and
    height differ from workbook to workbook: columns item, qty, price and one or two calculated columns — the SAME
    formula text in every row, with "this row" structured references ([@qty], Orders[[#This Row],[qty]], [@[qty]]),
    column references, mixed; beside the table cells reading table columns, the calculated cells and the defined
    names total_range / one_cell, whose targets also differ per workbook.  The same (sheet name, formula text) thus
    stands for other precedents in every row and in every workbook of the run.
    Returns (workbook, inputs, forms, order, must)."""
    import openpyxl
    from openpyxl.utils import get_column_letter as L
    from openpyxl.workbook.defined_name import DefinedName
    from openpyxl.worksheet.table import Table, TableColumn
    wb = openpyxl.Workbook()
    wb.active.title = 'Sheet1'
    sheets = ['Sheet1']
    if rng.random() < 0.5:
        wb.create_sheet('Sheet2')
        sheets.append('Sheet2')
    inputs, forms, must = {}, {}, []
    geometry = {}
    for sh in sheets:
        ws = wb[sh]
        name = TABLE_OF[sh]
        r0, c0, nrows = rng.randrange(1, 4), rng.randrange(1, 3), rng.randrange(2, 5)
        ncalc = rng.choice([1, 1, 2])
        headers = ['item', 'qty', 'price'] + ['total', 'extra'][:ncalc]
        geometry[sh] = (r0, c0, nrows, headers)
        for j, h in enumerate(headers):
            ws.cell(r0, c0 + j).value = h
        texts = rng.sample([
            f'={name}[[#This Row],[qty]]*{name}[[#This Row],[price]]', '=[@qty]*2', '=[@qty]+[@price]',
            '=[@[qty]]*3', '=[[#This Row],[price]]+1', '=SUM([qty])-[@qty]', f'={name}[@price]-{name}[@qty]',
            '=MAX([price])-[@price]', '=[@price]&[@item]', f'=SUM({name}[qty])+[@qty]', '=[@qty]*one_cell',
            f'=IF([@qty]>5,[@price],{name}[[#This Row],[qty]])', '=SUM([[#This Row],[qty]:[price]])',
        ], ncalc)
        if ncalc == 2 and rng.random() < 0.5:
            texts[1] = rng.choice(['=[@total]+[@qty]', f'={name}[[#This Row],[total]]*2', '=SUM([total])-[@total]'])
        for i in range(1, nrows + 1):
            ws.cell(r0 + i, c0).value = rng.choice('abcdef')
            for j in (1, 2):
                xy = f'{L(c0 + j)}{r0 + i}'
                inputs[f'{sh}!{xy}'] = ws[xy] = rng.randrange(1, 10) if j == 1 else rng.randrange(11, 50)
            for j, t in enumerate(texts):
                xy = f'{L(c0 + 3 + j)}{r0 + i}'
                forms[f'{sh}!{xy}'] = ws[xy] = t
        t = Table(displayName=name, ref=f'{L(c0)}{r0}:{L(c0 + len(headers) - 1)}{r0 + nrows}')
        t.tableColumns = [TableColumn(id=i, name=h) for i, h in enumerate(headers, start=1)]
        ws.add_table(t)
        must.append(f'{sh}!{L(c0 + 1)}{r0 + rng.randrange(1, nrows + 1)}')
    sh0 = rng.choice(sheets)
    r0, c0, nrows, headers = geometry[sh0]
    wb.defined_names['total_range'] = DefinedName(
        'total_range', attr_text=f'{sh0}!${L(c0 + 3)}${r0 + 1}:${L(c0 + 3)}${r0 + nrows}')
    wb.defined_names['one_cell'] = DefinedName(
        'one_cell', attr_text=f'{sh0}!${L(c0 + rng.choice([1, 2]))}${r0 + rng.randrange(1, nrows + 1)}')
    # beside the tables: the same texts in every workbook, at the same coordinates
    for sh in sheets:
        other = rng.choice(sheets)
        name = TABLE_OF[other]
        texts = rng.sample([f'=SUM({name}[total])', f'=SUM({name}[qty])+one_cell', f'=INDEX({name}[price],2)',
                            '=SUM(total_range)', '=one_cell*2', f'=MAX({name}[[qty]:[price]])',
                            f'=COUNT({name}[[#All],[qty]])', f'=SUM({name}[[#Data],[price]])'], rng.randrange(2, 5))
        for i, t in enumerate(texts, start=1):
            forms[f'{sh}!J{i}'] = wb[sh][f'J{i}'] = t
    order = list(forms)
    rng.shuffle(order)
    return wb, inputs, forms, order, must


UNB_COLS = re.compile(r'(.+)!\$?([A-Z]+):\$?([A-Z]+)')
UNB_ROWS = re.compile(r'(.+)!\$?(\d+):\$?(\d+)')
CELL_RE = re.compile(r'(.+)!([A-Z]+)(\d+)')


def unbounded(formula):
    return re.search(r'(?<![A-Z0-9$:])\$?[A-Z]+:\$?[A-Z]+\b(?![\d(])|(?<![A-Z0-9$:.])\$?\d+:\$?\d+(?![\d.])',
                     formula) is not None


def col_index(letters):
    n = 0
    for ch in letters:
        n = n * 26 + ord(ch) - 64
    return n


def unbounded_members(x, known):
    """The cells among `known` (the written cells of the workbook: inputs, blank cells of the input block, formula
    cells) that the whole-column / whole-row reference x stands for — an unbounded range is its part inside the
    used range of the sheet, which contains every written cell of its columns / rows.  () for any other address."""
    mc, mr = UNB_COLS.fullmatch(x), UNB_ROWS.fullmatch(x)
    if not (mc or mr):
        return ()
    out = []
    for a in known:
        m = CELL_RE.fullmatch(a)
        if not m:
            continue
        if mc and m.group(1) == mc.group(1) and col_index(mc.group(2)) <= col_index(m.group(2)) <= col_index(mc.group(3)):
            out.append(a)
        if mr and m.group(1) == mr.group(1) and int(mr.group(2)) <= int(m.group(3)) <= int(mr.group(3)):
            out.append(a)
    return out


def cells_of(AddressRange, addr):
    a = AddressRange(addr)
    if a.is_range:
        return [c.address for row in a.rows for c in row]
    return [a.address]


def workbook_oracle(ctx):
    ensure_impl_on_path()
    logging.getLogger('pycel').setLevel(logging.CRITICAL)
    rng = ctx.rng
    for wbi in range(ctx.n(250, 2500)):
        wb, inputs, forms, must = build_workbook(rng)
        order = list(forms)
        if wbi % 3 == 2:
            rng.shuffle(order)          # the order in which the formula cells are compiled
        judge_workbook(ctx, wbi, wb, inputs, forms, order, must)
    # ---- whole-column / whole-row references next to the explicit range they stand for, either compiled first
    for wbi in range(ctx.n(150, 1500)):
        wb, inputs, forms, order = build_unbounded_workbook(rng)
        judge_workbook(ctx, ('u', wbi), wb, inputs, forms, order, rng.sample(sorted(inputs), min(4, len(inputs))))
    # ---- one or two formulas that can not be compiled among ordinary ones; the caller carries on after the error
    for wbi in range(ctx.n(120, 1200)):
        wb, inputs, forms, order, kinds = build_broken_workbook(rng)
        validate = rng.sample(order, min(len(order), rng.randrange(1, 4))) if wbi % 2 else ()
        ctx.histogram['broken-workbook:' + '+'.join(sorted(kinds)) + (':validate_calcs' if validate else '')] = \
            ctx.histogram.get('broken-workbook:' + '+'.join(sorted(kinds)) + (':validate_calcs' if validate else ''), 0) + 1
        judge_workbook(ctx, ('b', wbi), wb, inputs, forms, order, rng.sample(sorted(inputs), 3), tolerant=True,
                       validate=validate)
    # ---- tables with calculated columns (one formula text, precedents per row), the same sheet and table names
    #      at other coordinates in every workbook of the run
    for wbi in range(ctx.n(100, 1000)):
        wb, inputs, forms, order, must = build_table_workbook(rng)
        judge_workbook(ctx, ('t', wbi), wb, inputs, forms, order, must)


def judge_workbook(ctx, wbi, wb, inputs, forms, order, must=(), tolerant=False, validate=()):
    """The oracle clauses on one openpyxl workbook: inputs = {address: value or None (blank)} of the written input
    cells, forms = {address: formula text}, order = the order in which the formula cells are first evaluated
    (compiled), must = inputs that are perturbed besides the sampled ones.
    tolerant: the workbook holds formulas that can not be compiled; the caller carries on after the error (every
    evaluate in try/except; validate: addresses handed to validate_calcs first, which swallows the errors) and the
    clauses are judged on every formula cell that DID evaluate (and on every range node)."""
    import networkx as nx
    from pycel.excelutil import ERROR_CODES, AddressRange
    rng = ctx.rng
    known = sorted(set(inputs) | set(forms))
    # (reader, read) pairs: the reader is the formula cell being computed, or the range node / unbounded
    # range reference being computed (its member reads)
    comp, trace = traced_compiler(wb)
    base = {}
    if validate:
        import contextlib
        import io
        try:
            with contextlib.redirect_stdout(io.StringIO()):
                comp.validate_calcs(output_addrs=list(validate))
        except Exception as exc:       # noqa: BLE001
            # (validate_calcs itself gives up on a formula whose text can not be compiled at all — unknown table,
            #  relative R1C1: its error handler asks the cell for needed_addresses; not this property) — carry on
            ctx.histogram['validate_calcs-raised:' + type(exc).__name__] = \
                ctx.histogram.get('validate_calcs-raised:' + type(exc).__name__, 0) + 1
    for a in order:
        try:
            base[a] = ('ok', comp.evaluate(a))
        except Exception as exc:       # noqa: BLE001
            base[a] = ('raise', type(exc).__name__)
    all_forms = forms
    if tolerant:
        failed = {a for a in forms if base[a][0] != 'ok'}
        forms = {a: f for a, f in forms.items() if a not in failed}
        for a in all_forms:
            ctx.count(('broken-eval', wbi, a), kind='broken-workbook:' + ('evaluated' if a in forms else 'raised'))
    else:
        failed = set()

    def queued(node):
        """still waiting in graph_todos (a build that raised left it there)"""
        return any(n is node for n in comp.graph_todos)
    # ---- 1. reads are declared
    for dep, read in trace:
        key = ('read', wbi, dep, read)
        ctx.count(key, kind='read:range' if ':' in read else 'read:cell',
                  sample=dict(formula_cell=dep, formula=forms.get(dep), read=read))
        if dep is None or read in ERROR_CODES or dep in failed:
            continue
        dcell = comp.cell_map[dep]
        try:
            needed = [p.address for p in dcell.needed_addresses]
        except Exception:      # noqa: BLE001
            if tolerant:
                continue
            raise
        case = dict(call='read', args=[forms.get(dep, dep), read], needed=needed, cell=dep)
        if read in needed:
            continue
        rc = cells_of(AddressRange, read)
        cover = [p for p in needed if set(rc) <= set(cells_of(AddressRange, p))]
        if not cover:
            ctx.violation(case, "evaluation read an address that is neither a declared precedent nor inside one",
                          impl=read, expected=needed)
            continue
        ctx.histogram['read:computed-inside-declared'] = ctx.histogram.get('read:computed-inside-declared', 0) + 1
        for m in rc:
            okpath = any(m in comp.cell_map and p in comp.cell_map and
                         (m == p or comp.dep_graph.has_edge(comp.cell_map[m], comp.cell_map[p])) and
                         comp.dep_graph.has_edge(comp.cell_map[p], dcell) for p in cover)
            if not okpath:
                ctx.violation(case, f"cell {m} of a computed read has no path member -> declared range -> dependant "
                                    "in dep_graph", impl=read, expected=cover)
    # ---- 2. edges for declared precedents
    for a in list(comp.cell_map):
        c = comp.cell_map[a]
        if a in failed:
            continue            # did not evaluate: nothing is claimed for it
        try:
            needed = [p.address for p in c.needed_addresses]
        except Exception:      # noqa: BLE001
            continue
        if tolerant and ':' in a.split('!')[-1]:
            try:
                comp.evaluate(a)
            except Exception:      # noqa: BLE001
                continue        # a range node with a member that can not be evaluated
        for p in needed:
            ctx.count(('edge', wbi, p, a), kind='edge')
            if p not in comp.cell_map or not comp.dep_graph.has_edge(comp.cell_map[p], c):
                # what the known finding C04-bounded-range-built-twice is matched on: the unbounded references in
                # cell_map that stand for p, and whether a node that is no longer cell_map[p] but has p's address
                # still carries the edge to the dependant
                stands = sorted(u for u, uc in comp.cell_map.items()
                                if uc.address.is_unbounded_range and [x.address for x in uc.needed_addresses] == [p])
                twin = [n for n in comp.dep_graph.predecessors(c)
                        if n.address.address == p and n is not comp.cell_map.get(p)] if c in comp.dep_graph else []
                ctx.violation(dict(call='edge', args=[forms.get(a, a), p], stood_for_by=stands, replaced_twin=bool(twin),
                                   workbook=all_forms, order=list(order), cell=a, queued=queued(c)),
                              "declared precedent without precedent -> dependant edge in dep_graph", impl=a, expected=p)
    # ---- 3. perturbing a non-ancestor never changes a value
    anc = {}
    for a in forms:
        node = comp.cell_map[a]
        anc[a] = {n.address.address for n in nx.ancestors(comp.dep_graph, node)} if node in comp.dep_graph else set()
    # ---- 2b. every cell that the evaluation of a formula cell reads, directly or through the range nodes and
    #          unbounded-range references it reads, is an ancestor of the formula cell
    reads = {}
    for dep, read in trace:
        if read not in ERROR_CODES:
            reads.setdefault(dep, set()).add(read)
    for a in forms:
        seen, todo, via = set(), [a], {}
        while todo:
            x = todo.pop()
            nxt = set(reads.get(x, ()))
            # an unbounded range stands for its part inside the used range, whose value it takes without a
            # traced call: at least the written cells (input block incl. its blanks, formula cells) of its
            # columns / rows are read
            nxt |= set(unbounded_members(x, known))
            for r in nxt:
                if r not in seen:
                    seen.add(r)
                    via[r] = x
                    todo.append(r)
        def readers(r):
            """the cells and range nodes through which the evaluation of a came to read r (a itself included)"""
            out = []
            while r != a and r in via:
                r = via[r]
                if r in comp.cell_map:
                    out.append(r)
            return out
        for r in sorted(seen):
            if ':' in r.split('!')[-1]:
                continue        # range nodes are the path, the cells are the claim
            ctx.count(('reach', wbi, a, r), kind='reach:' + ('blank-cell' if inputs.get(r, 0) is None else 'cell')
                      + (':unbounded' if unbounded(forms[a]) else ''))
            if r not in anc[a]:
                ctx.violation(dict(call='reach', args=[forms[a], r], workbook=all_forms, blank=inputs.get(r, 0) is None,
                                   cell=a, order=list(order), queued=any(queued(comp.cell_map[x]) for x in readers(r))),
                              "a cell read while the formula is evaluated (through the range nodes it reads) is "
                              "not an ancestor of the formula cell in dep_graph", impl=sorted(anc[a])[:40], expected=r)
    for x in list(must) + rng.sample(sorted(inputs), min(len(inputs), ctx.n(6, 18))):
        if x not in comp.cell_map:
            continue        # never built: nothing declared it
        old = inputs[x]
        comp.set_value(x, (old or 0) + 1000.5)
        for a in forms:
            if x in anc[a]:
                continue
            ctx.count(('perturb', wbi, x, a), kind='perturb')
            try:
                now = ('ok', comp.evaluate(a))
            except Exception as exc:       # noqa: BLE001
                now = ('raise', type(exc).__name__)
            if not g.same_value(now, base[a]) and not (now[0] == 'ok' and base[a][0] == 'ok' and
                                                      repr(now[1]) == repr(base[a][1])):
                ctx.violation(dict(call='perturb', args=[forms[a], x], workbook=forms),
                              "a cell that is not an ancestor in dep_graph influenced the value",
                              impl=now, expected=base[a])
        comp.set_value(x, old)
    # cells the workbook never linked can still be probed through a fresh read: an input that was never built
    # is not in cell_map, so set_value would fail — nothing to do


# ------------------------------------------------------------------ graph read traces (model vs implementation)
def traced_compiler(owb):
    """ExcelCompiler on the openpyxl workbook with every read recorded as (reader address, read address):
    the reader is the formula cell being computed (pushed by the wrapped _eval) or the range node being
    computed (pushed by the wrapped _evaluate_range); reads made with no reader (the top-level evaluate,
    _process_gen_graph's evaluation of a new range) are not pairs.  Returns (compiler, trace list)."""
    from pycel import ExcelCompiler
    from pycel.excelformula import ExcelFormula
    comp = ExcelCompiler(excel=owb)
    trace, stack = [], []
    orig_e, orig_r = comp._evaluate, comp._evaluate_range

    def ev(addr):
        if stack and stack[-1] is not None:
            trace.append((stack[-1], str(addr)))
        return orig_e(addr)

    def evr(addr):
        addr = str(addr)
        if stack and stack[-1] is not None and stack[-1] != addr:
            trace.append((stack[-1], addr))
        if ':' not in addr.split('!')[-1]:
            # a range operation which produced a single cell (=A1:B3 B1:C1): the read, by the current reader, is
            # recorded above; a cell handed to _evaluate_range is no range node, it has no member reads of its own
            # (since 03ac76a _evaluate_range passes a blank one on to _evaluate)
            return orig_r(addr)
        stack.append(addr)
        try:
            return orig_r(addr)
        finally:
            stack.pop()
    # instance attributes shadow the methods: _evaluate_range reads its members through self._evaluate,
    # _evaluate hands a range node to self._evaluate_range
    comp._evaluate, comp._evaluate_range = ev, evr
    ectx = ExcelFormula.build_eval_context(ev, evr, comp.log, plugins=comp._plugin_modules)

    def _eval(cell, cse_array_address=None):
        stack.append(cell.address.address)
        try:
            return ectx(cell.formula, cse_array_address=cse_array_address)
        finally:
            stack.pop()
    assert comp._eval is None
    comp._eval = _eval
    orig_g = comp._gen_graph

    def gen_graph(seed, recursed=False):
        # what a graph build computes (the values of new ranges — after a build that raised also of ranges and
        # cells left waiting by that build) is not read by the formula cell whose evaluation triggered the build
        stack.append(None)
        try:
            return orig_g(seed, recursed=recursed)
        finally:
            stack.pop()
    comp._gen_graph = gen_graph
    return comp, trace


def graph_traces(ctx):
    """Correspondence for Model/ReadTrace.v: on generated DAG workbooks x histories of evaluate / set_value, the set
    of (reader, read) pairs of every evaluate call of the implementation equals the model's run_traced; and the
    property itself on the implementation's trace (independent of the model): every pair is a declared precedent /
    range member of the reader in the generated workbook, and dep_graph has the edge read -> reader."""
    ensure_impl_on_path()
    rng = ctx.rng
    batch = []
    for k in range(ctx.n(260, 4000)):
        blank = k % 7 == 6
        wb = wbgen.gen_workbook(rng, ncells=rng.randrange(5, 12), pool=wbgen.POOL if k % 3 == 2 else wbgen.CLEAN_POOL,
                                blank_results=blank)
        comp, trace = traced_compiler(wb.to_openpyxl())
        ops, impl, hist = [], [], []
        desc = [(x['addr'], x.get('value'), x.get('text')) for x in wb.nodes]
        for _ in range(rng.randrange(6, 13)):
            built_inputs = [i for i in wb.inputs() if wb.nodes[i]['addr'] in comp.cell_map]
            if built_inputs and rng.random() < 0.4:
                a = rng.choice(built_inputs)
                v = rng.choice(wbgen.POOL if k % 3 == 2 else wbgen.CLEAN_POOL)
                comp.set_value(wb.nodes[a]['addr'], v)
                ops.append([1, a, enc_val(v)])
                hist.append(['set', wb.nodes[a]['addr'], v])
                impl.append(None)
                continue
            n = rng.randrange(len(wb.nodes))
            addr = wb.nodes[n]['addr']
            del trace[:]
            try:
                comp.evaluate(addr)
            except Exception as exc:    # noqa: BLE001
                ctx.violation(dict(call='graph-trace', args=[desc, hist + [['eval', addr]]]),
                              f"evaluate raises {type(exc).__name__}")
                break
            ops.append([0, n])
            hist.append(['eval', addr])
            pairs = set()
            case = dict(call='graph-trace', args=[desc, list(hist)])
            for reader, read in trace:
                ri, di = wb.index_of(reader), wb.index_of(read)
                pairs.add((ri, di))
                ctx.count(('gread', k, len(ops), reader, read), kind='graph-read:' + wb.nodes[di]['kind']
                          if di is not None else 'graph-read:?')
                # ---- the property on the implementation's own trace
                if ri is None or di is None or di not in wb.nodes[ri]['deps']:
                    ctx.violation(case, "evaluation read a cell that is neither a declared precedent of the reader nor "
                                        "a member of the range that reads", impl=(reader, read),
                                  expected=[wb.nodes[d]['addr'] for d in wb.nodes[ri]['deps']] if ri is not None else None)
                elif not comp.dep_graph.has_edge(comp.cell_map[read], comp.cell_map[reader]):
                    ctx.violation(case, "a read without the edge read -> reader in dep_graph", impl=(reader, read))
            impl.append(pairs)
        ctx.count(('gtrace', k), kind='graph-trace-history', sample=dict(workbook=desc, history=hist))
        batch.append((dict(call='graph-trace', args=[desc, hist]), wb, ops, impl))
    if not ctx.model:
        return
    answers = ctx.model.batch([('traces', [wb.wire(), ops]) for (_, wb, ops, _) in batch])
    for (case, wb, ops, impl), ans in zip(batch, answers):
        if not isinstance(ans, list) or len(ans) != len(ops) or (ans and not isinstance(ans[0], list)):
            ctx.divergence(case, 'n/a', ans, 'Model/ReadTrace.v traces entry rejected the input')
            continue
        for j, (ip, m) in enumerate(zip(impl, ans)):
            mp = {(x[0], x[1]) for x in m[1]}
            if ip is None:
                if mp:
                    ctx.divergence(dict(case, step=j), set(), sorted(mp), 'Model/ReadTrace.v: set_value reads nothing')
                continue
            if mp != ip:
                ctx.divergence(dict(case, step=j), sorted(ip, key=repr), sorted(mp),
                               'Model/ReadTrace.v run_traced = (reader, read) pairs of ExcelCompiler.evaluate')
                break


def run(ctx):
    ctx.extra['rule'] = (
        "correspondence: PRNG formula trees of depth <= 6 rich in references (plain, $, lower case, sheet-qualified, "
        "ranges, nested intersection operators, ROW/COLUMN/INDEX/IF/SUM arguments) plus the C02 tree stream, rendered "
        "with random parentheses and white space; oracle: PRNG workbooks (2 sheets x 9 inputs, 8-21 formulas over 20 "
        "reference-form templates incl. defined names, multi-colon, union, CSE members, whole-column ranges, chains "
        "through other formula cells; about one input cell in eight is blank; 0-3 cells that read the cell / a range at "
        "their OWN coordinate on the other sheet, with ROW()/COLUMN() without argument; every third workbook first "
        "evaluated in a shuffled order) and 150 workbooks with a whole-column / whole-row reference next to the "
        "explicit range it stands for (A:A <-> A1:A{max_row}, 2:2 <-> A2:{max_column}2; separate cells or one formula, "
        "either order; random first-evaluation order), 120 workbooks with one or two formulas that can not be compiled "
        "([1]Other!A1, missing sheet, unknown table, unbalanced parentheses, relative R1C1) among 5-10 ordinary ones "
        "that read them next to other formula cells, every evaluate in try/except (every second workbook after "
        "validate_calcs on 1-3 cells), clauses on the cells that evaluated, and 100 workbooks with tables Orders / "
        "Costs on Sheet1 / Sheet2 at varying coordinates with 1-2 calculated columns (13 this-row / column templates, "
        "same text in every row), cells beside them reading table columns and defined names with varying targets; "
        "a case is non-trivial when it is a distinct formula text, (workbook, cell, read) triple, edge or "
        "(workbook, perturbed input, formula cell) triple; graph traces: PRNG single-sheet DAG workbooks of "
        "harness/wbgen.py (5-11 cells, ranges, nested ranges) x 6-12 evaluate/set_value operations, the set of "
        "(reader, read) pairs of every evaluate compared with Model/ReadTrace.v and checked against the generated "
        "dependency lists and dep_graph")
    correspondence(ctx)
    graph_traces(ctx)
    workbook_oracle(ctx)
