"""C15 — conditional aggregation (COUNTIF(S), SUMIF(S), AVERAGEIF(S), MAXIFS,
MINIFS): correspondence of the extracted model (coq/Model/Criteria.v over the
generated excelutil helpers) with the real functions called through
function_helpers.apply_meta, and the property's oracle evaluated directly on
the implementation (an independent reading of the criteria grammar)."""
import fractions
import itertools
import re

from harness.common import (dec_res, enc_val, ensure_impl_on_path, known_predicate, run_impl, same)

GEN_MODULES = ['excelutil']
EXTRA_TARGETS = ['Refuted/C15_error_cells.vo', 'Refuted/C15_partition.vo']

Fr = fractions.Fraction
ERRORS = ['#NULL!', '#DIV/0!', '#VALUE!', '#REF!', '#NAME?', '#NUM!', '#N/A']
OPS = ['<>', '<=', '>=', '=', '<', '>']
DEC = re.compile(r'^\s*[+-]?(\d+\.?\d*|\.\d+)([eE][+-]?\d+)?\s*$')
META = set('.^$+{}[]\\|()')

ASSUMPTIONS = [
    "ranges are tuples of row tuples of scalars (number, text, logical, blank, error text); criteria are "
    "numbers or text",
    "exact arithmetic: numeric cells are integers below 2^26 or dyadic fractions k/2^j (j <= 12), so every "
    "sum of the implementation is exact and results are compared bit for bit (an average is one correctly "
    "rounded division of an exact sum)",
    "outside the model (Unmodelled; only the oracle judges these cases): wildcard criteria containing a "
    "regex metacharacter other than ? and *, text containing a line feed, non-ASCII text in a numeric "
    "test, text starting with i/n (inf/nan spellings) in a numeric test, rows that are not sequences",
    "oracle: a logical cell under a numeric criterion, a logical among the aggregated cells, a blank under "
    "a text criterion with <,<=,>,>= and the ordering of non-alphanumeric text are not judged (the property "
    "does not say); error-valued cells count as text in the criteria range",
]

EXPLANATION = (
    "Model/Criteria.v transcribes criteria_parser (closures -> a criterion datatype + sat), "
    "build_wildcard_re (regex -> a ?/* matcher), handle_ifs (shape checks, Counter intersection) and the "
    "eight consumers on top of the generated is_number/coerce_to_number/list_like/OPERATORS/ERROR_CODES. "
    "The theorems of Props/C15.v are about these functions; the differential run ties them to the code.")


# --------------------------------------------------------------- the oracle
def split_op(c):
    for o in OPS:
        if c.startswith(o):
            return o, c[len(o):]
    return '', c


def dec_number(s):
    """The number a text stands for when it is a plain decimal literal."""
    if isinstance(s, str) and DEC.match(s):
        return Fr(s.strip())
    return None


def tokens(p):
    """Excel wildcard pattern -> tokens ('lit', ch) | ('one',) | ('many',);
    ~? ~* ~~ are the literal characters."""
    out, i = [], 0
    while i < len(p):
        ch = p[i]
        if ch == '~' and i + 1 < len(p) and p[i + 1] in '?*~':
            out.append(('lit', p[i + 1].lower()))
            i += 2
            continue
        if ch == '?':
            out.append(('one',))
        elif ch == '*':
            out.append(('many',))
        else:
            out.append(('lit', ch.lower()))
        i += 1
    return out


def glob(toks, s):
    """Declarative ?/* match of the whole of s."""
    reach = {0}
    for t in toks:
        nxt = set()
        for i in reach:
            if t[0] == 'lit':
                if i < len(s) and s[i] == t[1]:
                    nxt.add(i + 1)
            elif t[0] == 'one':
                if i < len(s):
                    nxt.add(i + 1)
            else:
                nxt.update(range(i, len(s) + 1))
        reach = nxt
    return len(s) in reach


def simple(s):
    return all(c.isascii() and (c.isalnum() or c == ' ') for c in s)


def cmp_op(op, a, b):
    return {'': a == b, '=': a == b, '<>': a != b, '<': a < b, '<=': a <= b, '>': a > b, '>=': a >= b}[op]


def sat_spec(crit, cell):
    """Does the cell satisfy the criterion?  True / False / None (not judged).
    Written from the property's statement, independently of pycel."""
    if isinstance(crit, bool):
        return None
    if isinstance(crit, (int, float)):
        op, n, operand = '=', Fr(crit), None
    else:
        op, operand = split_op(crit)
        n = dec_number(operand)
    if n is not None:                                   # numeric criterion
        if isinstance(cell, bool):
            return None
        if isinstance(cell, (int, float)):
            return cmp_op(op, Fr(cell), n)
        if cell is None:
            return op == '<>'
        if op in ('', '='):                             # numeric text stands for its number
            m = dec_number(cell)
            return m is not None and m == n
        return op == '<>'                               # text never satisfies <,>; always <>
    toks = tokens(operand)
    wild = any(t[0] != 'lit' for t in toks)
    if operand.upper() in ('TRUE', 'FALSE') and isinstance(cell, bool):
        return None
    if op in ('', '=', '<>'):
        if cell is None:
            r = (operand == '') and not wild
        elif isinstance(cell, str):
            r = glob(toks, cell.lower())
        else:
            r = False
        return (not r) if op == '<>' else r
    if isinstance(cell, str):
        if wild or '~' in operand or not simple(cell) or not simple(operand):
            return None
        return cmp_op(op, cell.lower(), operand.lower())
    if cell is None:
        return None
    return False


def spec_select(ranges, crits):
    """(must, may): positions that satisfy every criterion / that might."""
    h, w = len(ranges[0]), len(ranges[0][0])
    must, may = [], []
    for r in range(h):
        for c in range(w):
            vals = [sat_spec(cr, rg[r][c]) for rg, cr in zip(ranges, crits)]
            if any(v is False for v in vals):
                continue
            (may if any(v is None for v in vals) else must).append((r, c))
    return must, may


def is_num(v):
    return isinstance(v, (int, float)) and not isinstance(v, bool)


def spec_aggregate(name, cells):
    """Expected result of a consumer over the selected cells of the
    aggregated range; None = not judged (a logical among them)."""
    if any(isinstance(x, bool) for x in cells):
        return None
    errs = [x for x in cells if isinstance(x, str) and x in ERRORS]
    if errs:
        return ('error', errs)
    nums = [Fr(x) for x in cells if is_num(x)]
    if name.startswith('sum'):
        return ('num', sum(nums))
    if name.startswith('average'):
        return ('num', sum(nums) / len(nums)) if nums else ('text', '#DIV/0!')
    if name == 'maxifs':
        return ('num', max(nums) if nums else 0)
    return ('num', min(nums) if nums else 0)


def agg_matches(want, got):
    """got = run_impl result."""
    if got[0] != 'ok':
        return False
    v = got[1]
    if want[0] == 'error':
        return isinstance(v, str) and v in want[1]
    if want[0] == 'text':
        return v == want[1]
    if isinstance(v, tuple) and v[0] == 'float' and isinstance(v[1], Fr):
        return v[1] == want[1] or v[1] == Fr(float(want[1]))
    if isinstance(v, int) and not isinstance(v, bool):
        return Fr(v) == want[1]
    return False


# ------------------------------------------------- known-finding predicates
# (inert until the coordinator adds the entry to known_findings.json)
def _pairs(case):
    """(ranges, criteria) of a case, whatever the call."""
    a = case.get('args', [])
    call = case.get('call', '')
    if call in ('countif', 'sumif', 'averageif', 'partition'):
        return [a[0]], [a[1]]
    if call in ('countifs', 'handle_ifs', 'commute'):
        return list(a[0::2]), list(a[1::2])
    if call in ('sumifs', 'averageifs', 'maxifs', 'minifs'):
        return list(a[1::2]), list(a[2::2])
    return [], []


def _cells(rng):
    if isinstance(rng, (list, tuple)):
        for row in rng:
            if isinstance(row, (list, tuple)):
                yield from row
            else:
                yield row
    else:
        yield rng


def _is_wild_crit(c):
    if not isinstance(c, str):
        return False
    op, v = split_op(c)
    return op in ('', '=') and dec_number(v) is None and ('?' in v or '*' in v)


def python_only_number(v):
    if not isinstance(v, str) or DEC.match(v):
        return False
    try:
        float(v)
        return True
    except ValueError:
        return False


@known_predicate('C15-ne-wildcard-literal')
def _ne_wild(case):
    """'<>' with a ?/* operand is compared literally."""
    rs, cs = _pairs(case)
    if case.get('call') == 'partition':
        return isinstance(cs[0], str) and ('?' in cs[0] or '*' in cs[0])
    return any(isinstance(c, str) and c.startswith('<>') and ('?' in c or '*' in c) for c in cs)


@known_predicate('C15-numeric-text-both')
def _numtext_both(case):
    """A numeric text cell satisfies both '=n' (read as a number) and '<>n' (read as text)."""
    rs, cs = _pairs(case)
    return case.get('call') == 'partition' and dec_number(str(cs[0])) is not None and \
        any(dec_number(x) is not None for x in _cells(rs[0]) if isinstance(x, str))


@known_predicate('C15-error-in-aggregated-cells')
def _err_agg(case):
    """An error value among the selected cells of the aggregated range: sum()/max()/min() of the
    error text."""
    a = case.get('args', [])
    call = case.get('call', '')
    if call in ('sumifs', 'averageifs', 'maxifs', 'minifs'):
        rng, rs, cs = a[0], list(a[1::2]), list(a[2::2])
    elif call in ('sumif', 'averageif'):
        rng, rs, cs = (a[2] if len(a) > 2 and a[2] is not None else a[0]), [a[0]], [a[1]]
    else:
        return False
    try:
        must, may = spec_select(rs, cs)
        return any(isinstance(rng[r][c], str) and rng[r][c] in ERRORS for r, c in must + may)
    except (IndexError, TypeError):
        return False


@known_predicate('C15-python-numeric-text')
def _py_numtext(case):
    """inf / nan / digit-group underscores: text that float() accepts is read as a number."""
    rs, cs = _pairs(case)

    def numeric_crit(c):
        return (isinstance(c, (int, float)) and not isinstance(c, bool)) or \
            (isinstance(c, str) and dec_number(split_op(c)[1]) is not None)
    return any(python_only_number(split_op(c)[1]) for c in cs if isinstance(c, str)) or \
        any(numeric_crit(c) and any(python_only_number(x) for x in _cells(r)) for r, c in zip(rs, cs))


@known_predicate('C15-tilde-escape')
def _tilde(case):
    """~? ~* ~~ are not treated as literal characters."""
    rs, cs = _pairs(case)
    return any(isinstance(c, str) and re.search(r'~[?*~]', c) for c in cs)


@known_predicate('C15-regex-meta-in-wildcard')
def _meta(case):
    """A ?/* criterion with a regex metacharacter: the text is compiled as a regex unescaped."""
    rs, cs = _pairs(case)
    return any(_is_wild_crit(c) and any(ch in META for ch in c) for c in cs)


# ----------------------------------------------------------------- generators
NUMS = [0, 1, -1, 2, 3, 5, 10, 2.5, 0.5, -3.0, 1.0, 100, 7, 2.0, -0.25, 12]
WORDS = ['apple', 'Apple', 'APPLE', 'apply', 'a', 'b', 'B', 'banana', 'pear', 'ab', 'abc', 'x y', '',
         'ape', 'pple', 'a*', 'a?', '?', '*', 'a~b', 'a?c', 'axc']
NUMTEXT = ['1', '2.5', '10', ' 5 ', '1e1', '-1', '3.0', '05']
ODDTEXT = ['é', 'É', 'TRUE', 'true', 'zebra']
PYNUM = ['inf', 'nan', '1_0']
WILD = ['a*', '?pple', '*e', 'a?', '*', '?', 'a*e', '*p*', '??', 'A*', 'a?c', '*b*', 'ap*', '?????', 'b*a', '**',
        '*?', 'x*y']
TILDE = ['a~?', '~*', 'a~*', '~?', 'a~~b']
METAW = ['a.*', 'a(*', '[a]*', 'a.?', '*+', 'a|b*']
METAL = ['a.', '(a)', 'a+b', '$']


def rnd_num(ctx):
    k = ctx.rng.random()
    if k < 0.5:
        return ctx.rng.choice(NUMS)
    if k < 0.8:
        return ctx.rng.randrange(-20, 40)
    if k < 0.9:
        return ctx.rng.randrange(-2 ** 26, 2 ** 26)
    return ctx.rng.randrange(-2 ** 16, 2 ** 16) / 2 ** ctx.rng.randrange(1, 12)


def rnd_cell(ctx, profile):
    """profile: 'mixed' | 'text' | 'num' | 'agg' (the aggregated range: mostly numbers)."""
    k = ctx.rng.random()
    if profile == 'text':
        if k < 0.75:
            return ctx.rng.choice(WORDS)
        if k < 0.85:
            return None
        if k < 0.92:
            return ctx.rng.choice(NUMTEXT + ODDTEXT)
        return ctx.rng.choice(ERRORS)
    if profile == 'num':
        return rnd_num(ctx)
    if profile == 'agg':
        if k < 0.8:
            return rnd_num(ctx)
        if k < 0.86:
            return ctx.rng.choice(WORDS + NUMTEXT)
        if k < 0.92:
            return None
        if k < 0.96:
            return ctx.rng.choice([True, False])
        return ctx.rng.choice(ERRORS)
    if k < 0.35:
        return rnd_num(ctx)
    if k < 0.65:
        return ctx.rng.choice(WORDS)
    if k < 0.75:
        return ctx.rng.choice(NUMTEXT)
    if k < 0.82:
        return None
    if k < 0.89:
        return ctx.rng.choice([True, False])
    if k < 0.94:
        return ctx.rng.choice(ERRORS)
    if k < 0.98:
        return ctx.rng.choice(ODDTEXT)
    return ctx.rng.choice(PYNUM)


def rnd_range(ctx, h, w, profile):
    return tuple(tuple(rnd_cell(ctx, profile) for _ in range(w)) for _ in range(h))


def num_text(ctx, v):
    if isinstance(v, float) and v == int(v) and ctx.rng.random() < 0.5:
        return str(int(v))
    return repr(v)


def rnd_crit(ctx, rng):
    """A criterion from the grammar, biased towards values present in the range."""
    cells = [x for row in rng for x in row]
    present_nums = [x for x in cells if is_num(x)] or NUMS
    present_text = [x for x in cells if isinstance(x, str) and x not in ERRORS] or WORDS
    k = ctx.rng.random()
    if k < 0.14:
        return ctx.rng.choice(present_nums) if ctx.rng.random() < 0.7 else rnd_num(ctx)
    if k < 0.38:
        n = ctx.rng.choice(present_nums) if ctx.rng.random() < 0.7 else rnd_num(ctx)
        sp = ' ' if ctx.rng.random() < 0.05 else ''
        return ctx.rng.choice(['=', '<>', '<', '<=', '>', '>=', '']) + sp + num_text(ctx, n)
    if k < 0.52:
        return ctx.rng.choice(present_text) if ctx.rng.random() < 0.7 else ctx.rng.choice(WORDS)
    if k < 0.70:
        t = ctx.rng.choice(present_text) if ctx.rng.random() < 0.7 else ctx.rng.choice(WORDS + ODDTEXT)
        return ctx.rng.choice(['=', '<>', '<', '<=', '>', '>=']) + t
    if k < 0.86:
        return ctx.rng.choice(['', '', '', '=', '<>']) + ctx.rng.choice(WILD)
    if k < 0.92:
        return ctx.rng.choice(['', '=', '<>', '<', '>', '<=', '>='])
    if k < 0.94:
        return ctx.rng.choice(['<', '>', '>=']) + ctx.rng.choice(WILD)
    if k < 0.96:
        return ctx.rng.choice(['', '=', '<>']) + ctx.rng.choice(TILDE)
    if k < 0.98:
        return ctx.rng.choice(['', '=', '<>']) + ctx.rng.choice(METAW + METAL)
    return ctx.rng.choice(PYNUM + ['=TRUE', 'FALSE'])


ALL_CRITS = (
    [0, 1, -1, 2, 2.5, 10, 1.0, 100, 5]
    + [o + t for o in ['', '=', '<>', '<', '<=', '>', '>='] for t in ['1', '2.5', '0', '-1', '10', '5', ' 5', '1e1']]
    + [o + t for o in ['', '=', '<>', '<', '<=', '>', '>='] for t in WORDS + ODDTEXT]
    + [o + t for o in ['', '=', '<>', '>'] for t in WILD + TILDE + METAW + METAL]
    + PYNUM + ['=inf', '<>1_0', True, False, None, (1, 2), ((1,),), 'a\nb', '=\n'])
ALL_CELLS = NUMS + WORDS + NUMTEXT + ODDTEXT + PYNUM + ERRORS + [None, True, False, 'a\n', 'line\nfeed', 2 ** 26 + 1,
                                                                 1.5, -7, 'Nut', 'ice']


# ------------------------------------------------------------------------ run
def run(ctx):
    ensure_impl_on_path()
    import pycel.excellib as L
    import pycel.lib.stats as S
    from pycel.excelutil import criteria_parser, handle_ifs
    from pycel.lib.function_helpers import apply_meta

    F = {}
    for mod, names in ((S, ['countif', 'countifs', 'averageif', 'averageifs', 'maxifs', 'minifs']),
                       (L, ['sumif', 'sumifs'])):
        for n in names:
            F[n] = apply_meta(getattr(mod, n), name_space={})[0]

    ctx.extra['rule'] = (
        "PRNG-sampled scenarios: a shape h x w (h <= 5, w <= 3), 1..3 criteria ranges over mixed / text / "
        "numeric pools (numbers incl. dyadic fractions, case variants of words, numeric text, blank, logicals, "
        "error values, Latin-1 text, inf/nan spellings), an aggregated range (mostly numbers), and criteria "
        "from the grammar {number, op number, text, op text, ?/* wildcards, empty, bare operators, tilde "
        "escapes, regex metacharacters}, biased towards values present in the range; every scenario is run "
        "through handle_ifs, COUNTIFS, SUMIFS, AVERAGEIFS, MAXIFS, MINIFS (and COUNTIF, SUMIF, AVERAGEIF for one "
        "criterion) on model and implementation; plus every (criterion, cell) of a ~330 x ~90 table through "
        "criteria_parser, shape-mismatch / scalar / empty / ragged ranges, and the algebraic statements "
        "(IFS = IF, commutation, =x / <>x partition, AVERAGEIFS = SUMIFS / COUNTIFS) on the implementation. "
        "A scenario is non-trivial when some but not all positions are selected.")

    calls = []       # (entry, model args (python values), impl thunk description)

    def add(entry, margs, fn, iargs, case_call=None, case_args=None):
        calls.append(dict(entry=entry, margs=margs, fn=fn, iargs=iargs,
                          case=dict(call=case_call or entry, args=list(case_args if case_args is not None else iargs))))

    def h_ifs(*a):
        return handle_ifs(a)

    def h_ifs_op(op, *a):
        return handle_ifs(a, op)

    def chk(crit, x):
        return criteria_parser(crit)(x)

    # ---- 1. criteria_parser(crit)(cell) over the whole table
    for crit in ALL_CRITS:
        for x in ALL_CELLS:
            add('check', [crit, x], chk, (crit, x))

    # ---- 2. scenarios
    scenarios = []
    for _ in range(ctx.n(8000, 60000)):
        h, w = ctx.rng.randrange(1, 6), ctx.rng.randrange(1, 4)
        k = ctx.rng.choice([1, 1, 2, 2, 3])
        prof = ctx.rng.choice(['mixed', 'mixed', 'mixed', 'text', 'num'])
        ranges = [rnd_range(ctx, h, w, prof if ctx.rng.random() < 0.8 else 'mixed') for _ in range(k)]
        if k > 1 and ctx.rng.random() < 0.3:
            ranges[1] = ranges[0]
        crits = [rnd_crit(ctx, rg) for rg in ranges]
        agg = rnd_range(ctx, h, w, 'agg') if ctx.rng.random() < 0.85 else ranges[0]
        scenarios.append((ranges, crits, agg))
    for ranges, crits, agg in scenarios:
        args = tuple(itertools.chain.from_iterable(zip(ranges, crits)))
        add('handle_ifs', [args], h_ifs, args)
        add('countifs', [args], F['countifs'], args)
        for n in ('sumifs', 'averageifs', 'maxifs', 'minifs'):
            add(n, [agg, args], F[n], (agg,) + args)
        if len(ranges) == 1:
            add('countif', [ranges[0], crits[0]], F['countif'], (ranges[0], crits[0]))
            add('sumif', [ranges[0], crits[0], agg], F['sumif'], (ranges[0], crits[0], agg))
            add('sumif', [ranges[0], crits[0], None], F['sumif'], (ranges[0], crits[0]),
                case_args=(ranges[0], crits[0], None))
            add('averageif', [ranges[0], crits[0], agg], F['averageif'], (ranges[0], crits[0], agg))

    # ---- 3. shapes: mismatches, scalars, empty, ragged, odd argument counts
    r23 = ((1, 'a', 2), (3, None, 'b'))
    r32 = ((1, 2), ('a', 3), (None, 4))
    r22 = ((1, 2), (3, 4))
    shapes = [
        (r23, 1, r32, 1), (r23, 1, r22, '>0'), (r22, '>1', r22, '<4'), (5, 5), (5, '>4', ((7,),), 7), ('a', 'a'),
        (None, ''), (None, '='), ((), 1), (((),), 1), (r22, 1, (), 1), ((), 1, r22, 1), (r22,), (), (r22, 1, r22),
        (((1, 2), (3,)), '>0'), ([[1, 2], [3, 4]], '>1'), (r22, None), (r22, (1, 2)), (r22, '>1', r22, None),
        (r22, 'a*', r22, None), ((('a', 1),), 'a*', (('a', 1),), None), (True, True), (2.5, '>2'),
        (r22, '>1', ((1, 2, 3), (4, 5, 6)), '>1'), (((1, 2, 3), (4, 5)), '>1', ((1, 2, 3), (4, 5, 6)), '>1'),
    ]
    aggs = [r22, r23, r32, 5, (), ((),), ((1, 2), (3,)), None, ((1, 2, 3), (4, 5, 6)), (('#N/A', 2), (3, 4))]
    for a in shapes:
        add('handle_ifs', [tuple(a)], h_ifs, tuple(a))
        add('countifs', [tuple(a)], F['countifs'], tuple(a))
        if len(a) == 2:
            add('countif', [a[0], a[1]], F['countif'], tuple(a))
        for g in aggs:
            if g is not None:       # handle_ifs(args, None) = no aggregated range
                add('handle_ifs_op', [tuple(a), g], h_ifs_op, (g,) + tuple(a), case_call='handle_ifs_op',
                    case_args=(g,) + tuple(a))
            for n in ('sumifs', 'averageifs', 'maxifs', 'minifs'):
                add(n, [g, tuple(a)], F[n], (g,) + tuple(a))
            if len(a) == 2:
                add('sumif', [a[0], a[1], g], F['sumif'], (a[0], a[1], g))
                add('averageif', [a[0], a[1], g], F['averageif'], (a[0], a[1], g))

    # ---- run both sides
    impl = [run_impl(c['fn'], *c['iargs']) for c in calls]
    model = [None] * len(calls)
    if ctx.model:
        model = [dec_res(x) for x in ctx.model.batch(
            [(c['entry'], [enc_val(v) for v in c['margs']]) for c in calls])]
    unmodelled = 0
    for c, i, m in zip(calls, impl, model):
        e = c['entry']
        ctx.count((e, repr(c['iargs'])), kind='corr:' + e, nontrivial=True,
                  sample=dict(c['case'], impl=i) if e != 'check' else None)
        if m is None:
            continue
        if m[0] == 'raise' and m[1] in ('Unmodelled', 'OutOfFuel'):
            unmodelled += 1
            continue
        if m[0] == 'bad':
            ctx.divergence(c['case'], i, m, 'wire: the model refused the arguments')
            continue
        if not same(m, i):
            ctx.divergence(c['case'], i, m, f'Model/Criteria.v {e} = pycel {e}')
    ctx.histogram['unmodelled'] = unmodelled

    # ---- oracle 0: criteria table — never fails, agrees with the declarative reading
    for crit in ALL_CRITS:
        if not isinstance(crit, (int, float, str)) or isinstance(crit, bool) or (isinstance(crit, str) and '\n' in crit):
            continue
        for x in ALL_CELLS:
            if isinstance(x, str) and '\n' in x:
                continue
            case = dict(call='countif', args=[((x,),), crit])
            got = run_impl(F['countif'], ((x,),), crit)
            want = sat_spec(crit, x)
            ctx.count(('o-check', repr(crit), repr(x)), kind='oracle:cell')
            if got[0] == 'raise':
                ctx.violation(case, f"COUNTIF raises {got[1]} on a cell of the range", impl=got,
                              expected=None if want is None else int(want))
            elif want is not None and got != ('ok', int(want)):
                ctx.violation(case, "cell selection differs from the criterion's meaning", impl=got,
                              expected=int(want))

    # ---- oracle 1: selection and aggregation on the scenarios
    for ranges, crits, agg in scenarios:
        args = tuple(itertools.chain.from_iterable(zip(ranges, crits)))
        h, w = len(ranges[0]), len(ranges[0][0])
        must, may = spec_select(ranges, crits)
        nontrivial = 0 < len(must) < h * w
        ctx.count(('o-sel', repr(args)), kind=f'oracle:select{len(ranges)}', nontrivial=nontrivial)
        case = dict(call='handle_ifs', args=list(args))
        got = run_impl(h_ifs, *args)
        sel = None
        if got[0] == 'raise':
            ctx.violation(dict(call='countifs', args=list(args)),
                          f"raises {got[1]}: a cell of the criteria range makes the function fail", impl=got,
                          expected=sorted(must))
        else:
            sel = sorted(tuple(p) for p in got[1])
            lo, hi = set(must), set(must) | set(may)
            if len(set(sel)) != len(sel) or not (lo <= set(sel) <= hi):
                ctx.violation(dict(call='countifs', args=list(args)),
                              "selected positions differ from the positions satisfying every criterion",
                              impl=sel, expected=sorted(must) + ([('maybe', sorted(may))] if may else []))
            cnt = run_impl(F['countifs'], *args)
            if cnt != ('ok', len(sel)):
                ctx.violation(dict(call='countifs', args=list(args)), "COUNTIFS is not the number of selected positions",
                              impl=cnt, expected=len(sel))
        # aggregation over the declaratively selected positions
        if not may:
            cells = [agg[r][c] for r, c in must]
            res = {}
            for n in ('sumifs', 'averageifs', 'maxifs', 'minifs'):
                want = spec_aggregate(n, cells)
                g = run_impl(F[n], agg, *args)
                res[n] = g
                ctx.count(('o-agg', n, repr(agg), repr(args)), kind='oracle:' + n)
                if want is None:
                    if g[0] == 'raise':
                        ctx.violation(dict(call=n, args=[agg] + list(args)), f"raises {g[1]}", impl=g)
                    continue
                if not agg_matches(want, g):
                    ctx.violation(dict(call=n, args=[agg] + list(args)),
                                  (f"raises {g[1]}" if g[0] == 'raise' else
                                   "result is not the aggregate of exactly the matching positions"),
                                  impl=g, expected=[want[0], want[1]])
            # over numeric data AVERAGEIFS = SUMIFS / COUNTIFS
            if cells and all(is_num(x) for x in cells) and sel:
                s, a = res['sumifs'], res['averageifs']
                ctx.count(('o-avg', repr(agg), repr(args)), kind='oracle:avg')
                ok = s[0] == 'ok' and a[0] == 'ok' and agg_matches(('num', num_of(s[1]) / len(sel)), a) \
                    if s[0] == 'ok' and num_of(s[1]) is not None else False
                if not ok:
                    ctx.violation(dict(call='averageifs', args=[agg] + list(args)),
                                  "AVERAGEIFS differs from SUMIFS / COUNTIFS", impl=a, expected=[s, len(sel)])
        # the one-criterion IFS form equals the IF form
        if len(ranges) == 1:
            rg, cr = ranges[0], crits[0]
            ctx.count(('o-if', repr(args), repr(agg)), kind='oracle:ifs=if')
            for nif, nifs, a_if, a_ifs in (
                    ('countif', 'countifs', (rg, cr), (rg, cr)),
                    ('sumif', 'sumifs', (rg, cr, agg), (agg, rg, cr)),
                    ('averageif', 'averageifs', (rg, cr, agg), (agg, rg, cr))):
                x, y = run_impl(F[nif], *a_if), run_impl(F[nifs], *a_ifs)
                if x != y:
                    ctx.violation(dict(call=nif, args=list(a_if)), f"{nif.upper()} differs from one-criterion "
                                  f"{nifs.upper()}", impl=x, expected=y)
        # criteria pairs commute
        if len(ranges) > 1:
            perm = list(range(len(ranges)))
            ctx.rng.shuffle(perm)
            pargs = tuple(itertools.chain.from_iterable((ranges[j], crits[j]) for j in perm))
            ctx.count(('o-comm', repr(args), repr(perm)), kind='oracle:commute')
            g2 = run_impl(h_ifs, *pargs)
            a1 = ('ok', sel) if sel is not None else got
            a2 = ('ok', sorted(tuple(p) for p in g2[1])) if g2[0] == 'ok' else g2
            if a1 != a2 and not (a1[0] == 'raise' and a2[0] == 'raise'):
                ctx.violation(dict(call='commute', args=list(args)),
                              f"criteria pairs in the order {perm} select different positions", impl=a2, expected=a1)
            s1, s2 = run_impl(F['sumifs'], agg, *args), run_impl(F['sumifs'], agg, *pargs)
            if s1 != s2 and not (s1[0] == 'raise' and s2[0] == 'raise'):
                ctx.violation(dict(call='commute', args=list(args)),
                              f"SUMIFS changes with the order {perm} of the criteria pairs", impl=s2, expected=s1)

    # ---- oracle 2: "=x" and "<>x" partition the range
    operands = [str(n) for n in (0, 1, 2, 2.5, 10, -1, 5)] + WORDS + ODDTEXT + WILD + ['~*', 'a.']
    for _ in range(ctx.n(4000, 30000)):
        h, w = ctx.rng.randrange(1, 6), ctx.rng.randrange(1, 4)
        rg = rnd_range(ctx, h, w, ctx.rng.choice(['mixed', 'mixed', 'text', 'num']))
        cells = [x for row in rg for x in row]
        x = ctx.rng.choice(operands) if ctx.rng.random() < 0.5 else \
            (lambda v: num_text(ctx, v) if is_num(v) else v)(ctx.rng.choice(
                [v for v in cells if isinstance(v, str) or is_num(v)] or ['a']))
        if x in ERRORS:
            continue
        case = dict(call='partition', args=[rg, x])
        ctx.count(('o-part', repr(rg), x), kind='oracle:partition')
        e, n = run_impl(h_ifs, rg, '=' + x), run_impl(h_ifs, rg, '<>' + x)
        if e[0] == 'raise' or n[0] == 'raise':
            ctx.violation(case, f"'={x}' / '<>{x}' raise {e[1] if e[0] == 'raise' else n[1]}", impl=[e, n])
            continue
        se, sn = set(map(tuple, e[1])), set(map(tuple, n[1]))
        if se & sn or len(se | sn) != h * w:
            both = sorted(se & sn)
            neither = sorted(set(itertools.product(range(h), range(w))) - se - sn)
            ctx.violation(case, f"'={x}' and '<>{x}' do not partition the range", impl=dict(both=both, neither=neither),
                          expected="every position in exactly one of the two")


def num_of(v):
    if isinstance(v, tuple) and v[0] == 'float' and isinstance(v[1], Fr):
        return v[1]
    if isinstance(v, int) and not isinstance(v, bool):
        return Fr(v)
    return None
