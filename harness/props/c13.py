"""C13 — array (CSE) formulas: pointwise lifting and exact target shape.

Correspondence: the extracted models (Gen/arrayfit.v = translated
_ArrayFormulaContext.fit_to_range; Model/Arrays.v = op_fixup/array_fixup over
Model/Ops.v's scalar fixup, cse_wrapper) against excelutil.in_array_formula_context,
build_operator_operand_fixup and function_helpers.cse_array_wrapper (through
apply_meta).  Oracle: the property's statement evaluated on the implementation
alone (pointwise values through the scalar operator / scalar call; target shape
by the sentence "trimmed / repeated / #N/A"), also end to end on workbooks with
array formulas entered over target ranges.  The member-cell model
(Model/CseCells.v: load_array_formulas / cell_to_formula / _evaluate_range /
eval_func / INDEX / _evaluate) is tied to ExcelCompiler on the same workbooks:
the formula's result array and the target shape -> the value of EVERY cell of the
target (stream e2e:cells), and the numbers and range written into every member
cell (stream e2e:sheet).  Lifted functions: the catalogue of what the library lifts
(excel_helper(cse_params=…) functions and the ones that wrap themselves inside an
array-formula context: IFERROR, IFNA, IFS) is read from the loaded modules; streams
lifted:* (library level, arrays at every subset of the lifted positions) and
e2e-lifted:* (real CSE formulas, range and member cells) carry the pointwise oracle."""
import itertools

from harness.common import (canon, dec_res, enc_val, ensure_impl_on_path, known_predicate,
                            run_impl, same)

GEN_MODULES = ['excelutil', 'arrayfit', 'lookup']
EXTRA_TARGETS = ['Refuted/C13_scalar_error.vo']
EXPLANATION = (
    "fit_to_range is translated from excelutil.py on every run (Gen/arrayfit.v) and proved equal to the "
    "list-level specification fit_spec for every non-empty rectangular result and every target >= 1x1; "
    "shape and element theorems follow for all sizes.  array_fixup (numpy) and cse_array_wrapper (closure) "
    "are hand-modelled in Model/Arrays.v; their pointwise theorems hold for all shapes and, for the wrapper, "
    "for an arbitrary wrapped function; the tie to the code is the differential run (all operand shape pairs "
    "and all result x target shapes up to 4x4, sampled values).  The CSE pipeline of excelwrapper / "
    "excelcompiler (member cell = INDEX(fit(result), i, j)) is modelled in Model/CseCells.v; "
    "C13_member_shows_own_element / C13_member_cells / C13_formula_op_member / C13_formula_fun_member hold "
    "for all result shapes, target shapes and member positions; the model is compared with ExcelCompiler on "
    "every cell of every target of the generated workbooks (value side) and on the texts written into the "
    "member cells (sheet side); the end-to-end oracle stays.  C13_range_shows_cells (Proofs/C13Ranges.v): any "
    "rectangle of a coherent sheet evaluates to a matrix of what its cells show (range_formula as repaired in "
    "50c2e69); tie: range_formula / sheet_range_value against ExcelCompiler on ranges around two adjacent "
    "array formulas, with the oracle 'a range shows its cells' own values' on every such range.")

OPS = ['Add', 'Sub', 'Mult', 'Div', 'Pow', 'BitAnd', 'USub', 'Eq', 'NotEq', 'Lt', 'LtE', 'Gt', 'GtE']
OP_TEXT = {'Add': '+', 'Sub': '-', 'Mult': '*', 'Div': '/', 'Pow': '^', 'BitAnd': '&', 'Eq': '=',
           'NotEq': '<>', 'Lt': '<', 'LtE': '<=', 'Gt': '>', 'GtE': '>='}
ERRORS = ['#NULL!', '#DIV/0!', '#VALUE!', '#REF!', '#NAME?', '#NUM!', '#N/A']
SHAPES = [(r, c) for r in range(1, 5) for c in range(1, 5)]

ASSUMPTIONS = [
    "operands and results are scalars or non-empty rectangular tuples of tuples of scalars (what ranges and "
    "array constants evaluate to); 1-d, 3-d, ragged or empty arrays are outside the model (Unmodelled)",
    "numpy (np.array(dtype=object), np.broadcast) is modelled by hand in Model/Arrays.v (to_nd, bshape, expand); "
    "the tie is the differential run over all shape pairs up to 4x4",
    "the array-formula context object is modelled by its ctx_address.size = (height, width) (Lib/Py.v attr_*)",
    "cse_array_wrapper takes the shape from 'next(iter(set))' of the array argument positions; the model takes "
    "the least position, which is what CPython's set iteration gives for positions below 8",
    "exact arithmetic: numeric elements are integers below 2^26 or dyadic fractions",
    "the CSE pipeline of excelwrapper/excelcompiler (CSE_INDEX expansion, member = index(range, i, j)) is "
    "hand-modelled in Model/CseCells.v on numbers, not on formula text: parsing '=CSE_INDEX(...)' / "
    "'=index(...)' and compiling the formulas are outside the model; what the array formula's compiled code "
    "returns is a parameter (Model/Arrays.v for operators and lifted functions); INDEX inside its wrappers "
    "is Model/Lookup.v X_index (C16's model); the tie is the differential run on every cell of every target",
]


# --------------------------------------------------------------- generators
NUMS = [0, 1, -1, 2, 3, 7, -5, 10, 12, 100, 0.5, -0.5, 1.5, 2.0, -3.0, 0.25, 1024, 3.75]
TEXTS = ['', 'a', 'A', 'abc', 'ABC', 'b', '12', '-3', '1.5', ' 3 ', 'TRUE', 'x y', 'z']
POW_BASE = [0, 1, -1, 2, 3, -2, 0.5, 1.5, 4, '2', True, None, 'a', '#N/A', '#DIV/0!', 10]
POW_EXP = [0, 1, 2, 3, -1, -2, 4, True, None, '2', 'a', '#REF!', 0.5]


def elem(ctx, kind='any'):
    r = ctx.rng.random()
    if kind == 'powb':
        return ctx.rng.choice(POW_BASE)
    if kind == 'powe':
        return ctx.rng.choice(POW_EXP)
    if r < 0.45:
        return ctx.rng.choice(NUMS)
    if r < 0.55:
        return ctx.rng.randrange(-2 ** 20, 2 ** 20)
    if r < 0.60:
        return ctx.rng.randrange(-2 ** 12, 2 ** 12) / 2 ** ctx.rng.randrange(1, 4)
    if r < 0.78:
        return ctx.rng.choice(TEXTS)
    if r < 0.84:
        return ctx.rng.choice([True, False])
    if r < 0.90:
        return None
    return ctx.rng.choice(ERRORS)


def mk(ctx, shape, kind='any'):
    if shape is None:
        return elem(ctx, kind)
    r, c = shape
    return tuple(tuple(elem(ctx, kind) for _ in range(c)) for _ in range(r))


# ------------------------------------------- the statement, written independently
def shape_of(v):
    return (len(v), len(v[0])) if isinstance(v, tuple) else None


def bdim(a, b):
    if a == b:
        return a
    if a == 1:
        return b
    if b == 1:
        return a
    return None


def bshape(sa, sb):
    if sa is None:
        return sb
    if sb is None:
        return sa
    r, c = bdim(sa[0], sb[0]), bdim(sa[1], sb[1])
    return None if r is None or c is None else (r, c)


def belem(a, i, j):
    """Element of an operand at (i, j) under scalar / single-row / single-column repetition."""
    if not isinstance(a, tuple):
        return a
    row = a[0] if len(a) == 1 else a[i]
    return row[0] if len(row) == 1 else row[j]


def fit_statement(res, h, w):
    """'larger results are trimmed, a scalar / single row / single column is repeated,
    uncovered positions are #N/A' — exactly h rows of w."""
    if not isinstance(res, tuple):
        res = ((res,),)
    rows, cols = len(res), len(res[0])

    def at(i, j):
        ii = 0 if rows == 1 else i
        jj = 0 if cols == 1 else j
        return res[ii][jj] if ii < rows and jj < cols else '#N/A'
    return tuple(tuple(at(i, j) for j in range(w)) for i in range(h))


def squeeze(v):
    """ExcelCompiler.evaluate 'trims excess dimensions' of a range value."""
    if isinstance(v, tuple):
        if len(v[0]) == 1:
            v = tuple(row[0] for row in v)
        if len(v) == 1:
            v = v[0]
    return v


def skip_model(m):
    return m[0] == 'raise' and m[1] in ('Unmodelled', 'OutOfFuel')


# ----------------------------------------------------------- known findings
@known_predicate('C13-scalar-error-short-circuit')
def _scalar_error_short_circuit(case):
    """One cause: excelutil fixup returns a scalar error operand BEFORE it looks for array operands
    (excelutil.py 1215-1222), so `array op #ERR` / `#ERR op array` is the scalar #ERR instead of an
    array of the operand's shape.  Symptoms: (a) where the left array's own element is an error the
    right scalar's error is shown instead (the scalar operator and Excel give the left one);
    (b) entered over a target larger than the array, the positions outside the array's shape show
    the error instead of #N/A."""
    a = case.get('args', [])
    if case.get('call') not in ('fixup', 'array-formula') or len(a) != 3:
        return False
    l, r = a[0], a[2]

    def err(v):
        return isinstance(v, str) and v in ERRORS

    def arr(v):
        return isinstance(v, (tuple, list))
    return (arr(l) and err(r)) or (err(l) and arr(r))


@known_predicate('C13-empty-marker-text-shown-as-zero')
def _empty_marker_text(case):
    """Exercised by empty_marker() below (one deterministic workbook).  eval_func returns 0 for a formula value that is
    None or equals pycel's blank marker '#EMPTY!' (excelformula.py `ret_val not in (None, EMPTY)`), so a
    member cell whose own element is the TEXT "#EMPTY!" (e.g. ="#EMPTY"&"!" entered over a range) shows 0
    while evaluate(range) shows the text.  Model: Model/CseCells.v eval_formula / shown."""
    return case.get('call') == 'array-formula' and 'member' in case and case.get('element') == '#EMPTY!'


@known_predicate('C13-single-cell-array-formula-no-context')
def _single_cell_no_context(case):
    """One cause: an array formula entered into ONE cell (reference A15:A15) is loaded as an ordinary formula
    (excelwrapper.load_array_formulas: AddressRange of a single cell is an AddressCell), so it is evaluated
    outside an array-formula context and the functions that lift themselves only inside one (IFERROR, IFNA,
    IFS: `if in_array_formula_context and …`) take an array argument for a scalar.  The functions lifted by
    the decorator are not affected (the cell shows the top-left element of their array)."""
    return (case.get('call') == 'array-formula' and case.get('lifted') == 'context'
            and case.get('target_shape') == [1, 1] and bool(case.get('arrays')))


@known_predicate('C13-context-function-reference-array')
def _context_reference_array(case):
    """IFERROR / IFNA / IFS lift themselves (`has_array_arg`) and are not wrapped by the decorator that resolves
    references: an array handed over by a function that returns a reference (OFFSET, INDIRECT) reaches them as an
    AddressRange, is not taken for an array, and the formula is not evaluated pointwise.  The functions lifted by
    the decorator resolve references first and are not affected."""
    f = case.get('formula') or ''
    return (case.get('call') == 'array-formula' and case.get('lifted') == 'context'
            and ('OFFSET(' in f or 'INDIRECT(' in f))


def run(ctx):
    ensure_impl_on_path()
    import logging
    logging.getLogger('pycel').setLevel(logging.CRITICAL)
    logging.disable(logging.CRITICAL)
    from pycel.excelutil import (AddressRange, build_operator_operand_fixup,
                                 in_array_formula_context)
    from pycel.lib.function_helpers import apply_meta, excel_helper
    import pycel.excellib as excellib
    import pycel.lib.logical as logical
    import pycel.lib.text as text

    fixup = build_operator_operand_fixup(lambda *a: None)
    ctx.extra['rule'] = (
        "exhaustive over shapes: every pair of operand shapes in {scalar} + {1..4}x{1..4} for each of the 13 "
        "operators, every result shape x every target shape h x w <= 4x4 for fit_to_range, every compatible "
        "operand pair x every target end to end in a workbook; element values sampled by the PRNG from "
        "numbers (ints, dyadic floats), text, logicals, blank and the error codes; lifted functions MOD, "
        "ROUND, LEFT, IF and a probe function through apply_meta with array/scalar argument mixes; every function "
        "the library lifts (catalogue by introspection, incl. IFERROR/IFNA/IFS inside an array-formula context) "
        "with equally shaped arrays at every subset of its lifted argument positions, differing elements and "
        "errors away from the top left, at library level and as real CSE formulas over the arguments' shape, "
        "two other targets and one cell (every fifth workbook on a sheet whose name needs quotes); end-to-end "
        "variants: an operand as an array constant at the start / end / both / middle (parentheses, function "
        "argument) of the array formula's text, and worksheets named with apostrophes, spaces, address-like or "
        "operator-character names (member cells compile =index('<name>'!range,i,j)); every cell "
        "of every end-to-end target against the member-cell model; ranges around two adjacent array formulas "
        "(same text, extended text, other text; horizontal or vertical; reference sizes up to 3x3); "
        "distinct = distinct (call, shapes, values)")

    # ================================================= 1. fit_to_range
    def impl_fit(res, h, w):
        with in_array_formula_context(AddressRange.create(f'A1:{col(w)}{h}')):
            return in_array_formula_context.fit_to_range(res)

    fit_cases = []
    for rs in [None] + SHAPES:
        for (h, w) in SHAPES:
            for _ in range(ctx.n(24, 120)):
                fit_cases.append((mk(ctx, rs), h, w))
    # bigger than 4x4 as well (the theorems are for all sizes)
    for _ in range(ctx.n(300, 3000)):
        rs = (ctx.rng.randrange(1, 9), ctx.rng.randrange(1, 9))
        fit_cases.append((mk(ctx, rs), ctx.rng.randrange(1, 12), ctx.rng.randrange(1, 12)))
    fit_cases.append((5, 1, 1))
    fit_cases.append((((1, 2), (3, 4)), 1, 1))
    models = [dec_res(x) for x in ctx.model.batch(
        [('fit_to_range', [enc_val((h, w)), enc_val(res)]) for res, h, w in fit_cases])] if ctx.model else None
    for k, (res, h, w) in enumerate(fit_cases):
        case = dict(call='fit_to_range', args=[res, h, w])
        im = run_impl(impl_fit, res, h, w)
        ctx.count(('fit', repr(res), h, w), kind=f'fit:{shape_of(res)}->{h}x{w}' if max(h, w) <= 4 and
                  (shape_of(res) is None or max(shape_of(res)) <= 4) else 'fit:large',
                  sample=dict(case, impl=im))
        if models is not None and not skip_model(models[k]) and not same(models[k], im):
            ctx.divergence(case, im, models[k], 'Gen/arrayfit.v fit_to_range = _ArrayFormulaContext.fit_to_range')
        want = ('ok', canon(fit_statement(res, h, w)))
        if im != want:
            ctx.violation(case, "fit_to_range is not the target shape with trimmed/repeated/#N/A elements",
                          impl=im, expected=want)
    # outside an array formula the result is returned unchanged
    if ctx.model:
        for res in (3, ((1, 2),), 'a'):
            m = dec_res(ctx.model.batch([('fit_to_range', [enc_val(None), enc_val(res)])])[0])
            def no_ctx(res):
                with in_array_formula_context(None):       # an ordinary (non-array) formula
                    return in_array_formula_context.fit_to_range(res)
            im = run_impl(no_ctx, res)
            ctx.count(('fit-noctx', repr(res)), kind='fit:no-context')
            if not same(m, im):
                ctx.divergence(dict(call='fit_to_range', args=[res, None]), im, m, 'fit_to_range without context')

    # ================================================= 2. operators over arrays
    op_cases = []
    for sa, sb in itertools.product([None] + SHAPES, repeat=2):
        for i, o in enumerate(OPS):
            for _ in range(ctx.n(3, 12)):
                if o == 'Pow':
                    a, b = mk(ctx, sa, 'powb'), mk(ctx, sb, 'powe')
                elif o == 'USub':
                    a, b = '#EMPTY!', mk(ctx, sb)
                    if sa is not None:
                        continue
                else:
                    a, b = mk(ctx, sa), mk(ctx, sb)
                op_cases.append((a, i, o, b))
    # targeted: scalar error operands next to arrays holding errors
    for o in ('Add', 'Eq', 'BitAnd'):
        op_cases += [((('#REF!', 1),), OPS.index(o), o, '#N/A'), ('#N/A', OPS.index(o), o, (('#REF!', 1),)),
                     (((1, 2),), OPS.index(o), o, '#N/A'), ('#DIV/0!', OPS.index(o), o, ((1,), (2,)))]
    models = [dec_res(x) for x in ctx.model.batch(
        [('op_fixup', [enc_val(a), i, enc_val(b)]) for a, i, o, b in op_cases])] if ctx.model else None
    unmodelled = 0
    for k, (a, i, o, b) in enumerate(op_cases):
        case = dict(call='fixup', args=[a, o, b])
        im = run_impl(fixup, a, o, b)
        sa, sb = shape_of(a), shape_of(b)
        ctx.count(('op', repr(a), o, repr(b)), kind=f'op:{o}', sample=dict(case, impl=im))
        if models is not None:
            if skip_model(models[k]):
                unmodelled += 1
            elif not same(models[k], im):
                ctx.divergence(case, im, models[k], 'Model/Arrays.v op_fixup = excelutil fixup on arrays')
        if sa is None and sb is None:
            continue
        sh = bshape(sa, sb)
        if sh is None:
            continue            # not broadcastable: outside the statement (the implementation raises)
        if im[0] != 'ok':
            ctx.violation(case, f"operator on broadcastable arrays raises {im[1]}", impl=im)
            continue
        want = tuple(tuple(run_impl(fixup, belem(a, r, c), o, belem(b, r, c)) for c in range(sh[1]))
                     for r in range(sh[0]))
        if any(x[0] != 'ok' for row in want for x in row):
            continue            # the scalar operator itself raises: C10's subject
        want = tuple(tuple(x[1] for x in row) for row in want)
        got = im[1]
        if not isinstance(got, tuple):
            got = canon(fit_statement(got, *sh))     # a scalar stands for itself at every position
        if got != want:
            ctx.violation(case, "array operator is not the scalar operator at every position", impl=im,
                          expected=want)
    ctx.histogram['op:unmodelled'] = unmodelled

    # ================================================= 3. lifted functions
    def lifted(module, name):
        return apply_meta(getattr(module, name), name_space={})[0]

    probes = {}
    for cse in [(0,), (1,), (0, 1), (0, 2), (0, 1, 2), -1, (2,), None]:
        @excel_helper(cse_params=cse, err_str_params=None)
        def probe(a, b, c):
            return (a, b, c)
        probes[cse] = apply_meta(probe, name_space={})[0]
    probe_cases = []
    for cse in probes:
        for sh in SHAPES:
            for mask in itertools.product([False, True], repeat=3):
                for _ in range(ctx.n(2, 8)):
                    args = tuple(mk(ctx, sh if m else None) for m in mask)
                    probe_cases.append((cse, args))
        # differently shaped array arguments: the first one decides, larger ones are read partially,
        # smaller ones raise IndexError — both sides must agree
        for _ in range(ctx.n(20, 200)):
            args = tuple(mk(ctx, ctx.rng.choice([None] + SHAPES)) for _ in range(3))
            probe_cases.append((cse, args))

    def idx_list(cse):
        return [] if cse is None else [-1] if cse == -1 else list(cse)
    models = [dec_res(x) for x in ctx.model.batch(
        [('cse_probe', [idx_list(cse), enc_val(args)]) for cse, args in probe_cases])] if ctx.model else None
    for k, (cse, args) in enumerate(probe_cases):
        case = dict(call='cse_array_wrapper(probe)', args=[repr(cse)] + list(args))
        im = run_impl(probes[cse], *args)
        ctx.count(('probe', repr(cse), repr(args)), kind='cse-probe', sample=dict(case, impl=im))
        if models is not None and not skip_model(models[k]) and not same(models[k], im):
            ctx.divergence(case, im, models[k], 'Model/Arrays.v cse_wrapper = cse_array_wrapper')
        # the statement on the probe: equally shaped arrays in cse positions and scalars
        idx = set(range(3)) if cse == -1 else set(cse or ())
        arr = [i for i in sorted(idx) if isinstance(args[i], tuple)]
        if not arr or len({shape_of(args[i]) for i in arr}) != 1:
            continue
        if any(isinstance(a, tuple) and i not in idx for i, a in enumerate(args)):
            continue
        R, C = shape_of(args[arr[0]])
        want = ('ok', canon(tuple(tuple(tuple(args[i][r][c] if i in arr else args[i] for i in range(3))
                                        for c in range(C)) for r in range(R))))
        if im != want:
            ctx.violation(case, "lifted call is not the scalar call on the elements at every position",
                          impl=im, expected=want)

    FUNCS = {
        'mod': (lifted(excellib, 'mod'), 2),
        'round_': (lifted(excellib, 'round_'), 2),
        'left': (lifted(text, 'left'), 2),
        'if_': (lifted(logical, 'if_'), 3),
    }

    def fun_arg(name, pos, shape):
        def one():
            r = ctx.rng.random()
            if name == 'mod':
                if r < 0.75:
                    return ctx.rng.choice([0, 1, 2, 3, 7, -5, 10, 0.5, 1.5, -2.5, 12, 100])
            elif name == 'round_':
                if r < 0.75:
                    return ctx.rng.choice([0, 1, 2, -1, 2.5, 3.75, -0.125, 12.5, 1234]) if pos == 0 else \
                        ctx.rng.choice([0, 1, 2, -1, -2])
            elif name == 'left':
                if r < 0.75:
                    return ctx.rng.choice(['abc', 'hello', '', 'x y', 12, 1.5, True]) if pos == 0 else \
                        ctx.rng.choice([0, 1, 2, 3, 10])
            elif name == 'if_':
                if pos == 0 and r < 0.75:
                    return ctx.rng.choice([True, False, 0, 1, 2, 'true', 'FALSE', None])
            return elem(ctx)
        if shape is None:
            return one()
        return tuple(tuple(one() for _ in range(shape[1])) for _ in range(shape[0]))

    for name, (f, nargs) in FUNCS.items():
        for sh in SHAPES:
            for mask in itertools.product([False, True], repeat=nargs):
                if not any(mask):
                    continue
                for _ in range(ctx.n(6, 30)):
                    args = tuple(fun_arg(name, p, sh if m else None) for p, m in enumerate(mask))
                    case = dict(call=name, args=list(args))
                    im = run_impl(f, *args)
                    ctx.count(('fun', name, repr(args)), kind=f'fun:{name}', sample=dict(case, impl=im))
                    want = tuple(tuple(run_impl(f, *(a[r][c] if isinstance(a, tuple) else a for a in args))
                                       for c in range(sh[1])) for r in range(sh[0]))
                    if any(x[0] != 'ok' for row in want for x in row):
                        continue        # the scalar function raises on this element: not C13's subject
                    want = ('ok', tuple(tuple(x[1] for x in row) for row in want))
                    if im != want:
                        ctx.violation(case, "lifted function is not the scalar function at every position",
                                      impl=im, expected=want)

    # ================================================= 3b. every function the library lifts, every argument mix
    lifted_all(ctx)

    # ================================================= 4. end to end: array formulas in a workbook
    end_to_end(ctx, fixup, FUNCS)

    # ================================================= 4b. … with every lifted function, arrays in every position
    lifted_e2e(ctx, fixup)

    # ================================================= 5. which range is an array formula's range
    range_formulas(ctx, fixup)

    # ================================================= 6. the text "#EMPTY!" as an element
    empty_marker(ctx)


# ------------------------------------------------- every function the library lifts over arrays
TABLE = ((1, 'a', 10), (2, 'b', 20), (3, 'c', 30))
LIFT_NUMS = [0, 1, 2, 3, -1, -2, 0.5, 1.5, 2.5, 7, 10, 12, 100, -5]
LIFT_TEXTS = ['abc', 'hello', 'a', 'b', 'x y', 'ABC', 'l', 12, 1.5, True]
# values that make a call of the named function non-trivial at one argument position (drawn 4 times of 5;
# otherwise any element): tables for the positions that take a table, small indices, formats, dates
LIFT_HINTS = {
    ('hlookup', 1): [TABLE], ('vlookup', 1): [TABLE], ('lookup', 1): [((1, 2, 3),), ((1,), (2,), (3,))],
    ('match', 1): [((1, 2, 3),), (('a',), ('b',), ('c',))],
    ('hlookup', 0): [1, 2, 3, 'a', 'b', 0, 4], ('vlookup', 0): [1, 2, 3, 0, 4, 2.5], ('lookup', 0): [1, 2, 3, 0, 2.5, 4],
    ('match', 0): [1, 2, 3, 'a', 'b', 'c', 0, 4],
    ('hlookup', 2): [1, 2, 3, 4], ('vlookup', 2): [1, 2, 3, 4], ('match', 2): [0, 1, -1],
    ('hlookup', 3): [True, False], ('vlookup', 3): [True, False],
    ('choose', 0): [1, 2, 3, 0, 1.5, '2', True],
    ('text', 1): ['0', '0.00', '#,##0', '@', '0%'],
    ('substitute', 3): [1, 2],
    ('yearfrac', 0): [40000, 40179, 41000, 42500.5], ('yearfrac', 1): [40100, 40544, 41366, 43000],
    ('yearfrac', 2): [0, 1, 2, 3, 4],
    ('fact', 0): [0, 1, 2, 5, 10, -1, 3.5], ('factdouble', 0): [0, 1, 2, 5, 10, -1],
    ('log', 1): [2, 10, 0.5, 4], ('ln', 0): [1, 2, 0.5, 0, -1, 1024],
    ('pv', 0): [0, 0.5, 0.25], ('pv', 1): [1, 2, 4],
    ('round_', 1): [0, 1, 2, -1, -2], ('roundup', 1): [0, 1, 2, -1, -2], ('rounddown', 1): [0, 1, 2, -1, -2],
    ('trunc', 1): [0, 1, 2, -1, -2],
    ('if_', 0): [True, False, 0, 1, 2, 'true', 'FALSE', None],
    ('iferror', 0): ERRORS + ['#N/A', 1, 2.5, 'a', None], ('ifna', 0): ['#N/A', '#N/A', '#DIV/0!', 1, 'a', None],
}
LIFT_TABLE_POSITIONS = {('hlookup', 1), ('vlookup', 1), ('lookup', 1), ('match', 1)}


def lifted_catalog():
    """Every function of pycel.excellib / pycel.lib.* that the library lifts over array arguments, found by
    introspection: the ones decorated with excel_helper(cse_params=…) ('decorated': cse_array_wrapper is put
    around them by apply_meta) and the ones that call cse_array_wrapper themselves when they are evaluated
    inside an array formula ('context': IFERROR, IFNA, IFS).  [(python name, function, meta or None, how)],
    aliases (x_abs = abs_) once."""
    import importlib
    import inspect
    import pkgutil
    import pycel.lib
    from pycel.lib.function_helpers import FUNC_META
    mods = ['pycel.excellib'] + ['pycel.lib.' + m.name for m in pkgutil.iter_modules(pycel.lib.__path__)]
    seen, out = set(), []
    for mn in mods:
        m = importlib.import_module(mn)
        for n, f in sorted(vars(m).items()):
            if not inspect.isfunction(f) or f.__module__ != mn or id(f) in seen:
                continue
            meta = getattr(f, FUNC_META, None)
            if meta and meta.get('cse_params') is not None:
                seen.add(id(f))
                out.append((n, f, dict(meta), 'decorated'))
            elif mn != 'pycel.lib.function_helpers' and 'cse_array_wrapper' in f.__code__.co_names:
                seen.add(id(f))
                out.append((n, f, None, 'context'))
    return out


def idx_set(spec, n):
    if spec is None:
        return set()
    if spec == -1:
        return set(range(n))
    if isinstance(spec, int):
        return {spec}
    return set(spec)


def lift_arities(f):
    """argument counts to call f with: required .. all positional parameters; a few for *args"""
    import inspect
    ps = list(inspect.signature(f).parameters.values())
    if any(p.kind == p.VAR_POSITIONAL for p in ps):
        if f.__name__ == 'ifs':
            return [2, 4, 6]
        fixed = len([p for p in ps if p.kind != p.VAR_POSITIONAL])
        return [fixed + 2, fixed + 3, fixed + 4]
    req = len([p for p in ps if p.default is p.empty])
    return list(range(max(req, 1), len(ps) + 1))


def lift_positions(ctx, name, f, meta, n):
    """the argument positions the library lifts in a call with n arguments, and the sets of them that get an
    array: every non-empty subset (up to 3 positions), else every single position, all of them and 4 sampled"""
    cse = sorted(idx_set(meta['cse_params'], n) & set(range(n))) if meta else list(range(n))
    subsets = [s for k in range(1, len(cse) + 1) for s in itertools.combinations(cse, k)]
    if len(subsets) > 7:
        mid = [s for s in subsets if 1 < len(s) < len(cse)]
        subsets = [s for s in subsets if len(s) in (1, len(cse))] + ctx.rng.sample(mid, min(4, len(mid)))
    return subsets


def lift_value(ctx, name, meta, pos, n, in_cell=False):
    """one scalar for argument `pos` of a call of `name` with n arguments"""
    r = ctx.rng.random()
    h = LIFT_HINTS.get((name, pos))
    if name == 'ifs' and pos % 2 == 0:
        h = LIFT_HINTS[('if_', 0)]
    if h is not None and r < 0.8:
        v = ctx.rng.choice(h)
    elif name.startswith('bit') and r < 0.8:
        v = ctx.rng.choice([0, 1, 2, 3, 5, 12, 255, 1024])
    elif meta and pos in idx_set(meta.get('number_params'), n) and r < 0.8:
        v = ctx.rng.choice(LIFT_NUMS)
    elif meta and pos in idx_set(meta.get('str_params'), n) and r < 0.8:
        v = ctx.rng.choice(LIFT_TEXTS)
    else:
        v = cell_value(ctx) if in_cell else elem(ctx)
    if in_cell and isinstance(v, str) and (v == '' or v.strip() != v):
        v = 'abc'           # a worksheet cell does not hold the empty text
    return v


def lift_array(ctx, name, meta, pos, n, shape, in_cell=False):
    """an array for argument `pos`: elements drawn one by one (not all alike), and — every second time — an
    error code somewhere else than at the top left"""
    R, C = shape
    for _ in range(8):
        a = [[lift_value(ctx, name, meta, pos, n, in_cell) for _ in range(C)] for _ in range(R)]
        if R * C == 1 or len({repr(x) for row in a for x in row}) > 1:
            break
    if R * C > 1 and ctx.rng.random() < 0.5:
        k = ctx.rng.randrange(1, R * C)
        a[k // C][k % C] = ctx.rng.choice(ERRORS)
    return tuple(tuple(row) for row in a)


def lifted_all(ctx):
    """Library level: every lifted function (lifted_catalog), every argument count, arrays of one shape at
    every subset of the lifted positions and scalars elsewhere, called as a formula's compiled code calls it
    (through apply_meta) inside an array-formula context.  Oracle: the same function on the elements at each
    position."""
    from pycel.excelutil import AddressRange, in_array_formula_context
    from pycel.lib.function_helpers import apply_meta
    target = AddressRange('A1:D4')
    seen_kinds = set()
    for name, f0, meta, how in lifted_catalog():
        if meta and meta.get('ref_params') is not None:
            continue            # CELL, OFFSET: a reference argument needs a workbook
        g = apply_meta(f0, name_space={})[0]

        def call(*a, g=g):
            with in_array_formula_context(target):
                return g(*a)
        for n in lift_arities(f0):
            for sub in lift_positions(ctx, name, f0, meta, n):
                for _ in range(ctx.n(6, 30)):
                    sh = ctx.rng.choice(SHAPES)
                    args = tuple(lift_array(ctx, name, meta, p, n, sh) if p in sub else
                                 lift_value(ctx, name, meta, p, n) for p in range(n))
                    case = dict(call='lifted:' + name, args=list(args), arrays=list(sub))
                    im = run_impl(call, *args)
                    ctx.count(('lifted', name, repr(args)), kind=f'lifted:{how}', sample=dict(case, impl=im))
                    seen_kinds.add(how)
                    want = tuple(tuple(run_impl(call, *(a[r][c] if p in sub else a for p, a in enumerate(args)))
                                       for c in range(sh[1])) for r in range(sh[0]))
                    if any(x[0] != 'ok' for row in want for x in row):
                        continue        # the scalar function raises on this element: not C13's subject
                    want = ('ok', tuple(tuple(x[1] for x in row) for row in want))
                    if im != want:
                        ctx.violation(case, "lifted function is not the scalar function at every position "
                                            "(arrays at argument positions %s)" % (list(sub),),
                                      impl=im, expected=want)
    if seen_kinds != {'decorated', 'context'}:
        ctx.broke("tie: the catalogue of lifted functions has no %s function any more" %
                  sorted({'decorated', 'context'} - seen_kinds))


def excel_name(pyname):
    """the worksheet spelling of a library function (FunctionNode.emit read backwards)"""
    from pycel.excelformula import FunctionNode
    back = {v: k for k, v in FunctionNode.func_map.items()}
    return back.get(pyname, pyname).replace('_', '.').upper()


def lifted_e2e(ctx, fixup):
    """Real CSE formulas: =FUNC(arg, …) entered over target ranges, for every lifted function of the
    catalogue; each argument at a lifted position is a range of one shape (cells holding numbers, text,
    logicals, blanks, error values; elements differ; errors away from the top left) or a scalar literal, the
    first argument every fourth time a quotient of two such ranges (errors computed inside the formula); the
    other positions hold scalars (tables where the function wants one).  Every argument mix for the
    context-sensitive functions and IF, sampled mixes for the rest.  Oracle: the function on the elements at
    each position, fitted to the target; the range and every member cell."""
    from openpyxl import Workbook
    from openpyxl.worksheet.formula import ArrayFormula
    from pycel import ExcelCompiler
    from pycel.excelutil import AddressRange, in_array_formula_context
    from pycel.lib.function_helpers import apply_meta

    def literal(v):
        if isinstance(v, bool):
            return 'TRUE' if v else 'FALSE'
        if isinstance(v, str):
            return v if v in ERRORS else '"' + v + '"'
        return repr(v)
    ctx_target = AddressRange('A1:D4')
    shapes = [s for s in SHAPES if s != (1, 1)]
    nplan = 0
    for name, f0, meta, how in lifted_catalog():
        if (meta and meta.get('ref_params') is not None) or name == 'indirect':
            continue            # reference arguments / results: C16's subject
        g = apply_meta(f0, name_space={})[0]

        def call(*a, g=g):
            with in_array_formula_context(ctx_target):
                return g(*a)
        xl = excel_name(name)
        every = how == 'context' or name == 'if_'
        plans = []
        for n in lift_arities(f0):
            if n > 6:
                continue
            subsets = lift_positions(ctx, name, f0, meta, n)
            if every:
                plans += [(n, sub) for sub in subsets for _ in range(ctx.n(3, 10))]
            else:
                plans += [(n, ctx.rng.choice(subsets)) for _ in range(ctx.n(2, 8))]
        for n, sub in plans:
            sh = ctx.rng.choice(shapes)
            wb = Workbook()
            ws = wb.active
            # one workbook in five: the worksheet under a name that needs quotes (apostrophes, spaces, operators)
            nplan += 1
            title = ctx.rng.choice(SHEET_TITLES[ctx.rng.choice([0, 1, 1, 2, 3])]) if nplan % 5 == 0 else 'Sheet'
            ws.title = title
            qt = qsheet(title)

            def put(vals, c0):
                for i, row in enumerate(vals):
                    for j, v in enumerate(row):
                        if v is not None:
                            ws.cell(row=1 + i, column=c0 + j, value=v)
                return f'{col(c0)}1:{col(c0 + len(vals[0]) - 1)}{len(vals)}'
            args, texts = [], []
            for p in range(n):
                c0 = 1 + 5 * p
                if p in sub:
                    a = lift_array(ctx, name, meta, p, n, sh, in_cell=True)
                    t = put(a, c0)
                    if p == 0 and ctx.rng.random() < 0.25:
                        d = tuple(tuple(ctx.rng.choice([1, 2, 0, 4, 0.5, None, 'a']) for _ in range(sh[1]))
                                  for _ in range(sh[0]))
                        t = f'{t}/{put(d, 41)}'
                        q = run_impl(fixup, a, 'Div', d)
                        if q[0] != 'ok' or not isinstance(q[1], tuple):
                            break
                        a = fixup(a, 'Div', d)
                    elif ctx.rng.random() < 0.2:
                        # the same array handed over by a function that returns a reference
                        t = ctx.rng.choice([f'OFFSET({t},0,0)', f'INDIRECT("{t}")'])
                elif (name, p) in LIFT_TABLE_POSITIONS:
                    a = ctx.rng.choice(LIFT_HINTS[(name, p)])
                    t = put(a, c0)
                else:
                    a = lift_value(ctx, name, meta, p, n, in_cell=True)
                    while a is None:
                        a = lift_value(ctx, name, meta, p, n, in_cell=True)
                    t = literal(a)
                args.append(a)
                texts.append(t)
            else:
                formula = f'={xl}({",".join(texts)})'
                point = [[run_impl(call, *(a[r][c] if p in sub else a for p, a in enumerate(args)))
                          for c in range(sh[1])] for r in range(sh[0])]
                if any(x[0] != 'ok' or isinstance(x[1], (tuple, list)) and x[1][:1] != ('float',)
                       for row in point for x in row):
                    continue            # the scalar call raises or gives an array: not C13's subject
                point = tuple(tuple(call(*(a[r][c] if p in sub else a for p, a in enumerate(args)))
                                    for c in range(sh[1])) for r in range(sh[0]))
                # the arguments' own shape, two others; one cell as well for the functions whose lifting depends
                # on the array-formula context
                tshapes = [sh] + ([(1, 1)] if how == 'context' else []) + ctx.rng.sample(SHAPES, 2)
                targets = []
                for k, (h, w) in enumerate(tshapes):
                    r0, c0 = 10 + 5 * k, 1
                    ref = f'{col(c0)}{r0}:{col(c0 + w - 1)}{r0 + h - 1}'
                    ws.cell(row=r0, column=c0, value=ArrayFormula(ref, formula))
                    targets.append((h, w, r0, c0, ref))
                cargs = [xl, list(args)]
                try:
                    comp = ExcelCompiler(excel=wb)
                except Exception as exc:      # noqa: BLE001
                    ctx.violation(dict(call='array-formula', args=cargs, formula=formula),
                                  f"workbook with array formulas does not compile: {type(exc).__name__}")
                    continue
                for h, w, r0, c0, ref in targets:
                    case = dict(call='array-formula', args=cargs, arrays=list(sub), lifted=how, formula=formula,
                                target=ref, target_shape=[h, w])
                    if title != 'Sheet':
                        case['sheet'] = title
                    want = fit_statement(point, h, w)
                    got = run_impl(comp.evaluate, f'{qt}!{ref}')
                    ctx.count(('e2e-lifted', formula, repr(args), ref), kind=f'e2e-lifted:{how}'
                              + (':quoted-sheet' if title != 'Sheet' else ''), sample=dict(case, impl=got))
                    if got != ('ok', canon(squeeze(want))):
                        ctx.violation(case, "array formula over the target range is not the fitted pointwise result",
                                      impl=got, expected=squeeze(want))
                        continue
                    for i, j in itertools.product(range(h), range(w)):
                        member = f'{qt}!{col(c0 + j)}{r0 + i}'
                        gm = run_impl(comp.evaluate, member)
                        ctx.count(('e2e-lifted-member', formula, repr(args), ref, i, j), kind='e2e-lifted:member')
                        wm = canon(want[i][j])
                        if gm != ('ok', wm) and not (wm is None and gm == ('ok', 0)):
                            ctx.violation(dict(case, member=member, element=wm),
                                          "member cell does not show its own element", impl=gm, expected=wm)


def cell_value(ctx):
    """Values a worksheet cell can hold (text that openpyxl would read as a formula is avoided)."""
    r = ctx.rng.random()
    if r < 0.5:
        return ctx.rng.choice([0, 1, -1, 2, 3, 7, -5, 10, 12, 100, 0.5, -0.5, 1.5, 0.25, 3.75])
    if r < 0.7:
        return ctx.rng.choice(['a', 'A', 'abc', 'b', '12', 'x y', 'z'])
    if r < 0.8:
        return ctx.rng.choice([True, False])
    if r < 0.88:
        return None
    return ctx.rng.choice(ERRORS)


def col(n):
    from openpyxl.utils import get_column_letter
    return get_column_letter(n)


# sheet names that need quotes in an address (cf. harness/props/c05.py _stream_cse_sheets): with spaces, with
# apostrophes (doubled inside the quotes), reading as a cell address / number / boolean, with operator characters.
# (a '$' in a sheet name is C05's known finding C05-cse-sheet-name-dollar: not repeated here)
SHEET_TITLES = [
    ['My Data', 'Sheet 1', '2024 Q1', '数据 表', ' lead', 'trail ', 'a  b', 'TRUE FALSE'],
    ["Q1 '24", "Demande d'autorisation", "it's", "it's here", "a ' b", "a''b", "x'", "l'été 2024"],
    ['A1', '2024', 'R1C1', 'TRUE', 'XFD1048576', 'a.b', 'Übersicht'],
    ['x-y', 'a,b', 'Tab(1)', '#REF', 'a&b', 'p=q', 'c{1}', '50%'],
]


def qsheet(title):
    """the sheet name as written in an address handed to evaluate"""
    import re
    if re.fullmatch(r'[A-Za-z_][A-Za-z0-9_]*', title) and title not in ('A1', 'R1C1', 'TRUE', 'FALSE', 'XFD1048576'):
        return title
    return "'" + title.replace("'", "''") + "'"


def end_to_end(ctx, fixup, FUNCS):
    from openpyxl import Workbook
    from openpyxl.worksheet.formula import ArrayFormula
    from pycel import ExcelCompiler

    def literal(v):
        if isinstance(v, bool):
            return 'TRUE' if v else 'FALSE'
        if isinstance(v, str):
            return v if v in ERRORS else '"' + v + '"'
        return repr(v)

    plans = []
    shapes = [None] + SHAPES
    for sa, sb in itertools.product(shapes, repeat=2):
        if sa is None and sb is None:
            continue
        if bshape(sa, sb) is None:
            continue
        plans.append(('op', sa, sb))
    for name in ('mod', 'left', 'round_', 'if_'):
        for sh in ctx.rng.sample(SHAPES, ctx.n(4, 16)):
            plans.append((name, sh, ctx.rng.choice([None, sh])))
    # ---- variants (one workbook each, the operands' own shape and five other targets): an operand written as an
    #      ARRAY CONSTANT {..;..} — first operand (the formula text begins with the constant's brace), second (it ends
    #      with it), both, and with the whole expression in parentheses / inside a function call (constant in the
    #      middle of the text); the worksheet under a name that needs quotes (member cells are =index('<name>'!ref,i,j))
    arrays = [s for s in SHAPES if s != (1, 1)]
    for k in range(ctx.n(40, 200)):
        where = ('a', 'b', 'ab', 'b', 'a')[k % 5]
        sc = ctx.rng.choice(arrays)
        other = ctx.rng.choice([s for s in shapes if bshape(sc, s) is not None and (where != 'ab' or s in arrays)])
        sa, sb = (sc, other) if where != 'b' else (other, sc)
        plans.append(('op', sa, sb, dict(const=where, paren=k % 4 == 3)))
    for name in ('mod', 'left', 'round_', 'if_'):
        for _ in range(ctx.n(2, 8)):
            sh = ctx.rng.choice(arrays)
            plans.append((name, sh, ctx.rng.choice([None, sh, sh]), dict(const=ctx.rng.choice(['a', 'b', 'ab']))))
    for k in range(ctx.n(36, 180)):
        title = ctx.rng.choice(SHEET_TITLES[k % 4 if k % 8 < 4 else 1])
        sa = ctx.rng.choice(arrays)
        if k % 5 == 4:
            plans.append((ctx.rng.choice(['mod', 'left', 'round_', 'if_']), sa, ctx.rng.choice([None, sa]),
                          dict(title=title, const=ctx.rng.choice(['', '', 'b']))))
            continue
        sb = ctx.rng.choice([s for s in shapes if bshape(sa, s) is not None])
        if ctx.rng.random() < 0.3:
            sa, sb = sb, sa
        plans.append(('op', sa, sb, dict(title=title, const=ctx.rng.choice(['', '', '', 'a', 'b']),
                                         paren=ctx.rng.random() < 0.15)))
    model_calls, checks = [], []
    cell_calls, sheet_calls = [], []
    for plan in plans:
        kind, sa, sb = plan[:3]
        var = plan[3] if len(plan) > 3 else {}
        title = var.get('title', 'Sheet')
        q = qsheet(title)
        for rep in range(ctx.n(2, 6) if not var else 1):
            wb = Workbook()
            ws = wb.active
            ws.title = title

            def place(shape, c0, numeric=False, const=False):
                """Write an operand at rows 1..4 from column c0; returns (value, formula text).  const: an array
                operand is not written into cells but into the formula text as an array constant (no blanks)."""
                if shape is None:
                    v = cell_value(ctx)
                    while v is None or (numeric and not isinstance(v, (int, float))):
                        v = cell_value(ctx)
                    return v, literal(v)
                if const and shape != (1, 1):
                    vals = []
                    for _ in range(shape[0]):
                        row = []
                        while len(row) < shape[1]:
                            v = cell_value(ctx)
                            if v is not None:
                                row.append(v)
                        vals.append(tuple(row))
                    return tuple(vals), '{' + ';'.join(','.join(literal(v) for v in row) for row in vals) + '}'
                vals = tuple(tuple(cell_value(ctx) for _ in range(shape[1])) for _ in range(shape[0]))
                for i, row in enumerate(vals):
                    for j, v in enumerate(row):
                        if v is not None:
                            ws.cell(row=1 + i, column=c0 + j, value=v)
                if shape == (1, 1):
                    return vals[0][0], f'{col(c0)}1'        # a one-cell reference is a scalar operand
                return vals, f'{col(c0)}1:{col(c0 + shape[1] - 1)}{shape[0]}'
            a, ta = place(sa, 1, const='a' in var.get('const', ''))
            b, tb = place(sb, 6, const='b' in var.get('const', ''))
            if kind == 'op':
                o = ctx.rng.choice([x for x in OPS if x not in ('USub', 'Pow')])
                formula = f'=({ta}{OP_TEXT[o]}{tb})' if var.get('paren') else f'={ta}{OP_TEXT[o]}{tb}'
                args = [a, o, b]

                def scalar(r, c):
                    return run_impl(fixup, belem(a, r, c), o, belem(b, r, c))

                def whole():                  # what the formula's compiled code returns
                    return fixup(a, o, b)
            else:
                f = FUNCS[kind][0]
                xl = {'mod': 'MOD', 'left': 'LEFT', 'round_': 'ROUND', 'if_': 'IF'}[kind]
                extra = ',"n"' if kind == 'if_' else ''
                formula = f'={xl}({ta},{tb}{extra})'
                args = [a, kind, b]

                def scalar(r, c):
                    xs = [belem(a, r, c), belem(b, r, c)] + (['n'] if kind == 'if_' else [])
                    return run_impl(f, *xs)

                def whole():
                    return f(a, b, *(['n'] if kind == 'if_' else []))
            sh = bshape(shape_of(a), shape_of(b)) or (1, 1)
            point = [[scalar(r, c) for c in range(sh[1])] for r in range(sh[0])]
            if any(x[0] != 'ok' for row in point for x in row):
                continue
            try:
                raw_whole, whole_ok = whole(), True
                enc_val(raw_whole)
            except Exception:      # noqa: BLE001
                raw_whole, whole_ok = None, False
            point = tuple(tuple(x[1] for x in row) for row in point)
            targets = {}
            for (h, w) in (SHAPES if not var else sorted(set(ctx.rng.sample(SHAPES, 5) + [sh]))):
                r0, c0 = 10 + 5 * (h - 1), 1 + 5 * (w - 1)
                ref = f'{col(c0)}{r0}:{col(c0 + w - 1)}{r0 + h - 1}'
                ws.cell(row=r0, column=c0, value=ArrayFormula(ref, formula))
                targets[(h, w)] = (r0, c0, ref)
            try:
                comp = ExcelCompiler(excel=wb)
            except Exception as exc:      # noqa: BLE001
                ctx.violation(dict(call='array-formula', args=args, formula=formula, sheet=title),
                              f"workbook with array formulas does not compile: {type(exc).__name__}")
                continue
            sheet_sample = set(ctx.rng.sample(sorted(targets), min(len(targets), ctx.n(2, 6))))
            if var:
                ctx.histogram['e2e-variant:' + ('array-constant' if '{' in formula else 'ranges')
                              + (':quoted-sheet' if 'title' in var else '')] = ctx.histogram.get(
                    'e2e-variant:' + ('array-constant' if '{' in formula else 'ranges')
                    + (':quoted-sheet' if 'title' in var else ''), 0) + 1
            for (h, w), (r0, c0, ref) in targets.items():
                case = dict(call='array-formula', args=args, formula=formula, target=ref)
                if 'title' in var:
                    case['sheet'] = title
                want = fit_statement(point, h, w)
                got = run_impl(comp.evaluate, f'{q}!{ref}')
                # ---- the member-cell model, value side: every cell of the target
                cells = [[run_impl(comp.evaluate, f'{q}!{col(c0 + j)}{r0 + i}') for j in range(w)]
                         for i in range(h)]
                if whole_ok:
                    bad = [x for row in cells for x in row if x[0] != 'ok']
                    im_cells = bad[0] if bad else ('ok', tuple(tuple(x[1] for x in row) for row in cells))
                    cell_calls.append((dict(call='target-cells', args=args, formula=formula, target=ref,
                                            result=canon(raw_whole)), raw_whole, h, w, im_cells))
                # ---- … sheet side: the numbers / range written into the member cells
                if (h, w) in sheet_sample and (h, w) != (1, 1):
                    sheet_calls.append((dict(call='load-members', args=[r0, c0, h, w], target=ref, sheet=title),
                                        (r0, c0, h, w), run_impl(sheet_side, comp, r0, c0, h, w, title)))
                ctx.count(('e2e', formula, repr(a), repr(b), ref), kind=f'e2e:{kind}',
                          sample=dict(case, impl=got))
                if got != ('ok', canon(squeeze(want))):
                    ctx.violation(case, "array formula over the target range is not the fitted pointwise result",
                                  impl=got, expected=squeeze(want))
                    continue
                if kind == 'op':
                    model_calls.append((args, h, w))
                    checks.append((case, got))
                # each member cell shows its own element (every member of the target)
                for i, j in itertools.product(range(h), range(w)):
                    member = f'{q}!{col(c0 + j)}{r0 + i}'
                    gm = cells[i][j]
                    ctx.count(('e2e-member', formula, repr(a), repr(b), ref, i, j), kind='e2e:member')
                    wm = canon(want[i][j])
                    # a blank element (IF picking an empty cell) is shown as blank or as 0
                    if gm != ('ok', wm) and not (wm is None and gm == ('ok', 0)):
                        ctx.violation(dict(case, member=member, element=wm), "member cell does not show its own element",
                                      impl=gm, expected=wm)
    # the member-cell model against the compiler: same (result array, target shape) -> every cell
    if ctx.model and cell_calls:
        ms = [dec_res(x) for x in ctx.model.batch(
            [('target_cells', [h, w, enc_val(res)]) for _, res, h, w, _ in cell_calls])]
        for (case, res, h, w, im), m in zip(cell_calls, ms):
            ctx.count(('e2e-cells', case['formula'], repr(case['args']), case['target']),
                      kind='e2e:cells' if (h, w) != (1, 1) else 'e2e:cells-1x1', sample=dict(case, impl=im))
            if not skip_model(m) and not same(m, im):
                ctx.divergence(case, im, m, 'Model/CseCells.v target_cells (h, w) result = the cells of the '
                                            'array formula\'s range as ExcelCompiler evaluates them')
    if ctx.model and sheet_calls:
        ms = [dec_res(x) for x in ctx.model.batch(
            [('load_members', list(key)) for _, key, _ in sheet_calls])]
        for (case, key, im), m in zip(sheet_calls, ms):
            ctx.count(('e2e-sheet',) + key, kind='e2e:sheet', sample=dict(case, impl=im))
            if not skip_model(m) and not same(m, im):
                ctx.divergence(case, im, m, 'Model/CseCells.v load_members / member_range = the CSE_INDEX '
                                            'texts and =index(range, i, j) formulas of the member cells')
    # the same end-to-end values from the models: fit_to_range (h, w) (op_fixup a o b)
    if ctx.model and model_calls:
        first = [dec_res(x) for x in ctx.model.batch(
            [('op_fixup', [enc_val(a), OPS.index(o), enc_val(b)]) for (a, o, b), h, w in model_calls])]
        idx = [k for k, m in enumerate(first) if m[0] == 'ok']
        second = [dec_res(x) for x in ctx.model.batch(
            [('fit_to_range', [enc_val((model_calls[k][1], model_calls[k][2])), enc_m(first[k][1])])
             for k in idx])]
        for k, m in zip(idx, second):
            case, got = checks[k]
            ctx.count(('e2e-model', repr(case)), kind='e2e:model')
            if m[0] == 'ok':
                m = ('ok', sq_model(m[1]))
            if not skip_model(m) and not same(m, got):
                ctx.divergence(case, got, m, 'fit_to_range(op_fixup a o b) in the models = evaluate(target range)')


def sheet_cells(ws, r0, c0, h, w):
    """The cells of a range as Model/CseCells.v sheet_cell: [] or [text, i, j, h, w] (wire form)."""
    rows = []
    for row in range(r0, r0 + h):
        cells = []
        for cl in range(c0, c0 + w):
            text = ws.cell(row=row, column=cl).value
            if isinstance(text, str) and text.startswith('=CSE_INDEX(') and text.endswith(')'):
                f, i, j, hh, ww = text[len('=CSE_INDEX('):-1].rsplit(',', 4)
                cells.append([enc_val(f), int(i), int(j), int(hh), int(ww)])
            else:
                cells.append([])
        rows.append(cells)
    return rows


def impl_range_formula(comp, ref):
    # _OpxRange.__new__ itself: the in-memory wrapper's post-processing (ExcelOpxWrapperNoData.OpxRange)
    # raises TypeError on a range without a formula of its own — see SUBRANGE_ID
    from pycel.excelwrapper import ExcelOpxWrapper
    f = ExcelOpxWrapper.get_range(comp.excel, f'Sheet!{ref}').formula
    if isinstance(f, str):
        assert f.startswith('={') and f.endswith('}'), f
        return (True, f[2:-1])
    return (False,)


def empty_marker(ctx):
    """One deterministic workbook: A1 = "#EMPTY", B1 = "x", =A1:B1&"!" entered over F10:G10.  The element
    of F10 is the TEXT "#EMPTY!" (pycel's blank marker): the range shows it, the member cell shows 0
    (known finding C13-empty-marker-text-shown-as-zero); the model agrees with the implementation."""
    from openpyxl import Workbook
    from openpyxl.worksheet.formula import ArrayFormula
    from pycel import ExcelCompiler
    wb = Workbook()
    ws = wb.active
    ws['A1'], ws['B1'] = '#EMPTY', 'x'
    formula = '=A1:B1&"!"'
    ws['F10'] = ArrayFormula('F10:G10', formula)
    comp = ExcelCompiler(excel=wb)
    want = ('#EMPTY!', 'x!')
    case = dict(call='array-formula', args=[(('#EMPTY', 'x'),), 'BitAnd', '!'], formula=formula, target='F10:G10')
    got = run_impl(comp.evaluate, 'Sheet!F10:G10')
    ctx.count(('empty-marker', 'range'), kind='e2e:empty-marker')
    if got != ('ok', want):
        ctx.violation(case, "array formula over the target range is not the fitted pointwise result",
                      impl=got, expected=want)
    cells = [run_impl(comp.evaluate, f'Sheet!{c}10') for c in 'FG']
    for j, gm in enumerate(cells):
        ctx.count(('empty-marker', j), kind='e2e:empty-marker')
        if gm != ('ok', want[j]):
            ctx.violation(dict(case, member=f'Sheet!{"FG"[j]}10', element=want[j]),
                          "member cell does not show its own element", impl=gm, expected=want[j])
    if ctx.model:
        m = dec_res(ctx.model.batch([('target_cells', [1, 2, enc_val((want,))])])[0])
        im = ('ok', (tuple(x[1] for x in cells),)) if all(x[0] == 'ok' for x in cells) else cells[0]
        if not skip_model(m) and not same(m, im):
            ctx.divergence(dict(case, call='target-cells'), im, m,
                           'Model/CseCells.v target_cells on the text "#EMPTY!"')


def range_formulas(ctx, fixup):
    """Two array formulas entered over adjacent reference ranges (same text, a text that extends the first,
    another text), and the ranges of the sheet around them.  Correspondence: which of them
    _OpxRange.__new__ takes for an array formula's own range (model: range_formula), and what ANY of them
    evaluates to (model: sheet_range_value over sheet_of).  Oracle (always on; the two defects it found are
    repaired in 50c2e69): evaluating a range gives at each position what the cell there shows."""
    from openpyxl import Workbook
    from openpyxl.worksheet.formula import ArrayFormula
    from pycel import ExcelCompiler

    rf_calls, rv_calls = [], []
    for rep in range(ctx.n(40, 200)):
        wb = Workbook()
        ws = wb.active
        sa = (ctx.rng.randrange(1, 4), ctx.rng.randrange(1, 4))
        vals = tuple(tuple(ctx.rng.choice([0, 1, 2, 3, 7, -5, 0.5, 1.5, 12]) for _ in range(sa[1]))
                     for _ in range(sa[0]))
        for i, row in enumerate(vals):
            for j, v in enumerate(row):
                ws.cell(row=1 + i, column=1 + j, value=v)
        src = f'A1:{col(sa[1])}{sa[0]}' if sa != (1, 1) else 'A1:A1'
        k = ctx.rng.choice([2, 3, 5])
        f1 = f'{src}*{k}'
        variant = ctx.rng.choice(['same', 'same', 'extends', 'other'])
        f2 = {'same': f1, 'extends': f1 + '0', 'other': f'{src}+{k}'}[variant]
        h1, w1 = ctx.rng.randrange(1, 4), ctx.rng.randrange(1, 4)
        if (h1, w1) == (1, 1):
            w1 = 2
        horizontal = ctx.rng.random() < 0.5
        if horizontal:
            h2, w2 = h1, ctx.rng.randrange(1, 4)
            r2, c2 = 10, 6 + w1
        else:
            h2, w2 = ctx.rng.randrange(1, 4), w1
            r2, c2 = 10 + h1, 6
        if (h2, w2) == (1, 1):
            h2, w2 = (1, 2) if horizontal else (2, 1)
            if not horizontal and w1 != 1:
                h2, w2 = 2, w1
            if horizontal and h1 != 1:
                h2, w2 = h1, 2
        ref1 = f'{col(6)}10:{col(6 + w1 - 1)}{10 + h1 - 1}'
        ref2 = f'{col(c2)}{r2}:{col(c2 + w2 - 1)}{r2 + h2 - 1}'
        ws.cell(row=10, column=6, value=ArrayFormula(ref1, '=' + f1))
        ws.cell(row=r2, column=c2, value=ArrayFormula(ref2, '=' + f2))
        try:
            comp = ExcelCompiler(excel=wb)
        except Exception as exc:      # noqa: BLE001
            ctx.violation(dict(call='array-formula', args=[f1, f2, ref1, ref2]),
                          f"workbook with array formulas does not compile: {type(exc).__name__}")
            continue
        sheet = comp.excel.workbook['Sheet']
        try:        # what the two formulas' compiled code returns
            res1 = fixup(vals, 'Mult', k)
            res2 = {'same': res1, 'extends': fixup(vals, 'Mult', k * 10),
                    'other': fixup(vals, 'Add', k)}[variant]
            formulas = [[10, 6, h1, w1, enc_val(f1), enc_val(res1)],
                        [r2, c2, h2, w2, enc_val(f2), enc_val(res2)]]
        except Exception:      # noqa: BLE001
            formulas = None
        # the ranges around: both reference ranges, the range spanning both, ranges from the first top left
        # of random extent, ranges starting inside
        H, W = (h1, w1 + w2) if horizontal else (h1 + h2, w1)
        spans = [(10, 6, h1, w1), (r2, c2, h2, w2), (10, 6, H, W)]
        for _ in range(4):
            spans.append((10, 6, ctx.rng.randrange(1, H + 2), ctx.rng.randrange(1, W + 2)))
            spans.append((10 + ctx.rng.randrange(0, 2), 6 + ctx.rng.randrange(0, 2),
                          ctx.rng.randrange(1, H + 1), ctx.rng.randrange(1, W + 1)))
        for (r0, c0, h, w) in spans:
            if (h, w) == (1, 1):
                continue
            ref = f'{col(c0)}{r0}:{col(c0 + w - 1)}{r0 + h - 1}'
            case = dict(call='range-formula', args=[f1, ref1, f2, ref2], range=ref)
            im = run_impl(impl_range_formula, comp, ref)
            rf_calls.append((case, sheet_cells(sheet, r0, c0, h, w), im))
            got = run_impl(comp.evaluate, f'Sheet!{ref}')
            if formulas is not None:
                rv_calls.append((dict(case, call='range-value'), formulas, (r0, c0, h, w), got))
            # ---- oracle: the range shows at each position what the cell there shows
            cells = tuple(tuple(run_impl(comp.evaluate, f'Sheet!{col(c0 + j)}{r0 + i}')
                                for j in range(w)) for i in range(h))
            own = im[0] == 'ok' and im[1][0]        # the range was given an array formula of its own
            ocase = dict(call='range-over-array-formulas' if own else 'range-inside-array-formula',
                         args=[f1, ref1, f2, ref2], range=ref)
            ctx.count(('range-oracle', repr(ocase)), kind='range-oracle:' + ('own' if own else 'cells'))
            if all(x[0] == 'ok' for row in cells for x in row):
                want = ('ok', squeeze(tuple(tuple(x[1] for x in row) for row in cells)))
                if got != want:
                    ctx.violation(ocase, "a range over array formulas does not show its cells' own values"
                                  if own else
                                  "a range inside / across array formulas does not show its cells' values",
                                  impl=got, expected=want[1])
            else:
                bad = [x for row in cells for x in row if x[0] != 'ok'][0]
                ctx.violation(ocase, f"a member cell of an array formula raises {bad[1]}", impl=bad)
    if ctx.model and rf_calls:
        ms = [dec_res(x) for x in ctx.model.batch([('range_formula', [cells]) for _, cells, _ in rf_calls])]
        for (case, cells, im), m in zip(rf_calls, ms):
            ctx.count(('range-formula', repr(case)),
                      kind='range-formula:' + ('own' if im[0] == 'ok' and im[1][0] else 'none'),
                      sample=dict(case, impl=im))
            if not skip_model(m) and not same(m, im):
                ctx.divergence(case, im, m, 'Model/CseCells.v range_formula = the formula _OpxRange.__new__ '
                                            'gives the range')
    if ctx.model and rv_calls:
        ms = [dec_res(x) for x in ctx.model.batch(
            [('sheet_range_value', [formulas] + list(key)) for _, formulas, key, _ in rv_calls])]
        for (case, formulas, key, got), m in zip(rv_calls, ms):
            ctx.count(('range-value', repr(case)), kind='range-formula:value', sample=dict(case, impl=got))
            if m[0] == 'ok':
                m = ('ok', sq_model(m[1]))
            if not skip_model(m) and not same(m, got):
                ctx.divergence(case, got, m, 'Model/CseCells.v sheet_range_value (sheet_of formulas) = '
                                             'evaluate(range) for any range around the array formulas')


def sheet_side(comp, r0, c0, h, w, title='Sheet'):
    """What load_array_formulas wrote into the cells of the reference range and what cell_to_formula
    makes of it: (row, col, i, j, height, width, start_col, start_row, end_col, end_row) per member."""
    from pycel.excelutil import AddressRange
    ws = comp.excel.workbook[title]
    out = []
    for row in range(r0, r0 + h):
        for cl in range(c0, c0 + w):
            text = ws.cell(row=row, column=cl).value
            assert text.startswith('=CSE_INDEX(') and text.endswith(')'), text
            i, j, hh, ww = (int(x) for x in text[:-1].rsplit(',', 4)[1:])
            f = comp.excel.get_formula_or_value(f'{qsheet(title)}!{col(cl)}{row}')
            assert f.startswith('=index(') and f.endswith(')'), f
            rng, fi, fj = f[len('=index('):-1].rsplit(',', 2)
            assert (int(fi), int(fj)) == (i, j), f
            a = AddressRange(rng)
            out.append((row, cl, i, j, hh, ww, a.start.col_idx, a.start.row, a.end.col_idx, a.end.row))
    return tuple(out)


def enc_m(v):
    """Re-encode a decoded model value (floats are ('float', Fraction))."""
    if isinstance(v, tuple) and len(v) == 2 and v[0] == 'float':
        return enc_val(v[1])
    if isinstance(v, tuple):
        return [5] + [enc_m(x) for x in v]
    return enc_val(v)


def sq_model(v):
    def is_float(x):
        return isinstance(x, tuple) and len(x) == 2 and x[0] == 'float'
    if isinstance(v, tuple) and not is_float(v):
        if len(v[0]) == 1 and not is_float(v[0]):
            v = tuple(row[0] for row in v)
        if len(v) == 1:
            v = v[0]
    return v
