"""C20 — text functions: correspondence (Gen/text.v + Model/Text.v vs pycel.lib.text
called through apply_meta, the way pycel calls it) and the property's oracle on
the implementation."""
import fractions
import itertools

from harness.common import dec_res, enc_val, ensure_impl_on_path, known_predicate, run_impl, Unencodable

GEN_MODULES = ['excelutil', 'text']
EXTRA_TARGETS = ('Proofs/C20.vo', 'Proofs/C20TextTop.vo')
ASSUMPTIONS = []

ALPHA = 'aB é\U0001F600'          # repeats, upper/lower, a space, 2-byte and 4-byte UTF-8
POS = list(range(-1, 11))         # all n, k in -1..10
ERR = '#VALUE!'
SCALARS = [None, True, False, 0, 1, 3, -1, 3.0, 12345.0, -2.0, 0.5, 1.5, 2.5, 1e10, 7,
           '3', '1.5', ' 2 ', 'abc', '', 'TRUE', '#N/A', '#VALUE!', '#DIV/0!', '#EMPTY!', '1e2']


# Predicates for whole input classes with one cause (ids of known_findings.json).  Each is keyed on the oracle clause that failed
# (case['oracle']) AND the input class, so other clauses on the same inputs still alarm.
@known_predicate('C20-text-half-even')
def _kp_text_half_even(case):
    return case['call'] == 'text' and case.get('oracle') == 'text-half-even'


@known_predicate('C20-text-double-dot-keyerror')
def _kp_text_keyerror(case):
    return case['call'] == 'text' and case.get('oracle') == 'raises-KeyError' \
        and isinstance(case['args'][1], str) and '..' in case['args'][1]


# where pycel's TEXT differs from Excel inside the 0 # , . % grammar (known findings)
@known_predicate('C20-text-pad-not-grouped')
def _kp_text_pad_not_grouped(case):
    return case['call'] == 'text' and case.get('oracle') == 'text-pad-not-grouped'


@known_predicate('C20-text-scaling-comma')
def _kp_text_scaling_comma(case):
    return case['call'] == 'text' and case.get('oracle') == 'text-scaling-comma'


def strings_upto(n, alpha=ALPHA):
    for k in range(n + 1):
        for t in itertools.product(alpha, repeat=k):
            yield "".join(t)


def rand_string(ctx, lo=5, hi=8):
    return "".join(ctx.rng.choice(ALPHA) for _ in range(ctx.rng.randrange(lo, hi + 1)))


def excel_render(v):
    """What Excel shows for a scalar used as text (3.0 -> '3')."""
    if v is None:
        return ''
    if isinstance(v, bool):
        return 'TRUE' if v else 'FALSE'
    if isinstance(v, float) and v == int(v):
        return str(int(v))
    return str(v)


def occurrences(s, old):
    """start indices of the non-overlapping occurrences of old (non-empty), left to right"""
    out, i = [], 0
    while old and i + len(old) <= len(s):
        if s[i:i + len(old)] == old:
            out.append(i)
            i += len(old)
        else:
            i += 1
    return out


ADVISORY = ['Refuted/C20_text_rounding.vo']     # witnesses of the known findings; never an alarm


def run(ctx):
    ensure_impl_on_path()
    from harness import common
    with common.BuildLock():
        ok, _log = common.make(ADVISORY)
    ctx.extra['refuted_witnesses'] = {t: ('compiles' if ok else 'does not compile (advisory)')
                                      for t in ADVISORY}
    from pycel.lib import text as T
    from pycel.lib.function_helpers import apply_meta
    from pycel.excelutil import build_operator_operand_fixup

    names = ['left', 'right', 'mid', 'replace', 'find', 'exact', 'len_', 'lower', 'upper', 'trim',
             'concatenate', 'concat', 'substitute', 'text']
    F = {n: apply_meta(getattr(T, n), name_space={})[0] for n in names}
    amp = build_operator_operand_fixup(lambda *a: None)
    thorough = ctx.tier == 'thorough'
    ctx.extra['rule'] = (
        "calls of LEFT/RIGHT/MID/REPLACE/FIND/SUBSTITUTE/TRIM/UPPER/LOWER/EXACT/LEN/CONCATENATE/"
        "CONCAT/TEXT through function_helpers.apply_meta: every string up to length 4 (FIND/SUBSTITUTE "
        "quick tier: 3, with every pattern up to length 2) over the 5-symbol alphabet 'a','B',' ','é','😀' x every n, k in "
        "-1..10, PRNG-sampled strings of length 5..8, and number/boolean/blank/error/numeric-text "
        "arguments in every parameter position; TEXT: numbers k/10^j and dyadics x (formats of the "
        "grammar [#,##]0[.0#][%], random texts over 0 # , . %, and formats drawn from the grammar of "
        "Proofs/C20TextSpec.v: up to 6 integer placeholders/commas, optional '.' with up to 4 fraction "
        "placeholders, 0-2 '%'), each also evaluated by the declarative text_spec (Python and extracted Coq); "
        "a case is non-trivial when it is a distinct (function, arguments) pair")

    S4 = list(strings_upto(4))
    S3 = [s for s in S4 if len(s) <= 3]
    S2 = [s for s in S4 if len(s) <= 2]
    SM = S4 if thorough else S3
    LONG = [rand_string(ctx) for _ in range(ctx.n(150, 1500))]
    calls = []
    # ---- slicing, exhaustive
    for s in S4 + LONG:
        calls.append(('left', (s,)))
        calls.append(('right', (s,)))
        for n in POS:
            calls.append(('left', (s, n)))
            calls.append(('right', (s, n)))
    for s in S4 + LONG[:ctx.n(40, 400)]:
        for n in POS:
            for k in POS:
                calls.append(('mid', (s, n, k)))
                calls.append(('replace', (s, n, k, 'é' if (n + k) % 2 else 'xy')))
    # ---- replace with a new_text that is not text: blank, logicals, integers, integral and other floats
    for s in S2[:12] + ['abcdef', 'aB é\U0001F600'] + LONG[:ctx.n(10, 100)]:
        for n in (0, 1, 2, len(s), len(s) + 1, len(s) + 3):
            for k in (-1, 0, 1, 2, len(s) + 1):
                for t in NONTEXT:
                    calls.append(('replace', (s, n, k, t)))
    # ---- find: every pattern up to length 2 in every string, every start
    for w in SM + LONG[:ctx.n(30, 300)]:
        pats = S2 if len(w) <= 4 else [w[i:i + k] for i in range(len(w)) for k in (1, 2, 3)][:12] + ['', 'zz']
        for f in pats:
            calls.append(('find', (f, w)))
            for st in (POS if len(w) <= 3 or thorough else (-1, 0, 1, 2, 3, 5, 9)):
                calls.append(('find', (f, w, st)))
    # ---- fractional starts / counts
    for w in S3 + LONG[:20]:
        for f in (S2 if len(w) <= 3 else [w[1:3], 'zz']):
            for st in (-0.5, 0.5, 1.5, 2.5, 3.75):
                calls.append(('find', (f, w, st)))
        for k in (0.25, 0.5, 1.5, 2.5, -0.5):
            calls.append(('right', (w, k)))
            calls.append(('left', (w, k)))
    # ---- substitute
    for t in SM + LONG[:ctx.n(30, 300)]:
        pats = S2 if len(t) <= 4 else [t[i:i + k] for i in range(len(t)) for k in (1, 2)][:10] + ['', 'zz']
        for old in pats:
            new = ('', 'x', old + old, 'a é')[(len(t) + len(old)) % 4]
            calls.append(('substitute', (t, old, new)))
            for inst in (1, 2, 3, 4, 0, -1):
                calls.append(('substitute', (t, old, new, inst)))
    # ---- one-argument functions, exact, concatenate
    for s in S4 + LONG:
        for f in ('trim', 'upper', 'lower', 'len_'):
            calls.append((f, (s,)))
    for s in [' ' * a + 'a' + ' ' * b + 'b' + ' ' * c for a in range(4) for b in range(4) for c in range(4)]:
        calls.append(('trim', (s,)))
    for a in S2 + LONG[:40]:
        for b in S2 + LONG[:40]:
            calls.append(('exact', (a, b)))
            calls.append(('concatenate', (a, b)))
    for a in LONG[:60]:
        calls.append(('exact', (a, a)))
        calls.append(('exact', (a, a.upper())))
        calls.append(('concatenate', (a, a, a)))
        calls.append(('concat', (a, ' ', a)))
    # ---- numbers, booleans, blanks, errors in every position
    base = {'left': ('abcdef', 2), 'right': ('abcdef', 2), 'mid': ('abcdef', 2, 3),
            'replace': ('abcdef', 2, 3, 'XY'), 'find': ('c', 'abcabc', 2), 'exact': ('abc', 'abc'),
            'len_': ('abc',), 'lower': ('AbC',), 'upper': ('AbC',), 'trim': (' a  b ',),
            'concatenate': ('a', 'b'), 'concat': ('a', 'b'), 'substitute': ('abcabc', 'b', 'X', 2)}
    for f, args in base.items():
        calls.append((f, args))
        for i in range(len(args)):
            for v in SCALARS:
                a = list(args)
                a[i] = v
                calls.append((f, tuple(a)))
        for v, w in itertools.product(SCALARS, repeat=2):
            if len(args) >= 2 and ctx.rng.random() < (1.0 if thorough else 0.35):
                a = list(args)
                a[0], a[1] = v, w
                calls.append((f, tuple(a)))
    for v in SCALARS:
        for n in (-1, 0, 1, 2, 6):
            calls.append(('left', (v, n)))
            calls.append(('right', (v, n)))
            calls.append(('mid', (v, 1, n)))
        calls.append(('substitute', ('aXbXc', 'X', '-', v)))

    # ---- run both sides
    seen = set()
    uniq = []
    for c in calls:
        k = (c[0], repr(c[1]))
        if k not in seen:
            seen.add(k)
            uniq.append(c)
    calls = uniq
    impl = [run_impl(F[f], *a) for f, a in calls]
    model = [None] * len(calls)
    if ctx.model:
        enc, idx = [], []
        for j, (f, a) in enumerate(calls):
            try:
                enc.append((f, [enc_val(v) for v in a]))
                idx.append(j)
            except Unencodable:
                pass
        for j, x in zip(idx, ctx.model.batch(enc)):
            model[j] = dec_res(x)
    for (f, a), i, m in zip(calls, impl, model):
        case = dict(call=f, args=list(a))
        allstr = all(isinstance(x, str) for x in a)
        ctx.count((f, repr(a)), kind=f"{f}:{'text' if allstr else 'mixed'}",
                  sample=dict(call=f, args=list(a), impl=i))
        if m is not None:
            if m[0] == 'raise' and m[1] in ('Unmodelled', 'OutOfFuel'):
                ctx.histogram['unmodelled'] = ctx.histogram.get('unmodelled', 0) + 1
            elif m != i:
                ctx.divergence(case, i, m, 'Gen/text.v + Model/Text.v = pycel.lib.text via apply_meta')
        oracle(ctx, F, amp, f, a, i)
    text_part(ctx, F)
    compiler_part(ctx)


NONTEXT = [None, True, False, 0, 7, -1, 123456, 3.0, 12345.0, -2.0, 1e10, 0.5, 1.5, -2.5, 0.125]


def nontext_scalar(v):
    """blank, logical, int, or a float whose Excel rendering is beyond doubt (integral, or a short dyadic)"""
    if v is None or isinstance(v, (bool, int)):
        return True
    return isinstance(v, float) and v == v and abs(v) < 1e15 and (v == int(v) or len(repr(v)) <= 8)


def is_err(v):
    return isinstance(v, str) and v.startswith('#') and v in (
        '#VALUE!', '#N/A', '#DIV/0!', '#NUM!', '#NAME?', '#NULL!', '#REF!', '#EMPTY!')


def oracle(ctx, F, amp, f, a, i):
    """The identities of the property, evaluated on the implementation alone."""
    case = dict(call=f, args=list(a))
    if i[0] == 'raise':
        ctx.violation(dict(case, oracle=f'raises-{i[1]}'),
                      f"raises {i[1]} instead of returning a value or an error value", impl=i)
        return
    r = i[1]
    texts = all(isinstance(x, str) and not is_err(x) for x in a if not isinstance(x, (int, float)))
    if f in ('left', 'right') and len(a) == 2 and isinstance(a[1], (int, float)) \
            and not isinstance(a[1], bool) and not is_err(a[0]) \
            and (isinstance(a[0], str) or isinstance(a[0], (bool, int, float)) or a[0] is None):
        s, n = excel_render(a[0]), a[1]
        if isinstance(a[0], float) and a[0] != int(a[0]):
            return
        if n < 0:
            want = ERR
        elif f == 'left':
            want = s[:int(n)]
        else:
            want = s[len(s) - min(int(n), len(s)):]
        if r != want:
            ctx.violation(dict(case, oracle='slice-chars'),
                          f"{f.upper()} is not the {'first' if f == 'left' else 'last'} n characters "
                                "of the Excel rendering / #VALUE! for a negative count", impl=r, expected=want)
        if f == 'left' and n >= 0 and isinstance(a[0], str):
            ln = F['len_'](a[0])
            m = F['mid'](a[0], n + 1, ln)
            if not (isinstance(m, str) and r + m == s):
                ctx.violation(dict(call='mid', args=[a[0], n + 1, ln], oracle='partition'),
                              "LEFT(s,n) & MID(s,n+1,LEN(s)) <> s", impl=[r, m], expected=s)
    elif f == 'mid' and isinstance(a[0], str) and not is_err(a[0]) \
            and all(isinstance(x, int) and not isinstance(x, bool) for x in a[1:]):
        s, n, k = a
        want = ERR if n < 1 or k < 0 else s[n - 1:n - 1 + k]
        if r != want:
            ctx.violation(dict(case, oracle='slice-chars'), "MID is not the k characters from position n / #VALUE!", impl=r, expected=want)
    elif f == 'replace' and texts and isinstance(a[0], str) and isinstance(a[3], str) \
            and all(isinstance(x, int) and not isinstance(x, bool) for x in a[1:3]):
        s, n, k, t = a
        if n < 1 or k < 0:
            want = ERR
        else:
            want = F['left'](s, n - 1) + t + F['mid'](s, n + k, F['len_'](s))
        if r != want:
            ctx.violation(dict(case, oracle='replace-splice'), "REPLACE(s,n,k,t) <> LEFT(s,n-1) & t & MID(s,n+k,LEN(s))", impl=r, expected=want)
    elif f == 'replace' and isinstance(a[0], str) and not is_err(a[0]) and nontext_scalar(a[3]) \
            and all(isinstance(x, int) and not isinstance(x, bool) for x in a[1:3]):
        # new_text that is not text (blank, logical, number): it is spliced in as Excel renders it — '' / TRUE /
        # 3 for 3.0 — exactly as & does
        s, n, k, t = a
        if n < 1 or k < 0:
            want = want_amp = ERR
        else:
            left, mid = F['left'](s, n - 1), F['mid'](s, n + k, F['len_'](s))
            want = left + excel_render(t) + mid
            want_amp = amp(amp(left, 'BitAnd', t), 'BitAnd', mid)
        if r != want:
            ctx.violation(dict(case, oracle='replace-splice-nontext'),
                          "REPLACE(s,n,k,t) <> LEFT(s,n-1) & t & MID(s,n+k,LEN(s)) with t rendered the Excel way",
                          impl=r, expected=want)
        elif r != want_amp:
            ctx.violation(dict(case, oracle='replace-splice-amp'),
                          "REPLACE(s,n,k,t) <> LEFT(s,n-1) & t & MID(s,n+k,LEN(s)) computed with the & operator",
                          impl=r, expected=want_amp)
    elif f == 'find' and texts and isinstance(a[0], str) and isinstance(a[1], str) \
            and (len(a) == 2 or (isinstance(a[2], (int, float)) and not isinstance(a[2], bool))):
        p, s = a[0], a[1]
        st = int(a[2]) if len(a) == 3 else 1      # a fractional start behaves as its truncation
        want = ERR
        if st >= 1:
            for q in range(st, len(s) - len(p) + 2):
                if F['mid'](s, q, len(p)) == p:
                    want = q
                    break
        if r != want:
            ctx.violation(dict(case, oracle='find-first'), "FIND is not the first position p >= start with MID(s,p,LEN(f)) = f "
                                "(or #VALUE!)", impl=r, expected=want)
    elif f == 'substitute' and texts and all(isinstance(x, str) for x in a[:3]) and a[1] != '' \
            and (len(a) == 3 or (isinstance(a[3], int) and not isinstance(a[3], bool))):
        t, old, new = a[:3]
        occ = occurrences(t, old)
        if len(a) == 3:
            want, last = '', 0
            for o in occ:
                want += t[last:o] + new
                last = o + len(old)
            want += t[last:]
        elif a[3] < 1:
            want = ERR
        elif a[3] > len(occ):
            want = t
        else:
            o = occ[a[3] - 1]
            want = t[:o] + new + t[o + len(old):]
        if r != want:
            ctx.violation(dict(case, oracle='substitute'), "SUBSTITUTE does not replace all / exactly the i-th occurrence",
                          impl=r, expected=want)
    elif f == 'concatenate' and len(a) == 2 and not any(is_err(x) for x in a):
        want = run_impl(amp, a[0], 'BitAnd', a[1])
        if want != i:
            ctx.violation(dict(case, oracle='concatenate-amp'), "CONCATENATE(a,b) <> a & b", impl=r, expected=want)
    elif f == 'trim' and isinstance(a[0], str) and not is_err(a[0]):
        want = ' '.join(w for w in a[0].split(' ') if w)
        if r != want:
            what = "TRIM leaves a space at an end" if isinstance(r, str) and '  ' not in r \
                else "TRIM leaves adjacent spaces"
            ctx.violation(dict(case, oracle='trim-ends' if 'end' in what else 'trim-adjacent'),
                          what, impl=r, expected=want)
        if F['trim'](r) != r:
            ctx.violation(dict(case, oracle='idempotent'), "TRIM is not idempotent", impl=F['trim'](r), expected=r)
    elif f in ('upper', 'lower') and isinstance(a[0], str) and not is_err(a[0]):
        if F[f](r) != r:
            ctx.violation(dict(case, oracle='idempotent'), f"{f.upper()} is not idempotent", impl=F[f](r), expected=r)
    elif f == 'exact' and texts and all(isinstance(x, str) for x in a):
        if r is not (a[0] == a[1]):
            ctx.violation(dict(case, oracle='exact'), "EXACT is not case-sensitive equality", impl=r, expected=a[0] == a[1])


def compiler_part(ctx):
    """REPLACE through ExcelCompiler on a small workbook: new_text given as a reference to an empty cell, to
    constants (TRUE, 7, 2.5, text), to computed cells (=6/2 -> 3.0, =1=1 -> TRUE, =10/4) and as a literal
    expression; column C holds =REPLACE($A$1,n,k,Bi), column D the identity's right-hand side written with
    LEFT / & / MID / LEN.  Both must agree with each other and with the splice of the Excel rendering."""
    import openpyxl
    from pycel import ExcelCompiler
    rng = ctx.rng
    ctx.extra['rule'] += (
        "; compiler leg: REPLACE($A$1,n,k,t) on workbooks compiled with ExcelCompiler, t a reference to an empty "
        "cell / logical / integer / float constants / cells computed as =6/2, =1=1, =10/4 / literal expressions, "
        "against LEFT & t & MID in the same workbook and the spliced Excel rendering")
    srcs = [(None, ''), (True, 'TRUE'), (False, 'FALSE'), (7, '7'), (0, '0'), (2.5, '2.5'), ('=6/2', '3'),
            ('=1=1', 'TRUE'), ('=10/4', '2.5'), ('=2*3', '6'), ('=-8/4', '-2'), ('xy', 'xy'), ('=1>2', 'FALSE')]
    lits = [('TRUE', 'TRUE'), ('FALSE', 'FALSE'), ('3', '3'), ('6/2', '3'), ('2.5', '2.5'), ('"é"', 'é'),
            ('1=1', 'TRUE'), ('-1', '-1'), ('B1', '')]
    for w in range(ctx.n(10, 100)):
        s = rand_string(ctx, 3, 8)
        n, k = rng.randrange(1, len(s) + 3), rng.randrange(0, len(s) + 2)
        wb = openpyxl.Workbook()
        ws = wb.active
        ws.title = 'S'
        ws['A1'] = s
        forms = {}
        for i, (v, _) in enumerate(srcs, start=1):
            if v is not None:
                ws[f'B{i}'] = v
            forms[i] = (f'=REPLACE($A$1,{n},{k},B{i})', f'=LEFT($A$1,{n}-1)&B{i}&MID($A$1,{n}+{k},LEN($A$1))')
        for j, (e, _) in enumerate(lits, start=len(srcs) + 1):
            forms[j] = (f'=REPLACE($A$1,{n},{k},{e})', f'=LEFT($A$1,{n}-1)&({e})&MID($A$1,{n}+{k},LEN($A$1))')
        for i, (c, d) in forms.items():
            ws[f'C{i}'], ws[f'D{i}'] = c, d
        comp = ExcelCompiler(excel=wb)
        renders = [r for _, r in srcs] + [r for _, r in lits]
        for i, (c, d) in forms.items():
            t_src = srcs[i - 1][0] if i <= len(srcs) else lits[i - 1 - len(srcs)][0]
            case = dict(call='replace', via='ExcelCompiler', args=[s, n, k, t_src], formula=c)
            ctx.count(('compiler-replace', s, n, k, repr(t_src)), kind='replace:compiler', sample=case)
            got = run_impl(comp.evaluate, f'S!C{i}')
            rhs = run_impl(comp.evaluate, f'S!D{i}')
            want = ('ok', s[:n - 1] + renders[i - 1] + s[n - 1 + k:])
            if got != want:
                ctx.violation(dict(case, oracle='replace-splice-nontext'),
                              "REPLACE(s,n,k,t) in a workbook is not s with k characters from n replaced by the Excel "
                              "rendering of t", impl=got, expected=want)
            elif got != rhs:
                ctx.violation(dict(case, oracle='replace-splice-amp'),
                              f"REPLACE(s,n,k,t) <> {d[1:]} in the same workbook", impl=got, expected=rhs)


INT_PARTS = ['0', '#', '00', '000', '#,##0', '#,###', '#0', '0#', '##', '0,000', '#,#', ',0', '0,', '##,##', '']
FRAC_PARTS = ['', '.', '.0', '.00', '.000', '.0#', '.##', '.0##', '.#', '.#0', '.0000']
ORACLE_INT = {'0': 1, '00': 2, '000': 3, '#': 0, '#,##0': 1, '#,###': 0}
ORACLE_FRAC = {'': (0, 0), '.0': (1, 0), '.00': (2, 0), '.000': (3, 0), '.0#': (1, 1), '.##': (0, 2),
               '.0##': (1, 2), '.#': (0, 1), '.0000': (4, 0)}


def text_expected(x, ip, fp, pct, as_implemented=False):
    """TEXT as the property states it: the decimal the user wrote (repr), scaled by 100 per %,
    rounded half away from zero to the requested digits, grouped, padded.
    as_implemented=True: the same rendering of the half-EVEN rounding of the exact binary value
    of the (float-scaled) number — used only to name the cause of a violation."""
    import decimal
    if as_implemented:
        d = decimal.Decimal(x * 100 ** len(pct))
        mode = decimal.ROUND_HALF_EVEN
    else:
        d = decimal.Decimal(repr(x)) if isinstance(x, float) else decimal.Decimal(x)
        d *= 100 ** len(pct)
        mode = decimal.ROUND_HALF_UP
    a, b = ORACLE_FRAC[fp]
    with decimal.localcontext() as c:
        c.prec = 80
        q = abs(d).quantize(decimal.Decimal(1).scaleb(-(a + b)), rounding=mode)
    digits = f"{q:f}"
    whole, _, frac = digits.partition('.')
    frac = frac.rstrip('0').ljust(a, '0') if a + b else ''
    z = ORACLE_INT[ip]
    w = int(whole)
    ws = (f"{w:,}" if ',' in ip else str(w)) if (w or z) else ''
    ws = ws.zfill(z)
    out = ('-' if d < 0 else '') + ws
    if fp:
        out += '.' + frac
    return out + pct


# ---- the grammar and the declarative meaning of Proofs/C20TextSpec.v, re-implemented (theorems C20_text_halfeven /
# C20_text_nontie / C20_text_parsed prove that Model/TextFormat.v computes exactly this for every x and every format
# of the grammar; the harness compares this re-implementation with the extracted Coq [text_spec] and with pycel).
def parse_fmt(f):
    """f ::= int ['.' frac] '%'*; int over 0 # , with every ',' directly after a placeholder; frac over 0 #.
    Returns (int, has_dot, frac, percents) or None."""
    body = f.rstrip('%')
    k = len(f) - len(body)
    ip, dot, fp = body.partition('.')
    if not set(ip) <= set('0#,') or not set(fp) <= set('0#'):
        return None
    if ip.startswith(',') or ',,' in ip or (not dot and not ip):
        return None
    return ip, bool(dot), fp, k


def group3(s):
    out = []
    for i, ch in enumerate(reversed(s)):
        if i and i % 3 == 0:
            out.append(',')
        out.append(ch)
    return ''.join(reversed(out))


def has_thousands(ip):
    return any(ip[i] == ',' and ip[i + 1] in '0#' for i in range(len(ip) - 1))


def text_spec(x, fm, mode, excel_padding=False):
    """text_spec of C20TextSpec.v for the exact number x (a Fraction); mode 'away' | 'even'.
    Returns (text, is_tie).  excel_padding=True: the padding zeros take part in the grouping (what Excel shows
    for "0,000"; pycel does not) and a ',' that is not followed by a placeholder scales by 1000."""
    ip, dot, fp, k = fm
    d = len(fp)
    q = abs(x) * 100 ** k * 10 ** d
    if excel_padding:
        i = len(ip)
        while i and ip[i - 1] == ',':
            q /= 1000
            i -= 1
    fl = q.numerator // q.denominator
    r = q - fl
    half = fractions.Fraction(1, 2)
    tie = r == half
    if r < half:
        n = fl
    elif r > half or mode == 'away' or fl % 2:
        n = fl + 1
    else:
        n = fl
    whole, rest = divmod(n, 10 ** d)
    ds = str(whole) if whole else ''
    phs = [c for c in ip if c in '0#']
    lead = phs[:max(0, len(phs) - len(ds))]
    pad = ''.join(c for c in lead if c == '0')
    if has_thousands(ip):
        body = group3(pad + ds) if excel_padding else pad + group3(ds)
    else:
        body = pad + ds
    fd = str(rest).zfill(d).rstrip('0')
    fill = ''.join(c for c in fp[len(fd):] if c == '0')
    out = ('-' if x < 0 else '') + body
    if dot:
        out += '.' + fd + fill
    return out + '%' * k, tie


def rand_grammar_format(rng):
    n = rng.randrange(0, 7)
    ip = ''
    for _ in range(n):
        ip += rng.choice('0#0#0#,') if ip and ip[-1] != ',' else rng.choice('0#')
    dot = rng.random() < 0.6 or not ip
    fp = ''.join(rng.choice('0#') for _ in range(rng.randrange(0, 5))) if dot else ''
    return ip + ('.' + fp if dot else '') + '%' * rng.choice((0, 0, 0, 1, 1, 2))


def spec_stream(ctx, calls, impl):
    """Oracle stream of the TEXT theorems.  For every generated (x, f) with f in the grammar:
    (1) the Python text_spec above = the extracted Coq [text_spec] (both modes) and agrees on 'is a tie', and the
        Python parse_fmt accepts exactly the texts the Coq parse_fmt accepts;
    (2) pycel = text_spec(half-away) of the decimal the user wrote whenever that decimal is not a rounding tie at the
        requested digits (theorem C20_text_nontie on the implementation) -- the ties are the known finding
        C20-text-half-even and are left to the older oracle below;
    (3) where Excel differs from text_spec inside the grammar (padding zeros under grouping, scaling commas) the
        implementation is compared with Excel's rendering (known findings C20-text-pad-not-grouped,
        C20-text-scaling-comma)."""
    import decimal
    H = ctx.histogram
    parsed = [parse_fmt(f) for _x, f, *_ in calls]
    coq = [None] * (2 * len(calls))
    if ctx.model:
        cap = 150000                  # stream (1) on every call of the quick tier, on a PRNG sample of the thorough one
        idx = list(range(len(calls))) if len(calls) <= cap else sorted(ctx.rng.sample(range(len(calls)), cap))
        batch = []
        for j in idx:
            x, f = calls[j][0], calls[j][1]
            for mode in (0, 1):
                batch.append(('text_spec', [enc_val(mode), enc_val(x), enc_val(f)]))
        for n, r in enumerate(ctx.model.batch(batch)):
            coq[2 * idx[n // 2] + n % 2] = dec_res(r)
    for j, ((x, f, *_), fm, i) in enumerate(zip(calls, parsed, impl)):
        case = dict(call='text', args=[x, f])
        exact = fractions.Fraction(0 if x is None else x)
        for mode, name in ((0, 'even'), (1, 'away')):
            c = coq[2 * j + mode]
            if c is None:
                continue
            if fm is None:
                if c != ('raise', 'Unmodelled'):
                    ctx.divergence(dict(case, oracle='spec-grammar'), None, c,
                                   'Python parse_fmt rejects what Coq parse_fmt accepts')
                continue
            want = text_spec(exact, fm, name)
            if c != ('ok', (want[0], want[1])):
                ctx.divergence(dict(case, oracle='spec-' + name), want, c,
                               'harness text_spec = Proofs/C20TextSpec.v text_spec (extracted)')
        if fm is None:
            continue
        H['text:in-grammar'] = H.get('text:in-grammar', 0) + 1
        if i[0] != 'ok' or x is None:
            continue
        dec = fractions.Fraction(decimal.Decimal(repr(x))) if isinstance(x, float) else fractions.Fraction(x)
        want, tie = text_spec(dec, fm, 'away')
        if tie:
            H['text:decimal-tie'] = H.get('text:decimal-tie', 0) + 1
            continue
        H['text:spec-nontie-checked'] = H.get('text:spec-nontie-checked', 0) + 1
        if i[1] != want:
            ctx.violation(dict(case, oracle='text-spec-nontie'),
                          "TEXT is not text_spec(half away from zero) on a number that is not a rounding tie",
                          impl=i[1], expected=want)
        excel, _ = text_spec(dec, fm, 'away', excel_padding=True)
        if excel != want:
            cls = 'text-scaling-comma' if fm[0].endswith(',') else 'text-pad-not-grouped'
            H['text:excel-differs:' + cls] = H.get('text:excel-differs:' + cls, 0) + 1
            if i[1] != excel:
                ctx.violation(dict(case, oracle=cls),
                              "TEXT does not group the padding zeros / does not scale by a trailing comma as Excel does",
                              impl=i[1], expected=excel)


def text_part(ctx, F):
    thorough = ctx.tier == 'thorough'
    nums = [None, 0, 1, 5, 12, 123, 1234, 12345, 1234567, 2958465, 2958466, 40000000, -1, -12, -1234567,
            0.5, 1.5, 2.5, 3.5, 0.125, 0.375, 0.625, 2.25, 1234.5, 1234567.875, -0.5, -2.5, -0.125, -1234.5,
            0.1, 0.25, 0.285, 1.005, 2.675, 0.045, 0.05, 0.15, 0.35, 0.005, 0.015, 0.994, 0.995, 0.9995,
            99.5, 999.5, 999.995, 9.995, 1e-05, 0.001, -0.001, -0.285, 12.3456, 0.07, 0.575, 1.115, 8.345]
    for _ in range(ctx.n(120, 2500)):
        j = ctx.rng.randrange(0, 5)
        k = ctx.rng.randrange(-200000, 2000000) if ctx.rng.random() < 0.7 else ctx.rng.randrange(-500, 500)
        nums.append(k / 10 ** j if j else k)
        if ctx.rng.random() < 0.3:
            nums.append(ctx.rng.randrange(-40000, 40000) / 2 ** ctx.rng.randrange(1, 8))
    fmts = []
    for ip in INT_PARTS:
        for fp in FRAC_PARTS:
            for pct in ('', '%'):
                fmts.append((ip + fp + pct, ip, fp, pct))
    for extra in ('%0', '0%%', '%', ',', '.%', '0.0,0', '#,##0.00%', '0,0.0', '#.#,#', '%#,##0.0', '0.0.0', '..'):
        fmts.append((extra, None, None, None))
    for _ in range(ctx.n(60, 1500)):
        fmts.append(("".join(ctx.rng.choice('0#,.%00##') for _ in range(ctx.rng.randrange(1, 7))), None, None, None))
    for _ in range(ctx.n(60, 600)):               # formats drawn from the grammar of C20TextSpec.v itself
        fmts.append((rand_grammar_format(ctx.rng), None, None, None))
    calls = []
    for x in nums:
        for (f, ip, fp, pct) in (fmts if thorough or len(calls) < 400000 else fmts[:40]):
            if not thorough and ctx.rng.random() < 0.5 and x not in (2.5, 0.125, 0.285, 1234567.875, -2.5):
                continue
            calls.append((x, f, ip, fp, pct))
    impl = [run_impl(F['text'], x, f) for x, f, *_ in calls]
    model = [None] * len(calls)
    if ctx.model:
        model = [dec_res(r) for r in ctx.model.batch(
            [('text', [enc_val(x), enc_val(f)]) for x, f, *_ in calls])]
    spec_stream(ctx, calls, impl)
    for (x, f, ip, fp, pct), i, m in zip(calls, impl, model):
        case = dict(call='text', args=[x, f])
        ctx.count(('text', repr(x), f), kind='text:' + ('grammar' if ip in ORACLE_INT and fp in ORACLE_FRAC
                                                       else 'other'),
                  sample=dict(call='text', args=[x, f], impl=i))
        npct = f.count('%')
        exact = not (npct and isinstance(x, float)) or \
            fractions.Fraction(x) * 100 ** npct == fractions.Fraction(x * 100 ** npct)
        if m is not None:
            if m[0] == 'raise' and m[1] in ('Unmodelled', 'OutOfFuel'):
                ctx.histogram['unmodelled'] = ctx.histogram.get('unmodelled', 0) + 1
            elif not exact:
                ctx.histogram['text:inexact-scaling-skipped'] = \
                    ctx.histogram.get('text:inexact-scaling-skipped', 0) + 1
            elif m != i:
                ctx.divergence(case, i, m, 'Model/TextFormat.v = pycel.lib.text.text via apply_meta')
        if i[0] == 'raise':
            ctx.violation(dict(case, oracle=f'raises-{i[1]}'), f"TEXT raises {i[1]}", impl=i)
        elif ip in ORACLE_INT and fp in ORACLE_FRAC and x is not None:
            want = text_expected(x, ip, fp, pct)
            if i[1] != want:
                if i[1] == text_expected(x, ip, fp, pct, as_implemented=True):
                    what = ("TEXT rounds the binary value of the number half-to-even instead of the "
                            "decimal half away from zero")
                    cls = 'text-half-even'
                else:
                    what = "TEXT does not render the requested digits, grouping and percent scaling"
                    cls = 'text-rendering'
                ctx.violation(dict(case, oracle=cls), what, impl=i[1], expected=want)
