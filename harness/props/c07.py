"""C07 — evaluations on different threads are isolated from each other (PARTIAL).

Model: coq/Model/Threads.v (hand-written): per-thread namespaces of the two
module-level singletons (created lazily with exactly the attributes the `ns`
properties create), per-compiler cell state, one small-step machine per thread whose
steps are the entries of ExcelCompiler._evaluate.  Theorems: C07_noninterference
(+ _trace), C07_fresh; C07_n_threads, C07_serializable, C07_same_projections,
C07_steps_commute, C07_result_alone, C07_completion_alone, C07_same_count_same_view,
C07_warm_equals_fresh, C07_set_value_warm_equals_fresh, C07_namespace_lazy (Proofs/C07Ser.v,
C07Warm.v); the
dependence on thread-locality: C07_shared_namespace_interferes,
C07_shared_context_stack_interferes (and Refuted/C07_shared.v).

Tie to the implementation:
* schedule enumeration on REAL threads: `compiler._evaluate` is wrapped (before first
  use) with a baton so that workload B runs to completion, or to its own k-th
  _evaluate entry, inside the j-th _evaluate entry of workload A; workloads are
  {iterative circular system, plain acyclic workbook, CSE array formula (generated:
  operators or IFERROR/IFNA/IFS - whose lifting depends on the thread's array-formula
  context - over ranges of constants and formula cells, evaluated, an input rewritten,
  evaluated again: gen_array)}; threads are
  fresh (never used the library) or warmed up (ran another iterative evaluation
  before).  Result, pass count (ns.iteration_number), number of _evaluate entries
  and every cell's final value must equal the solo run; for iterative x iterative
  pairs the extracted model is run under the same schedule and must give the same
  result / pass count / number of entries (thread-local namespaces), and the
  shared-namespace variant is run to show that it does differ;
* 3 or 4 workloads on as many real threads under a relay (class Relay: an explicit plan
  of segments "thread p passes c pre-emption points"): every thread is stopped inside
  its operation before the next one starts, then random short turns, then completion
  in a random order; each thread must equal its solo run, and all-iterative tuples are
  run by the extracted model (entry schedn) under the same schedule;
* brand-new threads: from_file of an iterative model, set_value, evaluate,
  trim_graph must all work;
* static inventory (Python `ast`, regenerated every run) of module-level and
  class-level mutable objects of /repo/src/pycel: the ones some function mutates or
  that are thread-local must be exactly the model's list of shared state; the full
  list is compared with the recorded inventory - a new entry breaks the tie.

PARTIAL because the model cannot exhibit pre-emption inside a C-level operation or
the GIL hand-over inside numpy/openpyxl, nor state reachable only through objects
outside the inventory; the baton pre-empts at _evaluate granularity only.
"""
import ast
import hashlib
import logging
import os
import re
import threading
from fractions import Fraction as Fr

from harness.common import ensure_impl_on_path
from harness.props import c06 as base

GEN_MODULES = []
EXTRA_TARGETS = ('Refuted/C07_shared.vo',)
LEVEL = 'proof'    # the evidence schema's category; the claim itself is PARTIAL (see EXPLANATION)
ASSUMPTIONS = []
EXPLANATION = (
    "PARTIAL: the model interleaves at _evaluate granularity; pre-emption inside C code / the GIL, and "
    "state outside the static inventory, are beyond it. C07_noninterference/_trace and C07_fresh are proved "
    "for all schedules and operations, as are C07_n_threads (any number of threads), C07_serializable / "
    "_same_projections / _steps_commute (whole global state = serial schedule), C07_result_alone / "
    "_completion_alone (a finished thread's result, pass count and finishing point are its solo run's), "
    "C07_warm_equals_fresh / _namespace_lazy (leftover tracker state is invisible to evaluate); "
    "C07_shared_namespace_interferes / _shared_context_stack_interferes show the thread-locality is needed; the tie is the real-thread schedule enumeration and the inventory.")

# ---- the model's list of state shared by all compilers of a process (Model/Threads.v header) ----
THREAD_LOCAL = {                      # class attribute -> attributes its `ns` property creates
    'excelutil.py:_IterativeEvalTracker._ns': ['todo', 'computed', 'iteration_number', 'iterations', 'tolerance'],
    'excelutil.py:_ArrayFormulaContext._ns': ['ctx_addresses', '_ctx_address'],
}
SINGLETONS = {'excelutil.py:iterative_eval_tracker', 'excelutil.py:in_array_formula_context'}
# module/class-level objects that some function of the package writes to; each with the reason
# it cannot make one thread's evaluation differ from its solo run
MUTATED_SHARED = {
    'excelcompiler.py:_Cell.ctr': 'cell id counter (ids are labels only; never read by evaluation)',
    'lib/function_helpers.py:star_args': 'names of *args functions, filled by the excel_helper decorator at import '
                                         'time; a function of the loaded modules only',
}
# not a module-level object but a dict hanging on every decorated function: apply_meta() stores the
# namespace of the formula that loaded the function LAST in f.excel_func_meta['name_space']; INDEX over
# references and CELL evaluate cells through it (lookup.py, information.py) - shared by all compilers.
# This one DOES let one compiler's evaluation read another compiler's cells: finding C07-func-meta-name-space.
FUNC_META_BACKPOINTER = ('lib/function_helpers.py', 'apply_meta', 'name_space')
INVENTORY_FILE = os.path.join(os.path.dirname(__file__), 'c07_inventory.txt')


# ------------------------------------------------------------------ static inventory
MUTABLE_CALLS = {'set', 'dict', 'list', 'defaultdict', 'OrderedDict', 'deque', 'Counter', 'local', 'bytearray'}
MUTATORS = {'append', 'add', 'update', 'pop', 'clear', 'extend', 'insert', 'remove', 'setdefault',
            'popitem', 'discard', 'appendleft', 'sort', 'reverse'}


def is_mutable_expr(node):
    if isinstance(node, (ast.List, ast.Dict, ast.Set, ast.ListComp, ast.DictComp, ast.SetComp)):
        return type(node).__name__.lower()
    if isinstance(node, ast.Call):
        f = node.func
        name = f.id if isinstance(f, ast.Name) else f.attr if isinstance(f, ast.Attribute) else None
        if name in MUTABLE_CALLS:
            return f'call:{name}'
        if name and name[:1] == '_' and name[1:2].isupper() or (name and name[:1].isupper() and name not in (
                'AddressRange', 'AddressCell', 'Fraction', 'Decimal')):
            return f'instance:{name}'
    return None


def inventory(repo):
    """{ 'file:qualified.name': kind } of module-level and class-level mutable objects, and the
    set of those names that some function body mutates."""
    root = os.path.join(repo, 'src', 'pycel')
    inv, mutated, nsattrs = {}, set(), {}
    trees = {}
    for dirpath, _, files in os.walk(root):
        for fn in sorted(files):
            if fn.endswith('.py'):
                rel = os.path.relpath(os.path.join(dirpath, fn), root)
                trees[rel] = ast.parse(open(os.path.join(dirpath, fn)).read())
    for rel, tree in trees.items():
        def targets(st):
            if isinstance(st, ast.Assign):
                return [(t.id, st.value) for t in st.targets if isinstance(t, ast.Name)]
            if isinstance(st, ast.AnnAssign) and isinstance(st.target, ast.Name) and st.value is not None:
                return [(st.target.id, st.value)]
            return []
        names = {}
        for st in tree.body:
            for name, value in targets(st):
                kind = is_mutable_expr(value)
                if kind:
                    names[name] = kind
                    inv[f'{rel}:{name}'] = kind
            if isinstance(st, ast.ClassDef):
                for sub in st.body:
                    for name, value in targets(sub):
                        kind = is_mutable_expr(value)
                        if kind or (isinstance(value, ast.Constant) and isinstance(value.value, int)
                                    and not isinstance(value.value, bool) and name == 'ctr'):
                            inv[f'{rel}:{st.name}.{name}'] = kind or 'counter'
                    # attributes the ns property creates
                    if isinstance(sub, ast.FunctionDef) and sub.name == 'ns':
                        attrs = []
                        for n in ast.walk(sub):
                            if isinstance(n, ast.Assign):
                                for t in n.targets:
                                    if (isinstance(t, ast.Attribute) and isinstance(t.value, ast.Attribute)
                                            and t.value.attr == '_ns'):
                                        attrs.append(t.attr)
                        nsattrs[f'{rel}:{st.name}._ns'] = attrs
        # mutations inside function bodies
        for fn_node in ast.walk(tree):
            if not isinstance(fn_node, (ast.FunctionDef, ast.Lambda)):
                continue
            for n in ast.walk(fn_node):
                tgt = None
                if isinstance(n, ast.Call) and isinstance(n.func, ast.Attribute) and n.func.attr in MUTATORS:
                    tgt = n.func.value
                elif isinstance(n, (ast.Assign, ast.AugAssign, ast.Delete)):
                    ts = n.targets if not isinstance(n, ast.AugAssign) else [n.target]
                    for t in ts:
                        if isinstance(t, ast.Subscript):
                            tgt = t.value
                        elif isinstance(t, ast.Attribute) and isinstance(t.value, ast.Name) and (
                                t.value.id == 'cls' or t.value.id[:1].isupper() or t.value.id[:2] == '_C'):
                            # cls.ctr += 1 / _Cell.ctr = ...
                            for key in inv:
                                if key.startswith(rel + ':') and key.endswith('.' + t.attr):
                                    mutated.add(key)
                if isinstance(tgt, ast.Name) and f'{rel}:{tgt.id}' in inv:
                    mutated.add(f'{rel}:{tgt.id}')
                if isinstance(n, ast.Global):
                    for g in n.names:
                        if f'{rel}:{g}' in inv:
                            mutated.add(f'{rel}:{g}')
    return inv, mutated, nsattrs


def check_inventory(ctx, repo):
    inv, mutated, nsattrs = inventory(repo)
    lines = sorted(f'{k} {v}' for k, v in inv.items())
    digest = hashlib.sha256('\n'.join(lines).encode()).hexdigest()[:16]
    ctx.extra['inventory'] = dict(objects=len(inv), mutated=sorted(mutated), ns_attributes=nsattrs, digest=digest)
    for key, attrs in THREAD_LOCAL.items():
        if inv.get(key) != 'call:local':
            ctx.broke(f"tie: {key} is no longer a threading.local() ({inv.get(key)})")
        if sorted(nsattrs.get(key, [])) != sorted(attrs):
            ctx.broke(f"tie: the ns property of {key} creates {nsattrs.get(key)}, the model's namespace has {attrs}")
    for s in SINGLETONS:
        if not str(inv.get(s, '')).startswith('instance:'):
            ctx.broke(f"tie: singleton {s} not found in the inventory")
    extra = mutated - set(MUTATED_SHARED) - set(THREAD_LOCAL)
    if extra:
        ctx.broke(f"tie: module/class-level objects mutated at run time that the model's list of shared state "
                  f"does not have: {sorted(extra)}")
    fn, func, key = FUNC_META_BACKPOINTER
    tree = ast.parse(open(os.path.join(repo, 'src', 'pycel', fn)).read())
    found = any(isinstance(n, ast.Assign) and isinstance(n.targets[0], ast.Subscript)
                and isinstance(n.targets[0].slice, ast.Constant) and n.targets[0].slice.value == key
                for f in ast.walk(tree) if isinstance(f, ast.FunctionDef) and f.name == func
                for n in ast.walk(f))
    ctx.extra['inventory']['func_meta_name_space_backpointer'] = found
    if not found:
        ctx.broke("tie: apply_meta no longer stores meta['name_space'] - the shared back-pointer of finding "
                  "C07-func-meta-name-space changed; review Model/Threads.v's list of shared state")
    recorded = open(INVENTORY_FILE).read().split('\n') if os.path.exists(INVENTORY_FILE) else None
    if recorded is not None:
        recorded = [x for x in recorded if x]
        new = sorted(set(lines) - set(recorded))
        gone = sorted(set(recorded) - set(lines))
        if new or gone:
            ctx.broke(f"tie: inventory of module/class-level mutable objects changed: new {new[:8]}, gone {gone[:8]} "
                      f"(review them, then refresh harness/props/c07_inventory.txt)")
    return lines


# ------------------------------------------------------------------ workloads
class Workload:
    """kind in {'iter','plain','array'}; make() -> fresh compiler; run(comp) -> result"""

    def __init__(self, impl, kind, wb=None, target=None, it=None, tol=None, spec=None):
        self.impl, self.kind, self.wb, self.target, self.it, self.tol = impl, kind, wb, target, it, tol
        self.spec = spec or (ARRAY_MULT if kind == 'array' else None)

    def describe(self):
        if self.kind == 'array':
            return dict(self.spec, kind='array')
        return dict(kind=self.kind, workbook=self.wb.describe(), evaluate=base.addr(self.target),
                    iterations=self.it, tolerance=self.tol)

    def make(self):
        impl = self.impl
        if self.kind == 'array':
            from openpyxl.worksheet.formula import ArrayFormula
            o = impl.openpyxl.Workbook()
            ws = o.active
            ws.title = base.SHEET
            for a, v in self.spec['cells'].items():
                if ':' in a:
                    ws[a.split(':')[0]] = ArrayFormula(a, v[1:-1])       # '{=…}' entered over the range a
                else:
                    ws[a] = v
            return impl.ExcelCompiler(excel=o)
        if self.kind == 'plain':
            return impl.ExcelCompiler(excel=impl.workbook(self.wb, False))
        return impl.compiler(self.wb)

    def run(self, comp):
        if self.kind == 'array':
            out = []
            for op in self.spec['ops']:
                if op[0] == 'evaluate':
                    out.append(comp.evaluate(f'{base.SHEET}!{op[1]}'))
                else:
                    comp.set_value(f'{base.SHEET}!{op[1]}', op[2])
            return out[0] if len(out) == 1 else tuple(out)
        if self.kind == 'plain':
            return comp.evaluate(base.full(self.target))
        return comp.evaluate(base.full(self.target), iterations=self.it, tolerance=float(self.tol))

    def cells(self, comp):
        return sorted((a, base.as_q(getattr(c, '_value', c.value)) if not isinstance(c.value, tuple) else repr(c.value))
                      for a, c in comp.cell_map.items())


# the array workload of the first rounds: operators only, every precedent a constant
ARRAY_MULT = dict(cells={'A1': 1, 'A2': 2, 'B1': 3, 'B2': 4, 'C1:C2': '{=A1:A2*B1:B2}', 'D1': '=SUM(C1:C2)+A1'},
                  ops=[('evaluate', 'D1')])


def gen_array(rng):
    """A CSE array formula over C1:Cn (n = 2, 3) whose arguments are the ranges A, B (and D) of one shape;
    the cells of those ranges are constants or FORMULA cells over the inputs in column E, so that _evaluate
    entries of precedents - formulas and constants, in every order - fall inside the array formula's own
    evaluation.  The formula is an operator expression or applies a function whose lifting depends on the
    array-formula context (IFERROR, IFNA, IFS) to a range expression and a scalar or a range; G1 sums the
    members.  Operations: evaluate(G1), evaluate(C1:Cn), then - two times of three - set_value of an input
    and both evaluations again (the array formula is recalculated with part of its precedents dirty)."""
    n = rng.choice([2, 3])
    cells = {}
    for i in range(1, n + 1):
        cells[f'E{i}'] = rng.choice([1, 2, 3, 4, 6, 8])

    def column(c, p_formula, consts):
        for i in range(1, n + 1):
            if rng.random() < p_formula:
                cells[f'{c}{i}'] = rng.choice([f'=E{i}-2', f'=E{i}*2', f'=E{i}-E1', f'=4-E{i}', f'=E{i}+E{n}'])
            else:
                cells[f'{c}{i}'] = rng.choice(consts)
    column('A', rng.choice([0, 0, 0.5, 1]), [1, 2, 3, 6, 9, 12])
    column('B', rng.choice([0, 0.5, 1]), [0, 0, 1, 2, 3, 4])
    rA, rB, rD = f'A1:A{n}', f'B1:B{n}', f'D1:D{n}'
    x, y = (rA, rB) if rng.random() < 0.5 else (rB, rA)
    fallback = rng.choice(['-1', rD, rD])
    if fallback == rD:
        column('D', rng.choice([0, 0.5, 1]), [-1, -2, -3, 10, 20])
    kind = rng.choice(['iferror', 'iferror', 'ifna', 'ifs', 'ifs', 'op'])
    if kind == 'iferror':
        f = f'=IFERROR({x}/{y},{fallback})'
    elif kind == 'ifna':
        for i in range(1, n + 1):
            if rng.random() < 0.5:
                cells[f'A{i}'] = rng.choice(['=NA()', f'=IF(E{i}>2,NA(),E{i})'])
        f = f'=IFNA({rA},{fallback})' if rng.random() < 0.5 else f'=IFNA({rA}+{rB},{fallback})'
    elif kind == 'ifs':
        f = f'=IFS({y}>1,{x},TRUE,{fallback})' if rng.random() < 0.5 else f'=IFS({y}>1,{x}*2,{y}<=1,{fallback})'
    else:
        f = f'={x}*{y}+{fallback}'
    cells[f'C1:C{n}'] = '{' + f + '}'
    cells['G1'] = f'=SUM(C1:C{n})+A1'
    ops = [('evaluate', 'G1'), ('evaluate', f'C1:C{n}')]
    if rng.random() < 2 / 3:
        used = {a for a in cells if a[0] in 'ABD' and a[0] + '1:' in f} | {'A1'}      # what G1 depends on
        read = sorted({m for a in used if isinstance(cells[a], str) for m in re.findall(r'E\d', cells[a])})
        inputs = read or sorted(a for a in used if not isinstance(cells[a], str))
        if inputs:
            a = rng.choice(inputs)
            ops += [('set_value', a, rng.choice([v for v in (0, 2, 3, 5, 7) if v != cells[a]])),
                    ('evaluate', 'G1'), ('evaluate', f'C1:C{n}')]
    return dict(cells=cells, ops=ops)


class Baton:
    """B runs to completion (k=None) or to its own k-th _evaluate entry inside the j-th entry of A"""

    def __init__(self, j, k):
        self.j, self.k = j, k
        self.cv = threading.Condition()
        self.turn = 'A'
        self.cnt = {'A': 0, 'B': 0}
        self.finished = {'A': False, 'B': False}
        self.handed = self.back = False
        self.error = None

    def wait_turn(self, me):
        while self.turn != me:
            if not self.cv.wait(timeout=20):
                self.error = f'baton timeout waiting for {me}'
                raise RuntimeError(self.error)

    def gate(self, me):
        with self.cv:
            self.cnt[me] += 1
            other = 'B' if me == 'A' else 'A'
            if me == 'A' and not self.handed and self.cnt['A'] == self.j and not self.finished['B']:
                self.handed, self.turn = True, 'B'
                self.cv.notify_all()
            elif me == 'B' and not self.back and self.k is not None and self.cnt['B'] == self.k \
                    and not self.finished['A']:
                self.back, self.turn = True, 'A'
                self.cv.notify_all()
            self.wait_turn(me)
            del other

    def begin(self, me):
        with self.cv:
            self.wait_turn(me)

    def finish(self, me):
        with self.cv:
            self.finished[me] = True
            other = 'B' if me == 'A' else 'A'
            if not self.finished[other]:
                self.turn = other
            self.cv.notify_all()


def wrap(comp, hook):
    orig = comp._evaluate

    def counted(address):
        hook()
        return orig(address)
    comp._evaluate = counted


def thread_body(impl, wl, warm, out, hook_factory, begin=None, finish=None):
    def body():
        try:
            if warm:       # the thread has used the library before, with other settings
                wcomp = warm.make()
                warm.run(wcomp)
            if begin:
                begin()
            comp = wl.make()
            calls = [0]

            def hook():
                calls[0] += 1
                if hook_factory:
                    hook_factory()
            wrap(comp, hook)
            r = wl.run(comp)
            out.update(result=base.as_q(r) if not isinstance(r, tuple) else repr(r),
                       passes=impl.tracker.ns.iteration_number if wl.kind == 'iter' else None,
                       calls=calls[0], cells=wl.cells(comp),
                       ctx=list(__import__('pycel.excelutil', fromlist=['x']).in_array_formula_context.ns.ctx_addresses))
        except Exception as exc:       # noqa: BLE001
            out.update(error=f'{type(exc).__name__}: {exc}'[:200])
        finally:
            if finish:
                finish()
    return body


def solo(impl, wl, warm):
    out = {}
    t = threading.Thread(target=thread_body(impl, wl, warm, out, None))
    t.start()
    t.join(60)
    return out


def interleaved(impl, wa, wb_, j, k, warm_a, warm_b):
    bt = Baton(j, k)
    oa, ob = {}, {}
    ta = threading.Thread(target=thread_body(impl, wa, warm_a, oa, lambda: bt.gate('A'),
                                             begin=lambda: bt.begin('A'), finish=lambda: bt.finish('A')))
    tb = threading.Thread(target=thread_body(impl, wb_, warm_b, ob, lambda: bt.gate('B'),
                                             begin=lambda: bt.begin('B'), finish=lambda: bt.finish('B')))
    ta.start()
    tb.start()
    ta.join(60)
    tb.join(60)
    return oa, ob


class Relay:
    """Any number of threads under an explicit plan.  A segment (p, c) lets thread p pass c of its
    pre-emption points (the start of the operation and the entries of _evaluate: c steps of the model's
    machine), then the next segment's thread runs; segments of finished threads are skipped.  The plan ends
    with one unbounded segment per thread, so every thread runs to completion."""

    def __init__(self, names, segments):
        self.cv = threading.Condition()
        self.names = list(names)
        self.segs = [list(s) for s in segments]
        self.finished = {n: False for n in self.names}
        self.error = None
        self.turn = None
        self.switches = 0
        with self.cv:
            self._advance()

    def _advance(self):
        while self.segs and (self.segs[0][1] <= 0 or self.finished[self.segs[0][0]]):
            self.segs.pop(0)
        new = self.segs[0][0] if self.segs else next((n for n in self.names if not self.finished[n]), None)
        if new != self.turn and self.turn is not None and not self.finished[self.turn]:
            self.switches += 1          # a thread was pre-empted in the middle of its operation
        self.turn = new
        self.cv.notify_all()

    def wait_turn(self, me):
        while self.turn != me:
            if not self.cv.wait(timeout=20):
                self.error = f'relay timeout waiting for {me}'
                raise RuntimeError(self.error)

    def gate(self, me):
        with self.cv:
            if self.segs and self.segs[0][0] == me:
                self.segs[0][1] -= 1
                if self.segs[0][1] <= 0:
                    self._advance()
            self.wait_turn(me)

    def begin(self, me):
        with self.cv:
            self.wait_turn(me)

    def finish(self, me):
        with self.cv:
            self.finished[me] = True
            self._advance()


def interleaved_n(impl, wls, segments, warm):
    relay = Relay(range(len(wls)), segments)
    outs = [{} for _ in wls]
    ths = [threading.Thread(target=thread_body(impl, w, warm, outs[p], (lambda p=p: relay.gate(p)),
                                               begin=(lambda p=p: relay.begin(p)),
                                               finish=(lambda p=p: relay.finish(p))))
           for p, w in enumerate(wls)]
    for t in ths:
        t.start()
    for t in ths:
        t.join(60)
    return outs, relay


# ------------------------------------------------------------------ model side
def model_call_n(ws, segments):
    cells = [base.model_args(w.wb, [])[0] for w in ws]
    kinds = [[0, w.target, w.it, base.enc_q(w.tol)] for w in ws]
    sched = [p for p, c in segments for _ in range(min(c, 400))]
    return ('schedn', [cells, kinds, sched, 0])


def model_call(wa, wb_, j, k, shared):
    def cells(w):
        return base.model_args(w.wb, [])[0]

    def kind(w):
        return [0, w.target, w.it, base.enc_q(w.tol)]
    sched = [0] * j + [1] * (k if k is not None else 400) + [0] * 400 + [1] * 400
    return ('sched', [cells(wa), cells(wb_), kind(wa), kind(wb_), sched, 1 if shared else 0])


def dec_mach(x):
    phase = {0: 'init', 1: 'call', 2: 'done', 3: 'fail', 4: 'missing'}[x[0][0]]
    return dict(phase=phase, result=base.dec_v(x[1]), passes=x[2], calls=x[3], fit=x[4],
                exc=base.EXN.get(x[0][1]) if phase == 'fail' else None)


# ------------------------------------------------------------------ fresh threads
def fresh_thread_ops(ctx, impl):
    """load / set_value / evaluate / trim_graph on threads that never used the library"""
    rng = ctx.rng
    wb = base.WB([dict(stored=None, formula=None) for _ in range(base.NCELL)], [], 'cyclic', False)
    wb.cells[0] = dict(stored=None, formula=(Fr(1), [(0, Fr(1, 2), 1)]))
    wb.cells[1] = dict(stored=None, formula=(Fr(2), [(0, Fr(1, 2), 0), (0, Fr(1, 4), 2)]))
    wb.cells[2] = dict(stored=Fr(3), formula=None)
    comp = impl.compiler(wb)
    comp.evaluate(base.full(0), iterations=100, tolerance=1 / 1024)
    stem = os.path.join(ctx.work, 'c07-model')
    comp.to_file(stem, file_types=('yml',))
    ops = {
        'from_file': lambda: impl.ExcelCompiler.from_file(stem + '.yml'),
        'from_file+evaluate': lambda: impl.ExcelCompiler.from_file(stem + '.yml').evaluate(
            base.full(0), iterations=100, tolerance=1 / 1024),
        'set_value': lambda: comp.set_value(base.full(2), float(rng.randrange(5, 50))),
        'evaluate': lambda: impl.compiler(wb).evaluate(base.full(1), iterations=5, tolerance=0.5),
        'trim_graph': lambda: impl.compiler(wb).trim_graph([base.full(2)], [base.full(0)]),
        'plain evaluate': lambda: impl.ExcelCompiler(excel=impl.workbook(wb, False)).evaluate(base.full(2)),
    }
    for name, op in ops.items():
        out = {}

        def body(op=op, out=out):
            try:
                op()
                out['ok'] = True
            except Exception as exc:      # noqa: BLE001
                out['error'] = f'{type(exc).__name__}: {exc}'[:200]
        t = threading.Thread(target=body)
        t.start()
        t.join(60)
        ctx.count(('fresh', name), kind=f'fresh-thread:{name}')
        if 'error' in out:
            ctx.violation(dict(call=name, args=['thread that never used the library', wb.describe()]),
                          f"{name} on a brand-new thread raises {out['error']}", impl=out['error'],
                          expected='works as on a warmed-up thread')


FRESH_VALUE_FORMULAS = [
    '=ROUND(A1,0)', '=ROUND(A2,2)', '=ROUND(A3,0)', '=ROUND(A4,1)', '=ROUND(A5,0)', '=ROUND(A1*A3,0)', '=ROUNDUP(A2,2)',
    '=ROUNDDOWN(A3,0)', '=MROUND(A1,1)', '=INT(A3)', '=TRUNC(A2,2)', '=CEILING(A1,1)', '=FLOOR(A3,1)', '=TEXT(A1,"0")',
    '=TEXT(A2,"0.00")', '=FIXED(A2,2)', '=A1&""', '=A2*3', '=SUM(A1:A5)', '=AVERAGE(A1:A5)', '=A1/3', '=A1^0.5',
    '=DATE(2020,2,A6)', '=YEAR(A7)', '=EDATE(A7,1)', '=YEARFRAC(A7,A7+365,1)', '=DEC2BIN(A6)', '=HEX2DEC("FF")',
    '=VLOOKUP(A6,A1:B7,2,FALSE)', '=MATCH(A6,A1:A7,0)', '=SUMIF(A1:A7,">1")', '=COUNTIF(A1:A7,"<0")', '=LEFT(A8,2)',
    '=FIND("b",A8)', '=SUBSTITUTE(A8,"b","x")', '=IF(A1>2,"big","small")', '=IFERROR(1/0,A1)', '=SUMPRODUCT(A1:A5,A1:A5)',
]
FRESH_VALUE_INPUTS = [[2.5, 0.125, -4.5, 0.25, 6.5, 29, 43831, 'abcb'], [0.5, 2.675, -0.5, 0.35, 1.5, 9, 36526, 'bab'],
                      [3.5, 1.005, -2.5, 0.45, 8.5, 12, 2, 'xyz']]


def fresh_thread_values(ctx, impl):
    """A workbook of value functions (rounding ties, TEXT, dates, radix, lookups, text) evaluated on this thread and
    on a thread that never used the library: every cell has the same value (class and repr).  Seeded change
    C07-decimal-context-import-thread: the decimal rounding mode set once at import, i.e. for the importing thread only."""
    import openpyxl
    for n, inputs in enumerate(FRESH_VALUE_INPUTS):
        def build():
            owb = openpyxl.Workbook()
            ws = owb.active
            ws.title = 'S'
            for r, v in enumerate(inputs, 1):
                ws[f'A{r}'] = v
                ws[f'B{r}'] = r * 10
            for r, f in enumerate(FRESH_VALUE_FORMULAS, 1):
                ws[f'D{r}'] = f
            return owb
        addrs = [f'S!D{r}' for r in range(1, len(FRESH_VALUE_FORMULAS) + 1)]

        def evaluate_all(out):
            comp = impl.ExcelCompiler(excel=build())
            for a in addrs:
                try:
                    v = comp.evaluate(a)
                    out[a] = f'{type(v).__name__}:{v!r}'
                except Exception as exc:      # noqa: BLE001
                    out[a] = f'raises {type(exc).__name__}'
        here, there = {}, {}
        evaluate_all(here)
        t = threading.Thread(target=evaluate_all, args=(there,))
        t.start()
        t.join(120)
        for a, f in zip(addrs, FRESH_VALUE_FORMULAS):
            ctx.count(('fresh-values', n, a), kind='fresh-thread:values')
            if here.get(a) != there.get(a):
                ctx.violation(dict(call='fresh-thread-values', formula=f, inputs=inputs,
                                   args=['thread that never used the library']),
                              "a formula evaluates differently on a brand-new thread", impl=there.get(a),
                              expected=here.get(a))


@__import__('harness.common', fromlist=['known_predicate']).known_predicate('C07-func-meta-name-space')
def _k_backpointer(case):
    """apply_meta stores the namespace of the formula that loaded a function last in the function's own
    excel_func_meta dict; CELL / INDEX over a reference evaluate cells through it, i.e. through whichever
    compiler loaded the function last."""
    return case.get('call') == 'reference-function-interleave'


def backpointer_probe(ctx, impl):
    """two compilers whose formulas call CELL("contents", <reference>): thread A evaluates, thread B
    (another workbook) evaluates, thread A recomputes after a write - and must see its own cells"""
    def mk(v):
        o = impl.openpyxl.Workbook()
        ws = o.active
        ws.title = base.SHEET
        ws['A1'], ws['A2'], ws['B1'] = v, v * 10, '=CELL("contents",OFFSET(A1,1,0))+A1'
        return impl.ExcelCompiler(excel=o)

    def scenario(with_b):
        out = {}
        a = mk(1)
        ev = threading.Event()
        ev2 = threading.Event()

        def ta():
            out['first'] = a.evaluate(f'{base.SHEET}!B1')
            ev.set()
            ev2.wait(20)
            a.set_value(f'{base.SHEET}!A1', 3)
            out['second'] = a.evaluate(f'{base.SHEET}!B1')

        def tb():
            ev.wait(20)
            if with_b:
                out['b'] = mk(2).evaluate(f'{base.SHEET}!B1')
            ev2.set()
        ts = [threading.Thread(target=ta), threading.Thread(target=tb)]
        [t.start() for t in ts]
        [t.join(60) for t in ts]
        return out
    alone, both = scenario(False), scenario(True)
    ctx.count(('backpointer',), kind='reference-function:CELL')
    case = dict(call='reference-function-interleave',
                args=[{'A1': 'v', 'A2': '10*v', 'B1': '=CELL("contents",OFFSET(A1,1,0))+A1'},
                      'thread A: v=1, evaluate(B1), [thread B: v=2, evaluate(B1)], set_value(A1,3), evaluate(B1)'])
    if (both.get('first'), both.get('second')) != (alone.get('first'), alone.get('second')):
        ctx.violation(case, f"thread A computes {both.get('second')} after thread B evaluated its own workbook, "
                      f"{alone.get('second')} when run alone", impl=both, expected=alone)


# ------------------------------------------------------------------ the run
def gen_workloads(ctx, impl):
    rng = ctx.rng
    out = []
    while len(out) < ctx.n(40, 120):
        r = rng.random()
        if r < 0.5:
            wb = base.gen_cyclic(rng, True)
            if wb.ranges:
                continue
            formulas = [i for i, c in enumerate(wb.cells) if c['formula']]
            out.append(Workload(impl, 'iter', wb, rng.choice(formulas), rng.choice(base.ITS),
                                rng.choice(base.TOLS)))
        elif r < 0.72:
            wb = base.gen_acyclic(rng)
            formulas = [i for i, c in enumerate(wb.cells) if c['formula']]
            out.append(Workload(impl, 'plain', wb, rng.choice(formulas)))
        elif r < 0.76:
            out.append(Workload(impl, 'array'))
        else:
            out.append(Workload(impl, 'array', spec=gen_array(rng)))
    return out


def run(ctx):
    from harness.common import REPO
    ensure_impl_on_path()
    logging.disable(logging.CRITICAL)
    impl = base.Impl()
    rng = ctx.rng
    ctx.extra['rule'] = (
        "pairs of workloads from {iterative contracting circular system (C06 generator, no ranges), plain acyclic "
        "workbook on a non-iterative compiler, CSE array formula - an operator expression or IFERROR/IFNA/IFS over "
        "ranges whose cells are constants or formula cells, evaluated, an input rewritten, evaluated again -} on two "
        "real threads; B runs to completion or to "
        "its own k-th _evaluate entry inside the j-th _evaluate entry of A, (j, k) sampled (thorough: all) up to the "
        "workload lengths; threads fresh or warmed up by another iterative evaluation with other settings; a case is "
        "a distinct (workload A, workload B, j, k, fresh/warm); plus 3 or 4 workloads on as many real threads under "
        "a relay: every thread is stopped inside its operation before the next starts (nested pre-emption), then "
        "random short turns, then completion in a random order - each thread must equal its solo run, all-iterative "
        "tuples are also run by the extracted model (schedn) under the same schedule; plus every public operation on a brand-new thread "
        "and the static inventory of module/class-level mutable objects")
    check_inventory(ctx, REPO)
    fresh_thread_ops(ctx, impl)
    fresh_thread_values(ctx, impl)
    backpointer_probe(ctx, impl)
    wls = gen_workloads(ctx, impl)
    warm_wl = Workload(impl, 'iter', wls[0].wb if wls[0].kind == 'iter' else
                       next(w for w in wls if w.kind == 'iter').wb, None, 7, Fr(1, 2))
    warm_wl.target = next(i for i, c in enumerate(warm_wl.wb.cells) if c['formula'])
    solos = {}
    for idx, w in enumerate(wls):
        solos[idx] = solo(impl, w, None)
        if 'error' in solos[idx]:
            ctx.violation(dict(call='evaluate', args=[w.describe()]), f"solo run raises {solos[idx]['error']}")
    budget = ctx.n(2500, 20000)
    model_calls, model_cases = [], []
    done = 0
    pairs = [(a, b) for a in range(len(wls)) for b in range(len(wls)) if a != b]
    rng.shuffle(pairs)
    for a, b in pairs:
        if done >= budget:
            break
        wa, wb_ = wls[a], wls[b]
        if 'error' in solos[a] or 'error' in solos[b]:
            continue
        na, nb = solos[a]['calls'], solos[b]['calls']
        jk = [(j, k) for j in range(1, na + 1) for k in [None] + list(range(1, nb + 1))]
        if ctx.tier != 'thorough':
            rng.shuffle(jk)
            jk = jk[:6]
        for j, k in jk:
            warm = rng.random() < 0.5
            oa, ob = interleaved(impl, wa, wb_, j, k, warm_wl if warm else None, warm_wl if warm else None)
            done += 1
            case = dict(call='interleave', args=[wa.describe(), wb_.describe(), j, k, 'warm' if warm else 'fresh'])
            ctx.count((a, b, j, k, warm), kind=f"{wa.kind}x{wb_.kind}:{'warm' if warm else 'fresh'}",
                      sample=dict(case, A=oa.get('result'), B=ob.get('result')))
            for name, got, want in (('A', oa, solos[a]), ('B', ob, solos[b])):
                if got != want:
                    diff = {key: (got.get(key), want.get(key)) for key in set(got) | set(want)
                            if got.get(key) != want.get(key)}
                    ctx.violation(case, f"thread {name} differs from its solo run in {sorted(diff)}",
                                  impl={k2: v[0] for k2, v in diff.items()},
                                  expected={k2: v[1] for k2, v in diff.items()})
            if wa.kind == 'iter' and wb_.kind == 'iter' and ctx.model:
                model_calls.append(model_call(wa, wb_, j, k, False))
                model_calls.append(model_call(wa, wb_, j, k, True))
                model_cases.append((case, oa, ob))
    # ---- three or four threads, nested pre-emption (C07_n_threads, C07_serializable, C07_result_alone)
    good = [i for i in range(len(wls)) if 'error' not in solos[i]]
    iters = [i for i in good if wls[i].kind == 'iter']
    n_calls, n_cases, n_switches = [], [], 0
    for _ in range(ctx.n(120, 1500) if len(good) >= 4 else 0):
        m = 3 if rng.random() < 0.75 else 4
        idxs = rng.sample(iters, m) if (rng.random() < 0.4 and len(iters) >= m) else rng.sample(good, m)
        order = rng.sample(range(m), m)
        # every thread is stopped in the middle of its operation before the next one starts ...
        segs = [(p, rng.randint(1, solos[idxs[p]]['calls'])) for p in order]
        # ... then a few short turns, then each thread runs to completion
        segs += [(rng.randrange(m), rng.randint(1, 3)) for _ in range(rng.randint(0, 6))]
        segs += [(p, 10 ** 6) for p in rng.sample(range(m), m)]
        warm = rng.random() < 0.5
        ws = [wls[i] for i in idxs]
        outs, relay = interleaved_n(impl, ws, segs, warm_wl if warm else None)
        n_switches += relay.switches
        case = dict(call='interleave_n', args=[[w.describe() for w in ws], [list(x) for x in segs],
                                               'warm' if warm else 'fresh'])
        ctx.count(('n', tuple(idxs), tuple(segs), warm), kind=f"{m} threads:{'warm' if warm else 'fresh'}",
                  sample=dict(case, results=[o.get('result') for o in outs]))
        if relay.error:
            ctx.violation(case, relay.error)
        for p, i in enumerate(idxs):
            if outs[p] != solos[i]:
                diff = {key: (outs[p].get(key), solos[i].get(key)) for key in set(outs[p]) | set(solos[i])
                        if outs[p].get(key) != solos[i].get(key)}
                ctx.violation(case, f"thread {p} of {m} differs from its solo run in {sorted(diff)}",
                              impl={k2: v[0] for k2, v in diff.items()},
                              expected={k2: v[1] for k2, v in diff.items()})
        if all(w.kind == 'iter' for w in ws) and ctx.model:
            n_calls.append(model_call_n(ws, segs))
            n_cases.append((case, outs))
    ctx.extra['n_thread_preemptions'] = n_switches
    if n_calls:
        res = ctx.model.batch(n_calls)
        for (case, outs), r in zip(n_cases, res):
            local = [dec_mach(x) for x in r]
            if any(mm['phase'] == 'fail' and mm['exc'] in ('Unmodelled', 'OutOfFuel') for mm in local):
                ctx.histogram['unmodelled'] = ctx.histogram.get('unmodelled', 0) + 1
                continue
            if not all(mm['result'] is None or (abs(mm['result'].numerator) < 2 ** 48
                                                and mm['result'].denominator <= 2 ** 48) for mm in local):
                ctx.histogram['inexact-skipped'] = ctx.histogram.get('inexact-skipped', 0) + 1
                continue
            for p, (got, mm) in enumerate(zip(outs, local)):
                mine = dict(result=mm['result'], passes=mm['passes'], calls=mm['calls'])
                theirs = dict(result=got.get('result'), passes=got.get('passes'), calls=got.get('calls'))
                if mm['phase'] != 'done' or mine != theirs:
                    ctx.divergence(dict(case, thread=p), theirs, dict(mine, phase=mm['phase']),
                                   'Model/Threads.v run of n threads (schedn) = real threads under the relay')
    ctx.extra['model_schedules_n'] = len(n_cases)
    # ---- the extracted model under the same schedules
    shared_differs = 0
    if model_calls:
        res = ctx.model.batch(model_calls)
        for idx, (case, oa, ob) in enumerate(model_cases):
            local = [dec_mach(x) for x in res[2 * idx]]
            shared = [dec_mach(x) for x in res[2 * idx + 1]]
            if any(m['phase'] == 'fail' and m['exc'] in ('Unmodelled', 'OutOfFuel') for m in local):
                ctx.histogram['unmodelled'] = ctx.histogram.get('unmodelled', 0) + 1
                continue
            if not all(m['result'] is None or (abs(m['result'].numerator) < 2 ** 48 and m['result'].denominator
                                               <= 2 ** 48) for m in local):
                ctx.histogram['inexact-skipped'] = ctx.histogram.get('inexact-skipped', 0) + 1
                continue        # the implementation's floats were not exact: nothing to compare bit for bit
            for name, got, m in (('A', oa, local[0]), ('B', ob, local[1])):
                mine = dict(result=m['result'], passes=m['passes'], calls=m['calls'])
                theirs = dict(result=got.get('result'), passes=got.get('passes'), calls=got.get('calls'))
                if m['phase'] != 'done' or mine != theirs:
                    ctx.divergence(dict(case, thread=name), theirs, dict(mine, phase=m['phase']),
                                   'Model/Threads.v run (thread-local namespaces) = real threads under the baton')
            if [(m['result'], m['passes']) for m in shared] != [(m['result'], m['passes']) for m in local]:
                shared_differs += 1
    ctx.extra['model_schedules'] = len(model_cases)
    ctx.extra['shared_namespace_variant_differs_on'] = shared_differs
    if model_cases and shared_differs == 0:
        ctx.broke("tie: the shared-namespace variant of the model never differed from the thread-local one: "
                  "the schedules do not exercise the namespaces")
