"""C14 — aggregates over ranges: correspondence (generated _numerics / sum_ /
average / count / max_ / min_, hand-written sumproduct and SUBTOTAL dispatch vs
the real functions and real formulas on workbooks) and the property's oracle
evaluated directly on the implementation."""
import fractions
import itertools
import re

from harness.common import (canon, dec_res, dec_val, enc_val, ensure_impl_on_path, known_predicate,
                            run_impl, same)

GEN_MODULES = ['excelutil', 'aggregates', 'stats', 'excelformula']
EXTRA_TARGETS = ('Proofs/C14.vo',)

ERRORS = ['#NULL!', '#DIV/0!', '#VALUE!', '#REF!', '#NAME?', '#NUM!', '#N/A']
NUMTEXT = ['3', '-1.5', '1e2', ' 7 ', '0', '12']
TEXT = ['', 'a', 'abc', 'TRUE', 'x y', 'é']
AGGS = ['sum_', 'average', 'count', 'max_', 'min_']
SUBTOTAL = {1: 'average', 2: 'count', 4: 'max_', 5: 'min_', 9: 'sum_'}      # the property's five
EXCEL_NAME = {'sum_': 'SUM', 'average': 'AVERAGE', 'count': 'COUNT', 'max_': 'MAX', 'min_': 'MIN'}

EXPLANATION = (
    "Theorems (coq/Props/C14.v) are stated on the functions regenerated from excellib.py / lib/stats.py "
    "(Gen/aggregates.v, Gen/stats.v) for all argument lists; SUMPRODUCT and the SUBTOTAL dispatch are "
    "hand-modelled (Model/Aggregates.v) on top of the generated error scan, is_array_arg, coerce_to_number "
    "and SUBTOTAL_FUNCS table and tied by this differential run.  The property's clause that COUNT returns "
    "the first error is refuted by the model (coq/Refuted/C14_count_error.v) and reported by the oracle as "
    "known finding C14-count-ignores-errors.")

ASSUMPTIONS = [
    "exact arithmetic: numeric cells are integers below 2^26 or dyadic fractions k/2^j (j <= 12) — for "
    "SUMPRODUCT (up to three factors) |x| < 2^10 and j <= 3 — so every float operation of the implementation is exact "
    "and results are compared bit for bit; AVERAGE's single division is one correctly rounded operation",
    "numpy's int64 wrap-around in SUMPRODUCT is not modelled (the model's integers are unbounded); products "
    "beyond 2^63 are judged by the property's oracle only",
    "cells are scalars (None = blank, logicals, numbers, text, error codes); arguments are rectangular "
    "tuples of row tuples or scalars, as pycel's compiled formulas pass them",
]


# ------------------------------------------------------------------ values
def F(x):
    return fractions.Fraction(x)


def is_num(x):
    return isinstance(x, (int, float)) and not isinstance(x, bool)


def is_err(x):
    return isinstance(x, str) and x in ERRORS


def flat(args):
    """Row-major cells of a tuple of arguments (rectangles or scalars)."""
    out = []
    for a in args:
        if isinstance(a, tuple):
            out.extend(flat(a))
        else:
            out.append(a)
    return out


def num_cell(ctx, small=False):
    r = ctx.rng.random()
    if small:
        if r < 0.6:
            return ctx.rng.randrange(-2 ** 10, 2 ** 10) if r < 0.3 else ctx.rng.randrange(-20, 20)
        if r < 0.8:
            return float(ctx.rng.randrange(-100, 100))
        return ctx.rng.randrange(-2 ** 10, 2 ** 10) / 2 ** ctx.rng.randrange(1, 4)
    if r < 0.3:
        return ctx.rng.randrange(-20, 20)
    if r < 0.55:
        return ctx.rng.randrange(-2 ** 26, 2 ** 26)
    if r < 0.7:
        return float(ctx.rng.randrange(-1000, 1000))
    return ctx.rng.randrange(-2 ** 20, 2 ** 20) / 2 ** ctx.rng.randrange(1, 13)


def cell(ctx, perr, small=False, pnum=0.5):
    r = ctx.rng.random()
    if r < perr:
        return ctx.rng.choice(ERRORS)
    r = ctx.rng.random()
    if r < pnum:
        return num_cell(ctx, small)
    k = ctx.rng.randrange(4)
    if k == 0:
        return ctx.rng.choice(NUMTEXT)
    if k == 1:
        return ctx.rng.choice(TEXT)
    if k == 2:
        return ctx.rng.random() < 0.5
    return None


def rect(ctx, r, c, perr, small=False, pnum=0.5):
    return tuple(tuple(cell(ctx, perr, small, pnum) for _ in range(c)) for _ in range(r))


def shape_cells(cells, r, c):
    assert len(cells) == r * c
    return tuple(tuple(cells[i * c:(i + 1) * c]) for i in range(r))


def factorisations(n):
    return [(r, n // r) for r in range(1, n + 1) if n % r == 0]


def value_of(res):
    """('num', Fraction) for a numeric outcome, else the outcome itself."""
    if res[0] == 'ok':
        v = res[1]
        if isinstance(v, tuple) and len(v) == 2 and v[0] == 'float' and isinstance(v[1], fractions.Fraction):
            return ('num', v[1])
        if isinstance(v, int) and not isinstance(v, bool):
            return ('num', fractions.Fraction(v))
    return res


def num_same(a, b):
    """Same outcome, numbers compared by value (Excel has one number type)."""
    return value_of(a) == value_of(b)


def expected(name, cells):
    """The property's statement for one aggregate over the cells (row-major):
    ('num', Fraction) | ('ok', error text).  Written independently of pycel."""
    errs = [x for x in cells if is_err(x)]
    if errs:
        return ('ok', errs[0])
    nums = [F(x) for x in cells if is_num(x)]
    if name == 'count':
        return ('num', F(len(nums)))
    if name == 'sum_':
        return ('num', sum(nums, F(0)))
    if name == 'average':
        return ('num', sum(nums, F(0)) / len(nums)) if nums else ('ok', '#DIV/0!')
    if name == 'max_':
        return ('num', max(nums)) if nums else ('num', F(0))
    if name == 'min_':
        return ('num', min(nums)) if nums else ('num', F(0))
    raise KeyError(name)


def meets(name, res, want):
    """Implementation outcome res meets the expectation; AVERAGE's quotient is
    the correctly rounded double of the exact quotient."""
    got = value_of(res)
    if got == want:
        return True
    if name == 'average' and want[0] == 'num' and got[0] == 'num':
        try:
            return F(float(want[1])) == got[1]
        except OverflowError:
            return False
    return False


# ------------------------------------------------------- known-finding hooks
@known_predicate('C14-count-ignores-errors')
def _kp_count_errors(case):
    """COUNT over cells that hold an error value returns the count of the
    numeric cells instead of the first error (the property lists COUNT among
    the aggregates that return the first error present)."""
    return case.get('oracle') == 'first-error' and case.get('call') in ('count', 'COUNT', 'SUBTOTAL-count') \
        and case.get('returned_numeric_count') is True


def returned_numeric_count(im, cells):
    """the implementation answered exactly the number of numeric cells (what the known finding is about)"""
    return value_of(im) == ('num', F(len([x for x in cells if is_num(x)])))


@known_predicate('C14-sumproduct-int64-wrap')
def _kp_sumproduct_wrap(case):
    """SUMPRODUCT over ranges of integers multiplies in numpy int64: a product
    or sum beyond 2^63 wraps around silently."""
    if case.get('call') != 'sumproduct' or case.get('oracle') != 'sum-of-products':
        return False
    args = case.get('args', [])
    if not args or not all(isinstance(a, (tuple, list)) for a in args):
        return False
    vecs = [[x if is_num(x) else 0 for x in flat((tuple(map(tuple, a)),))] for a in args]
    if any(isinstance(x, float) for v in vecs for x in v):
        return False
    prods = [1] * len(vecs[0])
    for v in vecs:
        prods = [p * x for p, x in zip(prods, v)]
        if any(abs(p) >= 2 ** 63 for p in prods):
            return True
    return abs(sum(prods)) >= 2 ** 63


@known_predicate('C14-sumproduct-blank-single-cell')
def _kp_sumproduct_blank_cell(case):
    """=SUMPRODUCT over 1 x 1 ranges: pycel compiles a 1 x 1 range to a cell
    reference, sumproduct's all-scalars branch keeps a blank as None and
    math.prod raises TypeError -> #VALUE! (the property: non-numbers count as 0)."""
    if case.get('call') != 'SUMPRODUCT' or case.get('oracle') != 'sum-of-products':
        return False
    rcs = case['args'][1]
    used = rcs[:case['args'][0].count(':')]
    return all(len(rc) == 1 and len(rc[0]) == 1 for rc in used) and any(rc[0][0] is None for rc in used)


# ------------------------------------------------------------------ the run
def run(ctx):
    ensure_impl_on_path()
    from pycel.lib.function_helpers import apply_meta
    import pycel.excellib as xl
    import pycel.lib.stats as st
    impl = {}
    for mod, names in ((xl, ['sum_', 'sumproduct']), (st, ['average', 'count', 'max_', 'min_'])):
        for n in names:
            impl[n] = apply_meta(getattr(mod, n), name_space={})[0]
    numerics = xl._numerics

    ctx.extra['rule'] = (
        "argument lists of 1-3 rectangles r x c (1 <= r, c <= 5; every shape) and occasional scalars over a "
        "pool of numbers (ints below 2^26, integral and dyadic floats), numeric text, text, logicals, blanks "
        "and the seven error codes (error density 0, 5% or 30% per case); for every case the five aggregates "
        "and _numerics, a random permutation of the cells keeping the first error, a random reshape / "
        "partition into other rectangles, and a two-part split for additivity; SUMPRODUCT over 1-3 equally "
        "shaped rectangles, unequal shapes, scalars; SUBTOTAL(n, ...) for every literal n through "
        "ExcelFormula.python_code; and a sample of cases through real formulas on openpyxl workbooks "
        "(ExcelCompiler.evaluate).  distinct = distinct (function, arguments) pair")

    batch = []      # (entry, [sexp], case, impl_result, relation)

    def tie(entry, margs, case, im, relation):
        batch.append((entry, margs, case, im, relation))

    def check_agg(name, args, kind, cells=None, record=True):
        """One aggregate call: correspondence + the statement on the implementation."""
        im = run_impl(impl[name], *args)
        case = dict(call=name, args=list(args))
        ctx.count((name, repr(args)), kind=kind, sample=dict(case, impl=im) if record else None)
        tie(name, [enc_val(tuple(args))], case, im, f'Gen {name} = {name}')
        cells = flat(args) if cells is None else cells
        want = expected(name, cells)
        if not meets(name, im, want):
            errs = [x for x in cells if is_err(x)]
            if errs:
                ctx.violation(dict(case, oracle='first-error', returned_numeric_count=returned_numeric_count(im, cells)),
                              f"{EXCEL_NAME[name]} does not return the first error value present",
                              impl=im, expected=want)
            else:
                ctx.violation(dict(case, oracle='numeric-only'),
                              f"{EXCEL_NAME[name]} is not the aggregate of exactly the numeric cells",
                              impl=im, expected=want)
        if name in ('max_', 'min_') and im[0] == 'ok' and want[0] == 'num':
            nums = [F(x) for x in cells if is_num(x)]
            got = value_of(im)
            if nums and got[0] == 'num':
                if got[1] not in nums:
                    ctx.violation(dict(case, oracle='attained'), f"{EXCEL_NAME[name]} is not one of the cells",
                                  impl=im)
                if name == 'max_' and any(x > got[1] for x in nums) or \
                        name == 'min_' and any(x < got[1] for x in nums):
                    ctx.violation(dict(case, oracle='bounding'), f"{EXCEL_NAME[name]} does not bound the cells",
                                  impl=im)
        return im

    # ---------------------------------------------------------- aggregates
    shapes = [(r, c) for r in range(1, 6) for c in range(1, 6)]
    ncases = ctx.n(3000, 20000)
    for i in range(ncases):
        perr = ctx.rng.choice((0, 0, 0, 0.05, 0.3))
        pnum = ctx.rng.choice((0.5, 0.5, 0.8, 0.1, 0.0)) if ctx.rng.random() < 0.3 else 0.5
        k = ctx.rng.choice((1, 1, 1, 2, 2, 3))
        args = []
        for _ in range(k):
            r, c = shapes[(i + len(args) * 7) % 25] if len(args) == 0 else ctx.rng.choice(shapes)
            args.append(rect(ctx, r, c, perr, pnum=pnum))
        if ctx.rng.random() < 0.15:
            args.insert(ctx.rng.randrange(len(args) + 1), cell(ctx, perr))
        args = tuple(args)
        cells = flat(args)
        res = {}
        for name in AGGS:
            res[name] = check_agg(name, args, name, cells)
        # _numerics itself, both keep_bools settings
        for kb in (False, True):
            im = run_impl(lambda *a: numerics(*a, keep_bools=kb), *args)       # noqa: B023
            case = dict(call='_numerics', args=[kb] + list(args))
            ctx.count(('_numerics', kb, repr(args)), kind='_numerics')
            tie('_numerics', [enc_val(kb), enc_val(args)], case, im, 'Gen _numerics = _numerics')
            errs = [x for x in cells if is_err(x)]
            want = ('ok', errs[0]) if errs else \
                ('ok', tuple(canon(x) for x in cells
                             if (is_num(x) or (kb and isinstance(x, bool)))))
            if im != want:
                ctx.violation(dict(case, oracle='numeric-filter'),
                              "_numerics is not (first error | the numeric cells in order)", impl=im, expected=want)
        # AVERAGE = SUM / COUNT on the implementation's own results
        if not any(is_err(x) for x in cells):
            s, n, a = value_of(res['sum_']), value_of(res['count']), res['average']
            case = dict(call='average', args=list(args), oracle='sum/count')
            if s[0] == 'num' and n[0] == 'num':
                if n[1] == 0:
                    if a != ('ok', '#DIV/0!'):
                        ctx.violation(case, "AVERAGE of nothing numeric is not #DIV/0!", impl=a, expected='#DIV/0!')
                elif not meets('average', a, ('num', s[1] / n[1])):
                    ctx.violation(case, "AVERAGE is not SUM/COUNT", impl=a, expected=(s, n))
                if (a == ('ok', '#DIV/0!')) != (n[1] == 0):
                    ctx.violation(case, "AVERAGE is #DIV/0! although a cell is numeric (or the converse)", impl=a)
            else:
                ctx.violation(case, "SUM or COUNT of error-free cells is not a number", impl=(s, n))
        # permutation keeping the first error + reshape into other rectangles
        perm = list(cells)
        ctx.rng.shuffle(perm)
        errs = [x for x in cells if is_err(x)]
        if errs:
            j = next(idx for idx, x in enumerate(perm) if is_err(x))
            if perm[j] != errs[0]:
                j2 = next(idx for idx, x in enumerate(perm) if x == errs[0])
                perm[j], perm[j2] = perm[j2], perm[j]
        n = len(perm)
        # partition the permuted cells into 1-3 consecutive blocks, each shaped as a rectangle
        cuts = sorted(set(ctx.rng.randrange(1, n) for _ in range(ctx.rng.randrange(0, 3)))) if n > 1 else []
        blocks, prev = [], 0
        for cpos in cuts + [n]:
            blk = perm[prev:cpos]
            prev = cpos
            r, c = ctx.rng.choice(factorisations(len(blk)))
            blocks.append(shape_cells(blk, r, c))
        pargs = tuple(blocks)
        for name in AGGS:
            im2 = check_agg(name, pargs, 'perm/reshape', perm, record=False)
            if not num_same(res[name], im2):
                ctx.violation(dict(call=name, args=[list(args), list(pargs)], oracle='perm-reshape'),
                              f"{EXCEL_NAME[name]} changes under a permutation/reshape of the cells",
                              impl=(res[name], im2))
        # pure reshape: same cells in the same order, other rectangle
        r, c = ctx.rng.choice(factorisations(len(cells)))
        rargs = (shape_cells(cells, r, c),)
        for name in AGGS:
            im3 = check_agg(name, rargs, 'reshape', cells, record=False)
            if not num_same(res[name], im3):
                ctx.violation(dict(call=name, args=[list(args), list(rargs)], oracle='reshape'),
                              f"{EXCEL_NAME[name]} changes under reshaping", impl=(res[name], im3))
        # additivity over a two-part partition (error-free)
        if not errs and n >= 2:
            cpos = ctx.rng.randrange(1, n)
            a1, a2 = (tuple(cells[:cpos]),), (tuple(cells[cpos:]),)
            s1 = check_agg('sum_', (a1,), 'additive', record=False)
            s2 = check_agg('sum_', (a2,), 'additive', record=False)
            s12 = check_agg('sum_', (a1, a2), 'additive', record=False)
            v1, v2, v12 = value_of(s1), value_of(s2), value_of(s12)
            if not (v1[0] == v2[0] == v12[0] == 'num' and v1[1] + v2[1] == v12[1]
                    and num_same(s12, res['sum_'])):
                ctx.violation(dict(call='sum_', args=[list(a1), list(a2)], oracle='additive'),
                              "SUM is not additive over a partition of the cells", impl=(s1, s2, s12))

    # ---------------------------------------------------------- SUMPRODUCT
    def check_sp(args, kind, model=True):
        im = run_impl(impl['sumproduct'], *args)
        case = dict(call='sumproduct', args=list(args))
        ctx.count(('sumproduct', repr(args)), kind=kind, sample=dict(case, impl=im))
        if model:
            tie('sumproduct', [enc_val(tuple(args))], case, im, 'Model/Aggregates.v sumproduct = sumproduct')
        return im, case

    for i in range(ctx.n(9000, 60000)):
        k = ctx.rng.choice((1, 2, 2, 2, 3))
        r, c = shapes[i % 25]
        perr = ctx.rng.choice((0, 0, 0, 0.04, 0.3))
        args = tuple(rect(ctx, r, c, perr, small=True, pnum=0.7) for _ in range(k))
        im, case = check_sp(args, f'sumproduct-{k}')
        cells = flat(args)
        errs = [x for x in cells if is_err(x)]
        if errs:
            if im != ('ok', errs[0]):
                ctx.violation(dict(case, oracle='first-error'), "SUMPRODUCT does not return the first error",
                              impl=im, expected=errs[0])
        else:
            vecs = [[F(x) if is_num(x) else F(0) for x in flat((a,))] for a in args]
            want = sum((fractions.Fraction(1) * _prod(col) for col in zip(*vecs)), F(0))
            if value_of(im) != ('num', want):
                ctx.violation(dict(case, oracle='sum-of-products'),
                              "SUMPRODUCT is not the sum of the pointwise products (non-numbers as 0)",
                              impl=im, expected=('num', want))
    for i in range(ctx.n(1500, 15000)):          # unequal shapes, no error cell
        k = ctx.rng.choice((2, 2, 3))
        shp = [ctx.rng.choice(shapes) for _ in range(k)]
        if len(set(shp)) == 1:
            continue
        args = tuple(rect(ctx, r, c, 0, small=True, pnum=0.7) for r, c in shp)
        im, case = check_sp(args, 'sumproduct-unequal')
        if im != ('ok', '#VALUE!'):
            ctx.violation(dict(case, oracle='unequal-shapes'), "SUMPRODUCT of unequally shaped ranges is not #VALUE!",
                          impl=im, expected='#VALUE!')
    for i in range(ctx.n(800, 8000)):            # correspondence only: scalars, mixed, errors + unequal, no args
        k = ctx.rng.randrange(0, 4)
        args = []
        for _ in range(k):
            if ctx.rng.random() < 0.6:
                args.append(cell(ctx, 0.05, small=True, pnum=0.6))
            else:
                r, c = ctx.rng.choice(shapes)
                args.append(rect(ctx, r, c, 0.05, small=True, pnum=0.7))
        check_sp(tuple(args), 'sumproduct-scalars/mixed')
    # products beyond int64: the statement on the implementation only
    for i in range(ctx.n(300, 3000)):
        k = ctx.rng.choice((2, 3))
        r, c = ctx.rng.choice(shapes)
        lo, hi = (2 ** 31, 2 ** 34) if k == 2 else (2 ** 21, 2 ** 26)
        args = tuple(tuple(tuple(ctx.rng.choice((1, -1)) * ctx.rng.randrange(lo, hi) for _ in range(c))
                           for _ in range(r)) for _ in range(k))
        im, case = check_sp(args, f'sumproduct-large-{k}', model=False)
        vecs = [flat((a,)) for a in args]
        want = sum(_prod(col) for col in zip(*vecs))
        got = value_of(im)
        ok = got[0] == 'num' and abs(got[1] - want) <= abs(want) * fractions.Fraction(1, 10 ** 9)
        if not ok:
            ctx.violation(dict(case, oracle='sum-of-products'),
                          "SUMPRODUCT of integer ranges is not the sum of the pointwise products",
                          impl=im, expected=('num', F(want)))

    # ------------------------------------------------------------ SUBTOTAL
    from pycel.excelformula import ExcelFormula
    table_m = None
    if ctx.model:
        t = ctx.model.batch([('subtotal_table', [])])[0]
        if t[0] == 0 and t[1][0] == 8:
            table_m = {dec_val(kv[0]): dec_val(kv[1]) for kv in t[1][1:]}
        from pycel.excelformula import FunctionNode
        ctx.count(('subtotal_table',), kind='subtotal-table')
        if table_m != dict(FunctionNode.SUBTOTAL_FUNCS):
            ctx.divergence(dict(call='SUBTOTAL_FUNCS', args=[]), dict(FunctionNode.SUBTOTAL_FUNCS), table_m,
                           'Gen c_FunctionNode_SUBTOTAL_FUNCS = FunctionNode.SUBTOTAL_FUNCS')
    emits = [str(n) for n in range(-2, 14)] + [str(n) for n in range(98, 114)] + \
            ['1.0', '9.0', '109.0', '2.5', '200', '0', '209']
    for e in emits:
        def compile_(e=e):
            code = ExcelFormula(f'=SUBTOTAL({e}, A1:B2)').python_code
            m = re.match(r'^(\w+)\(_R_\("A1:B2"\)\)$', code)
            return m.group(1) if m else code
        im = run_impl(compile_)
        case = dict(call='SUBTOTAL', args=[e])
        ctx.count(('subtotal_name', e), kind='subtotal-compile', sample=dict(case, impl=im))
        tie('subtotal_name', [enc_val(e)], case, im, 'Model/Aggregates.v subtotal_name = func_subtotal')
        try:
            n = int(float(e))
            lit = n if float(e) == n else None
        except ValueError:
            lit = None
        if lit is not None and (lit in SUBTOTAL or lit - 100 in SUBTOTAL):
            want = SUBTOTAL.get(lit, SUBTOTAL.get(lit - 100))
            if im != ('ok', want):
                ctx.violation(dict(case, oracle='subtotal-names'),
                              f"SUBTOTAL({e}, ...) does not compile to {want}", impl=im, expected=want)

    # ------------------------------------- real formulas on real workbooks
    workbook_phase(ctx, impl, tie, shapes)

    # ------------------------------------------------- the model's answers
    if ctx.model:
        answers = ctx.model.batch([(entry, margs) for entry, margs, _, _, _ in batch])
        unmodelled = 0
        for (entry, margs, case, im, relation), x in zip(batch, answers):
            m = dec_res(x)
            if m[0] == 'raise' and m[1] in ('Unmodelled', 'OutOfFuel'):
                unmodelled += 1
                continue
            if m[0] == 'bad':
                ctx.divergence(case, im, m, relation + ' (model rejected the arguments)')
            elif not same(m, im):
                ctx.divergence(case, im, m, relation)
        ctx.histogram['unmodelled'] = unmodelled
        ctx.extra['model_calls'] = len(batch)


def _prod(xs):
    p = 1
    for x in xs:
        p = p * x
    return p


def col_letter(i):
    return 'ABCDEFGHIJKLMNOPQRSTUVWXYZ'[i]


def workbook_phase(ctx, impl, tie, shapes):
    """A sample of cases through =SUM(...)/=SUBTOTAL(...)/=SUMPRODUCT(...) cells of
    an openpyxl workbook compiled and evaluated by ExcelCompiler: the compiled
    formula must give what the function gives on the range values pycel reads,
    SUBTOTAL(n, r) must equal the aggregate it names, and the model is run on
    the values read back from the sheet."""
    import openpyxl
    from pycel import ExcelCompiler
    for w in range(ctx.n(250, 1500)):
        wb = openpyxl.Workbook()
        ws = wb.active
        ws.title = 'S'
        r, c = shapes[w % 25]
        perr = ctx.rng.choice((0, 0, 0.05, 0.3))
        rects = [rect(ctx, r, c, perr, small=True, pnum=0.6) for _ in range(2)]
        if ctx.rng.random() < 0.2:
            r2, c2 = ctx.rng.choice(shapes)
            rects[1] = rect(ctx, r2, c2, perr, small=True, pnum=0.6)
        addrs = []
        for k, (rc, col0) in enumerate(zip(rects, (0, 6))):
            for i, row in enumerate(rc):
                for j, v in enumerate(row):
                    if v is not None and v != '':
                        ws.cell(row=i + 1, column=col0 + j + 1).value = v
            addrs.append(f'{col_letter(col0)}1:{col_letter(col0 + len(rc[0]) - 1)}{len(rc)}')
        formulas = {}
        row = 1
        for name in AGGS:
            formulas[(name, 1)] = f'={EXCEL_NAME[name]}({addrs[0]})'
            formulas[(name, 2)] = f'={EXCEL_NAME[name]}({addrs[0]},{addrs[1]})'
        for n, name in SUBTOTAL.items():
            formulas[('subtotal', n)] = f'=SUBTOTAL({n},{addrs[0]})'
            formulas[('subtotal', 100 + n)] = f'=SUBTOTAL({100 + n},{addrs[0]},{addrs[1]})'
        formulas[('sumproduct', 1)] = f'=SUMPRODUCT({addrs[0]})'
        formulas[('sumproduct', 2)] = f'=SUMPRODUCT({addrs[0]},{addrs[1]})'
        where = {}
        for key, fml in formulas.items():
            ws.cell(row=row, column=14).value = fml
            where[key] = f'S!N{row}'
            row += 1
        comp = ExcelCompiler(excel=wb)
        # the values pycel reads from the sheet, in the construction's shape; a 1 x 1 range is
        # compiled to a cell reference (_C_), i.e. the function receives the scalar
        seen = []
        for a, rc in zip(addrs, rects):
            got = flat((comp.evaluate(f'S!{a}'),))
            seen.append(shape_cells(got, len(rc), len(rc[0])))
        passed = [s[0][0] if len(s) == 1 and len(s[0]) == 1 else s for s in seen]

        def ev(key):
            return run_impl(comp.evaluate, where[key])
        for (what, n), fml in formulas.items():
            im = ev((what, n))
            case = dict(call='formula', args=[fml, [list(map(list, s)) for s in seen]])
            ctx.count(('wb', w, fml), kind='workbook-' + what, sample=dict(case, impl=im))
            if what in AGGS or what == 'subtotal':
                name = what if what in AGGS else SUBTOTAL[n % 100]
                one = (what in AGGS and n == 1) or (what == 'subtotal' and n < 100)
                args = tuple(passed[:1]) if one else tuple(passed)
                direct = run_impl(impl[name], *args)
                if im != direct:
                    ctx.violation(dict(case, oracle='formula=function'),
                                  "the compiled formula does not give what the function gives on the range values",
                                  impl=im, expected=direct)
                tie(name, [enc_val(args)], case, im, f'Gen {name} = evaluated formula')
                want = expected(name, flat(args))
                if not meets(name, im, want):
                    errs = [x for x in flat(args) if is_err(x)]
                    call = ('SUBTOTAL-' + name) if what == 'subtotal' else EXCEL_NAME[name]
                    ctx.violation(dict(case, call=call, oracle='first-error' if errs else 'numeric-only',
                                       returned_numeric_count=returned_numeric_count(im, flat(args))),
                                  f"{fml} is not the aggregate the property states", impl=im, expected=want)
                if what == 'subtotal':
                    other = ev((name, 1 if n < 100 else 2))
                    if im != other:
                        ctx.violation(dict(case, oracle='subtotal=aggregate'),
                                      f"SUBTOTAL({n}, ...) differs from {EXCEL_NAME[name]}(...)",
                                      impl=im, expected=other)
                    tie('subtotal', [enc_val(str(n)), enc_val(args)], case, im,
                        'Model/Aggregates.v subtotal = evaluated SUBTOTAL formula')
            else:
                args = tuple(passed[:n])
                direct = run_impl(impl['sumproduct'], *args)
                if im != direct:
                    ctx.violation(dict(case, oracle='formula=function'),
                                  "the compiled formula does not give what the function gives on the range values",
                                  impl=im, expected=direct)
                tie('sumproduct', [enc_val(args)], case, im, 'Model/Aggregates.v sumproduct = evaluated formula')
                rcs = seen[:n]
                cells = flat(tuple(rcs))
                errs = [x for x in cells if is_err(x)]
                if errs:
                    if im != ('ok', errs[0]):
                        ctx.violation(dict(case, call='SUMPRODUCT', oracle='first-error'),
                                      "SUMPRODUCT does not return the first error", impl=im, expected=errs[0])
                elif len({(len(x), len(x[0])) for x in rcs}) == 1:
                    vecs = [[F(x) if is_num(x) else F(0) for x in flat((a,))] for a in rcs]
                    want = sum((F(1) * _prod(col) for col in zip(*vecs)), F(0))
                    if value_of(im) != ('num', want):
                        ctx.violation(dict(case, call='SUMPRODUCT', oracle='sum-of-products'),
                                      "SUMPRODUCT is not the sum of the pointwise products (non-numbers as 0)",
                                      impl=im, expected=('num', want))
                elif im != ('ok', '#VALUE!'):
                    ctx.violation(dict(case, call='SUMPRODUCT', oracle='unequal-shapes'),
                                  "SUMPRODUCT of unequally shaped ranges is not #VALUE!", impl=im, expected='#VALUE!')
