"""C16 — lookup functions agree with a linear-scan definition.

Correspondence: Gen/lookup.v (match/vlookup/hlookup/lookup bodies, regenerated)
+ Model/LookupCore.v (_match, bisect_right on ExcelCmp keys, index) under
Model/Lookup.v's model of the apply_meta wrappers, against the real functions
called the way pycel calls them (apply_meta(...)[0]), bit for bit.

Oracle: the property's statement evaluated on the implementation alone with an
independent linear-scan definition written here (no pycel code)."""
import itertools
import re

from harness.common import dec_res, enc_val, ensure_impl_on_path, known_predicate, run_impl, same

GEN_MODULES = ['excelutil', 'lookup']
EXTRA_TARGETS = ('Proofs/C16.vo', 'Proofs/C16Order.vo', 'Proofs/C16Sorted.vo', 'Proofs/C16Desc.vo',
                 'Proofs/C16Lookup.vo', 'Proofs/C16Wild.vo', 'Proofs/C16Wrap.vo', 'Refuted/C16_blank_cell.vo',
                 'Refuted/C16_lookup_short.vo',
                 'Refuted/C16_wildcard_tilde.vo')
ASSUMPTIONS = [
    "cells and lookup values are scalars (numbers from the float-exact domain, text, logicals, blank, "
    "error codes); arrays are tuples of row tuples",
    "wildcard patterns that contain other regular-expression metacharacters (. ^ $ + { } [ ] \\ | ( )) and "
    "case mappings outside ASCII/Latin-1/CJK are outside the model (Unmodelled): only the oracle judges them",
]

NA, REF, VALUE = '#N/A', '#REF!', '#VALUE!'
ERRORS = {'#NULL!', '#DIV/0!', '#VALUE!', '#REF!', '#NAME?', '#NUM!', '#N/A'}

# the ~9-value mixed pool: numbers (int and float), text in two cases, logicals, blank, an error
POOL = [1, 2, 2.5, 'a', 'B', 'b', True, None, '#DIV/0!']
POOL_WIDE = POOL + [False, 0, 2.0, -1, 'A', 'ab', '', 10, 0.5]
LOOKUPS = [1, 2, 2.5, 'a', 'B', True, None, '#DIV/0!', 0, 1.5, 3, 'A', 'aa', 'c', False, '', -2]
WILD_CELLS = ['abc', 'ABD', 'a.c', 'b', 'a*', 'a?c', '', 'ac', 'a~*c', 'xbc', 7, None, True, 'a\nc']
WILD_PATTERNS = ['a*', 'A?C', '*c', '?', '*', '??', 'a*c', '*b*', 'B?', 'a?', '?*', '**',
                 'a~*', '~?', 'a~~*', 'a.c*', '(*', 'a+*', '[a]*', 'a.?', '^a*', 'a|b*', 'a\\*', 'a{1}*']
MATCH_TYPES = [1, 0, -1]


# ------------------------------------------------------------------ oracle
def is_err(v):
    return isinstance(v, str) and v in ERRORS


def rank(v):
    """Excel's type order: numbers < text < logicals (< errors); None for blank."""
    if v is None:
        return None
    if is_err(v):
        return 3
    if isinstance(v, bool):
        return 2
    if isinstance(v, str):
        return 1
    return 0


def okey(v):
    r = rank(v)
    if r == 1:
        return (1, v.lower())
    if r == 2:
        return (2, int(v))
    if r == 3:
        return (3, v)
    return (0, v)


def glob_re(p):
    """Excel wildcards: ? one character, * any run, ~ escapes ? * ~ ; everything else literal."""
    out, i = [], 0
    while i < len(p):
        c = p[i]
        if c == '~' and i + 1 < len(p) and p[i + 1] in '?*~':
            out.append(re.escape(p[i + 1]))
            i += 2
            continue
        out.append('.' if c == '?' else '.*' if c == '*' else re.escape(c))
        i += 1
    return re.compile('(?s)' + ''.join(out) + r'\Z')


def cell_equals(v, c, blank_is_zero=False):
    """type-strict, case-insensitive, wildcard equality of a cell with the lookup value v (not blank)."""
    if c is None:
        if not blank_is_zero:
            return False
        c = 0
    if is_err(c) or rank(c) != rank(v):
        return False
    if rank(v) == 1:
        if '?' in v or '*' in v:
            return glob_re(v.lower()).match(c.lower()) is not None
        return v.lower() == c.lower()
    return v == c


def strip_blanks(a):
    lo, hi = 0, len(a)
    while lo < hi and a[lo] is None:
        lo += 1
    while hi > lo and a[hi - 1] is None:
        hi -= 1
    return a[lo:hi]


def sorted_dir(a):
    """(ascending?, descending?) in Excel order with blanks only at the ends."""
    d = strip_blanks(list(a))
    if any(x is None for x in d):
        return False, False
    ks = [okey(x) for x in d]
    asc = all(ks[i] <= ks[i + 1] for i in range(len(ks) - 1))
    desc = all(ks[i] >= ks[i + 1] for i in range(len(ks) - 1))
    return asc, desc


def expect_match0(v, a, blank_is_zero=False):
    for i, c in enumerate(a, 1):
        if cell_equals(v, c, blank_is_zero):
            return i
    return NA


def ok_match_sorted(v, a, got, mt, blank_is_zero=False):
    """got is a position holding the largest value <= v (mt 1) / smallest value >= v (mt -1) among the
    cells of v's type, or #N/A when there is none."""
    cells = [(0 if (c is None and blank_is_zero) else c) for c in a]
    cand = [okey(c) for c in cells if c is not None and not is_err(c) and rank(c) == rank(v)
            and (okey(c) <= okey(v) if mt == 1 else okey(c) >= okey(v))]
    if not cand:
        return got == NA
    best = max(cand) if mt == 1 else min(cand)
    return isinstance(got, int) and not isinstance(got, bool) and 1 <= got <= len(a) \
        and cells[got - 1] is not None and not is_err(cells[got - 1]) and okey(cells[got - 1]) == best


def transpose(t):
    return tuple(zip(*t))


def col_vec(xs):
    return tuple((x,) for x in xs)


# ------------------------------------------------------- known-finding predicates (inert until listed)
@known_predicate('C16-blank-cell-counts-as-zero')
def _kp_blank_zero(case):
    """MATCH types 0 / -1 read a blank cell as the number 0 (ExcelCmp(None)); type 1 does not."""
    return case.get('clause') == 'blank-cell-as-zero'


@known_predicate('C16-wildcard-regex-metachar')
def _kp_wild_meta(case):
    """build_wildcard_re does not escape regex metacharacters of a wildcard pattern."""
    return case.get('clause') in ('wildcard-metachar', 'wildcard-metachar-raises')


@known_predicate('C16-wildcard-tilde-escape')
def _kp_wild_tilde(case):
    """~? ~* ~~ do not escape (the look-behind in STAR_RE/QUESTION_MARK_RE tests the wrong character)."""
    return case.get('clause') == 'wildcard-tilde'


@known_predicate('C16-wildcard-newline')
def _kp_wild_newline(case):
    """'.'/'$' of the compiled pattern treat a line feed specially."""
    return case.get('clause') == 'wildcard-newline'


@known_predicate('C16-lookup-short-result-range')
def _kp_short_rr(case):
    """LOOKUP with a result vector shorter than the matched position raises IndexError."""
    return case.get('clause') == 'lookup-short-result-raises'


META = set('.^$+{}[]\\|()')


def wild_clause(v, a):
    if isinstance(v, str) and ('?' in v or '*' in v):
        if META & set(v):
            return 'wildcard-metachar'
        if re.search(r'~[?*~]', v):
            return 'wildcard-tilde'
        if any(isinstance(c, str) and '\n' in c for c in a):
            return 'wildcard-newline'
    return None


# ---------------------------------------------------------------- generators
# deterministic edge vectors (every run, every lookup value, every match type): sorted vectors that END in
# a falsy value (0, "", FALSE), a repeated maximum / minimum (which of the equal cells is returned is fixed by
# C16_match1_sorted / C16_match_m1_sorted and compared bit for bit), all-blank vectors, blanks at both ends
EDGE_VECTORS = [
    (0,), ('',), (False,), (-1, 0), (1, ''), ('a', False), (0, '', False), (-1, 0, None), (None, 0),
    (None, None, 0, '', False, None), ('', None), (False, None, None), (None,), (None, None, None),
    (1, 2, 2), (1, 2, 2, 2.0, 'a'), (1, 2.5, 2.5, 'a', 'B', 'b', True, True), ('a', 'b', 'B', True),
    (None, 1, 1, 'a', 'A', None), (1, 2, '#DIV/0!'), (False, False, True, '#DIV/0!', '#N/A'),
    (True, False), ('a', ''), (2, 0), (0, -1), (3, 3, 1), (5, 3, 3, 1), (5, 3, 3, 2, 2, 1),
    ('#DIV/0!', True, 'b', 'B', 'a', 3, 3, 1), (None, 'b', 'a', 'A', None), (True, True, False, 'b', 2.5, 2.5),
    (None, True, 'b', None), (2, 1, None), (None, 2, 1),
]
# square tables (array-form LOOKUP searches the first COLUMN of a square table) and result vectors
# longer than the search vector (C16_lookup_array / C16_lookup_vector_col / _row)
EDGE_SQUARES = [
    ((1,),), ((1, 'r1'), (2, 'r2')), ((1, 5), (3, 7)), ((1, 2, 3), (2, 'x', 'y'), (3, 'z', 'w')),
    (('a', 1, 2), ('b', 3, 4), ('c', 5, 6)), ((1, 2, 3, 4), (2, 0, 0, 'p'), (3, 0, 0, 'q'), (4, 0, 0, 'r')),
    ((None, 2), (1, 3)), ((1, 'a'), (None, 'b')),
]


def gen_vectors(ctx):
    """(vector, tag) — exhaustive up to length 5 over POOL in the thorough tier, sampled in quick;
    sampled up to length 8 over the wide pool, sorted ascending/descending with blanks at the ends."""
    out = []
    if ctx.tier == 'thorough':
        for n in range(0, 6):
            for t in itertools.product(POOL, repeat=n):
                out.append((t, 'exh'))
    else:
        for n in range(0, 3):
            for t in itertools.product(POOL, repeat=n):
                out.append((t, 'exh'))
        for _ in range(ctx.n(500, 0)):
            n = ctx.rng.randrange(3, 6)
            out.append((tuple(ctx.rng.choice(POOL) for _ in range(n)), 'exh-sample'))
    for _ in range(ctx.n(700, 12000)):
        n = ctx.rng.randrange(1, 9)
        pool = POOL_WIDE if ctx.rng.random() < 0.6 else POOL
        d = [ctx.rng.choice(pool) for _ in range(n)]
        k = ctx.rng.random()
        if k < 0.25:
            out.append((tuple(d), 'unsorted'))
            continue
        d = [x for x in d if x is not None]
        d.sort(key=okey, reverse=(k >= 0.65))
        lead = ctx.rng.choice([0, 0, 0, 1, 2])
        trail = ctx.rng.choice([0, 0, 1, 2, 3])
        d = ([None] * lead + d + [None] * trail)[:8]
        out.append((tuple(d), 'sorted-desc' if k >= 0.65 else 'sorted-asc'))
    out.extend((t, 'edge') for t in EDGE_VECTORS)
    return out


def gen_tables(ctx):
    """tables up to 6x4: first column from a vector, the other cells distinct markers"""
    out = []
    for _ in range(ctx.n(160, 2500)):
        h = ctx.rng.randrange(1, 7)
        w = ctx.rng.randrange(1, 5)
        pool = POOL_WIDE if ctx.rng.random() < 0.5 else POOL
        col = [ctx.rng.choice(pool) for _ in range(h)]
        k = ctx.rng.random()
        if k >= 0.3:
            col = [x for x in col if x is not None]
            col.sort(key=okey, reverse=(k >= 0.8))
            col = ([None] * ctx.rng.choice([0, 0, 1]) + col + [None] * 6)[:h]
        rows = []
        for r in range(h):
            row = [col[r]]
            for c in range(1, w):
                m = ctx.rng.random()
                row.append(100 * (r + 1) + c if m < 0.6 else f"r{r + 1}c{c + 1}" if m < 0.8
                           else ctx.rng.choice(POOL))
            rows.append(tuple(row))
        out.append(tuple(rows))
    return out


# ------------------------------------------------------------------- the run
def run(ctx):
    ensure_impl_on_path()
    from bisect import bisect_right
    from pycel.excelutil import ExcelCmp
    from pycel.lib import lookup as lk
    from pycel.lib.function_helpers import apply_meta
    F = {n: apply_meta(getattr(lk, n), name_space={})[0]
         for n in ('match', 'vlookup', 'hlookup', 'lookup', 'index')}
    ctx.extra['rule'] = (
        "MATCH over vectors (all vectors up to length 5 over a 9-value pool of numbers, text in two cases, a "
        "logical, blank, an error code: exhaustive in the thorough tier, all up to length 2 plus a sample in "
        "quick; sampled vectors up to length 8 over an 18-value pool, unsorted / sorted ascending / descending "
        "in Excel order with blanks at the ends, as a row and as a column; a fixed list of edge vectors: trailing "
        "0/\"\"/FALSE, repeated maxima/minima, all blank) x 17 lookup values x match types "
        "{1,0,-1,omitted}; wildcard patterns x text vectors; _match and bisect_right directly; VLOOKUP/HLOOKUP "
        "over tables up to 6x4 (and transposes) x lookup values x every result index from -1 to size+2 x "
        "range_lookup; LOOKUP vector and array form (incl. fixed square tables and longer result vectors); INDEX over every row/column index. A case is a distinct "
        "(function, arguments) tuple.")
    calls = []       # (name, args) through the wrapped functions / '_match' / 'bisect'
    clause_count = ctx.extra.setdefault('violations_by_clause', {})
    clause_first = ctx.extra.setdefault('first_violation_by_clause', {})
    _violation = ctx.violation

    def violation(case, what, **kw):
        cl = case.get('clause', 'unclassified')
        clause_count[cl] = clause_count.get(cl, 0) + 1
        clause_first.setdefault(cl, dict(call=case['call'], args=repr(case['args'])[:300], what=what,
                                         impl=repr(kw.get('impl'))[:120], expected=repr(kw.get('expected'))[:120]))
        _violation(case, what, **kw)
    ctx.violation = violation

    def add(name, *args):
        calls.append((name, args))

    vectors = gen_vectors(ctx)
    tables = gen_tables(ctx)
    # ---- both sides
    from pycel.lib.lookup import _match

    def impl_call(name, args):
        if name == '_match':
            return run_impl(_match, *args)
        if name == 'bisect':
            a, v, lo, hi = args
            return run_impl(lambda: bisect_right(a, ExcelCmp(v), lo=lo, hi=hi))
        return run_impl(F[name], *args)
    res_of = {}

    def both(cs):
        """run implementation and model on the calls, count, record divergences; implementation results"""
        im_all = [impl_call(n, a) for n, a in cs]
        ms = [dec_res(x) for x in ctx.model.batch([(n, [enc_val(v) for v in a]) for n, a in cs])] \
            if ctx.model else [None] * len(cs)
        for (n, a), im, m in zip(cs, im_all, ms):
            case = dict(call=n, args=list(a))
            ctx.count(hash((n, repr(a))), kind=n, sample=dict(case, impl=im))
            if m is not None:
                if m[0] == 'raise' and m[1] in ('Unmodelled', 'OutOfFuel'):
                    ctx.histogram['unmodelled'] = ctx.histogram.get('unmodelled', 0) + 1
                elif not same(m, im):
                    ctx.divergence(case, im, m,
                                   'Model/Lookup.v + Gen/lookup.v + Model/LookupCore.v = pycel.lib.lookup')
        return im_all

    def call(name, *args):
        k = (name, repr(args))
        if k not in res_of:
            res_of[k] = impl_call(name, args)
        return res_of[k]

    # ---- oracle 1: MATCH against the linear-scan definition
    def judge_match(v, a, mt, shape_args, got):
        case = dict(call='match', args=list(shape_args))
        if got[0] == 'raise':
            cl = wild_clause(v, a)
            ctx.violation(dict(case, clause=(cl + '-raises') if cl else 'raises'),
                          f"MATCH raises {got[1]}", impl=got)
            return
        g = got[1]
        if is_err(v):
            if g != v:
                ctx.violation(case, "error lookup value is not returned", impl=g, expected=v)
            return
        vv = 0 if v is None else v
        if mt == 0:
            want = expect_match0(vv, a)
            if g != want:
                cl = wild_clause(vv, a) or \
                    ('blank-cell-as-zero' if g == expect_match0(vv, a, blank_is_zero=True) else 'match0')
                ctx.violation(dict(case, clause=cl), "MATCH(v, a, 0) is not the first position equal to v",
                              impl=g, expected=want)
            return
        asc, desc = sorted_dir(a)
        if (mt == 1 and asc) or (mt == -1 and desc):
            if not ok_match_sorted(vv, a, g, mt):
                # the same input read with blank cells as the number 0: either the property is then
                # satisfied, or the vector is then not sorted and the property says nothing
                a0 = [0 if c is None else c for c in a]
                z_asc, z_desc = sorted_dir(a0)
                blank_cause = rank(vv) == 0 and any(c is None for c in a) and (
                    not (z_asc if mt == 1 else z_desc) or ok_match_sorted(vv, a, g, mt, blank_is_zero=True))
                cl = 'blank-cell-as-zero' if blank_cause else 'match-sorted'
                ctx.violation(dict(case, clause=cl),
                              "MATCH on sorted data does not return a position holding the "
                              + ("largest value <= v" if mt == 1 else "smallest value >= v") + " of v's type",
                              impl=g, expected='see definition')
            ctx.histogram['oracle-sorted'] = ctx.histogram.get('oracle-sorted', 0) + 1
    # ---- MATCH: the sweep over vectors x lookup values x match types, in chunks
    chunk = []

    def flush():
        ims = both([(n, args) for (n, args, _) in chunk])
        for (n, args, j), im in zip(chunk, ims):
            if j is not None:
                judge_match(j[0], j[1], j[2], args, im)
        chunk.clear()
    for a, tag in vectors:
        if tag == 'exh' and len(a) == 5:
            lvs = POOL + [0]                   # thorough: every value of the pool as the lookup value
        elif tag in ('exh', 'edge') or ctx.tier == 'thorough':
            lvs = LOOKUPS
        else:
            lvs = ctx.rng.sample(LOOKUPS, 6) + [x for x in a[:3] if x is not None]
        for v in lvs:
            for mt in MATCH_TYPES:
                if len(a) == 0:
                    chunk.append(('_match', (v, a, mt), None))
                    continue
                shape = (a,) if (len(a) + mt) % 2 else col_vec(a)
                chunk.append(('match', (v, shape, mt), (v, a, mt)))
        if len(chunk) >= 100000:
            flush()
    flush()
    for a, tag in vectors[:: max(1, len(vectors) // ctx.n(300, 3000))]:
        if not a:
            continue
        for v in ctx.rng.sample(LOOKUPS, 4):
            add('match', v, (a,))                       # match_type omitted
            add('_match', v, a, ctx.rng.choice(MATCH_TYPES))
            add('_match', v, list(a), ctx.rng.choice(MATCH_TYPES))
            for mt in (True, False, None, 1.0, 0.0, -1.0, 2, 0.5, '1', '0', 'x', '#NUM!', ((0, 1),)):
                if ctx.rng.random() < 0.3:
                    add('match', v, (a,), mt)
            lo = ctx.rng.randrange(0, len(a) + 1)
            hi = ctx.rng.randrange(lo, len(a) + 1)
            add('bisect', a, v, lo, hi)
            add('bisect', a, v, 0, len(a))
        add('match', ((1, 'a'), (None, 2)), (a,), 0)     # CSE lookup value
    # ---- wildcards
    wild_cases = []
    for _ in range(ctx.n(150, 2000)):
        n = ctx.rng.randrange(1, 7)
        a = tuple(ctx.rng.choice(WILD_CELLS) for _ in range(n))
        for p in WILD_PATTERNS:
            wild_cases.append((p, a))
            add('match', p, (a,), 0)
    # ---- tables
    table_cases = []
    for t in tables:
        h, w = len(t), len(t[0])
        firstcol = [r[0] for r in t]
        lvs = ctx.rng.sample(LOOKUPS, 3) + [x for x in ctx.rng.sample(firstcol, min(2, h)) if x is not None]
        for v in lvs:
            for k in range(-1, w + 3):
                for rl in ctx.rng.sample([(), (True,), (False,), (0,), (1,)], 2):
                    table_cases.append((v, t, k, rl))
                    add('vlookup', v, t, k, *rl)
                    add('hlookup', v, transpose(t), k, *rl)
        for v in lvs[:2]:
            add('lookup', v, t)
            add('lookup', v, transpose(t))
            res = tuple(f"res{i}" for i in range(h))
            add('lookup', v, col_vec(firstcol), col_vec(res))
            add('lookup', v, (tuple(firstcol),), (res,))
            add('lookup', v, col_vec(firstcol), (res,))
            if h > 2 and ctx.rng.random() < 0.3:
                add('lookup', v, col_vec(firstcol), col_vec(res[:h - 2]))
            add('lookup', v, col_vec(firstcol), t)
            add('lookup', v, col_vec(firstcol), 5)
        add('vlookup', 1, t, '2')
        add('vlookup', 1, t, 'x')
        add('vlookup', 1, t, '#NUM!', False)
        add('vlookup', '#NULL!', t, 1)
        add('vlookup', 1, t, 1, '#REF!')
        add('vlookup', 1, t, None)
        add('vlookup', 1, 5, 1)
        add('hlookup', 1, 'abc', 1)
        add('vlookup', ((1, 2),), t, 1, False)
        for r in range(-1, h + 3):
            add('index', t, r)
            for c in list(range(-1, w + 3)) + [None]:
                add('index', t, r, c)
        add('index', t, None, 1)
        add('index', t, '1', '1')
        add('index', t, 'x', 1)
        add('index', t, 1, '#NUM!')
        add('index', '#REF!', 1, 1)
        add('index', 5, 1, 1)
        add('index', (1, 2, 3), 1, 1)
    for t in EDGE_SQUARES:                      # judged by oracle 3 like every other 'lookup' call
        h = len(t)
        first = [r[0] for r in t]
        for v in LOOKUPS:
            add('lookup', v, t)
            add('lookup', v, transpose(t))
            longer = tuple(f"res{i}" for i in range(h + 2))
            add('lookup', v, col_vec(first), col_vec(longer))
            add('lookup', v, col_vec(first), (longer,))
            add('lookup', v, (tuple(first),), col_vec(longer))
            add('lookup', v, t, (longer,))
            add('match', v, col_vec(first), 1)
    seen = set()
    uniq = []
    for c in calls:
        key = (c[0], repr(c[1]))
        if key not in seen:
            seen.add(key)
            uniq.append(c)
    calls = uniq
    impl = both(calls)
    for (n, a), im in zip(calls, impl):
        res_of[(n, repr(a))] = im
    for p, a in wild_cases:
        judge_match(p, a, 0, (p, (a,), 0), call('match', p, (a,), 0))
    # ---- oracle 2: VLOOKUP/HLOOKUP = INDEX at the position MATCH finds; transpose; bounds
    for v, t, k, rl in table_cases:
        h, w = len(t), len(t[0])
        tt = transpose(t)
        vl = call('vlookup', v, t, k, *rl)
        hl = call('hlookup', v, tt, k, *rl)
        case = dict(call='vlookup', args=[v, t, k, *rl])
        ctx.evaluations += 1
        if vl[0] == 'raise' or hl[0] == 'raise':
            ctx.violation(dict(case, clause='raises'), f"VLOOKUP/HLOOKUP raises {vl} {hl}", impl=vl)
            continue
        if vl != hl:
            ctx.violation(dict(case, clause='transpose'), "VLOOKUP on a table differs from HLOOKUP on its transpose",
                          impl=vl, expected=hl)
        if is_err(v):
            want = ('ok', v)
        elif k <= 0:
            want = ('ok', VALUE)
        elif k > w:
            want = ('ok', REF)
        else:
            mt = 1 if (not rl or rl[0]) else 0
            m = call('match', v, col_vec([r[0] for r in t]), mt)
            if m[0] == 'ok' and isinstance(m[1], int) and not isinstance(m[1], bool):
                want = call('index', t, m[1], k)
            else:
                want = m
        if vl != want:
            ctx.violation(dict(case, clause='index-match'),
                          "VLOOKUP differs from INDEX at the position MATCH finds (or the bounds error)",
                          impl=vl, expected=want)
    # ---- oracle 3: LOOKUP = INDEX(result vector, MATCH(v, lookup vector, 1))
    for (n, a), im in zip(calls, impl):
        if n != 'lookup':
            continue
        case = dict(call='lookup', args=list(a))
        v, arr = a[0], a[1]
        ctx.evaluations += 1
        rr = a[2] if len(a) > 2 else None
        if is_err(v):
            want = ('ok', v)
        else:
            h, w = len(arr), len(arr[0])
            if w <= h:
                look, res = [r[0] for r in arr], [r[-1] for r in arr]
            else:
                look, res = list(arr[0]), list(arr[-1])
            if rr is not None:
                if not isinstance(rr, tuple):
                    continue
                if len(rr) != 1 and len(rr[0]) != 1:
                    continue                      # a 2-D result range: not in the property's domain
                res = [r[0] for r in rr] if len(rr[0]) == 1 and len(rr) >= 1 and len(rr) > len(rr[0]) else list(rr[0])
            m = call('match', v, col_vec(look), 1)
            if m[0] == 'ok' and isinstance(m[1], int) and not isinstance(m[1], bool):
                want = call('index', col_vec(res), m[1])
            else:
                want = m
        if im[0] == 'raise':
            short = rr is not None and want == ('ok', REF)
            ctx.violation(dict(case, clause='lookup-short-result-raises' if short else 'raises'),
                          f"LOOKUP raises {im[1]}", impl=im, expected=want)
        elif im != want:
            ctx.violation(dict(case, clause='lookup-index-match'),
                          "LOOKUP differs from INDEX(result vector, MATCH(v, lookup vector, 1))",
                          impl=im, expected=want)
    # ---- oracle 4: INDEX bounds — the addressed cell, #REF! beyond the table, #VALUE! below 1
    for (n, a), im in zip(calls, impl):
        if n != 'index' or len(a) != 3 or not isinstance(a[0], tuple) or not a[0] or not isinstance(a[0][0], tuple):
            continue
        t, r, c = a
        if not (isinstance(r, int) and isinstance(c, int)) or isinstance(r, bool) or isinstance(c, bool):
            continue
        case = dict(call='index', args=list(a))
        ctx.evaluations += 1
        h, w = len(t), len(t[0])
        if im[0] == 'raise':
            ctx.violation(dict(case, clause='raises'), f"INDEX raises {im[1]}", impl=im)
        elif r < 0 or c < 0:
            if im != ('ok', VALUE):
                ctx.violation(dict(case, clause='index-negative'), "negative index is not #VALUE!", impl=im,
                              expected=VALUE)
        elif r == 0 or c == 0:
            pass                  # 0 = "the whole row/column" (and the one-index vector form): not a cell index
        elif r > h or c > w:
            if im != ('ok', REF):
                ctx.violation(dict(case, clause='index-beyond'), "index beyond the table is not #REF!", impl=im,
                              expected=REF)
        elif r >= 1 and c >= 1:
            want = run_impl(lambda: t[r - 1][c - 1])
            if im != want:
                ctx.violation(dict(case, clause='index-cell'), "INDEX does not return the addressed cell",
                              impl=im, expected=want)
