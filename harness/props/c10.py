"""C10 — operators: correspondence (Model/Ops.v + generated coercions vs
excelutil.build_operator_operand_fixup) and the property's oracle."""
import itertools

from harness.common import (canon, dec_res, enc_val, ensure_impl_on_path, known_predicate,
                            run_impl, same)

GEN_MODULES = ['excelutil']

OPS = ['Add', 'Sub', 'Mult', 'Div', 'Pow', 'BitAnd', 'USub', 'Eq', 'NotEq', 'Lt', 'LtE', 'Gt', 'GtE']
CMP = ['Eq', 'NotEq', 'Lt', 'LtE', 'Gt', 'GtE']
ERRORS = ['#NULL!', '#DIV/0!', '#VALUE!', '#REF!', '#NAME?', '#NUM!', '#N/A']

ASSUMPTIONS = [
    "operands are scalars (arrays are C13's subject)",
    "exact arithmetic: numeric operands are integers below 2^26 or dyadic fractions, so every float "
    "operation of the implementation is exact and results are compared bit for bit",
    "** with a non-integral exponent, repr of floats with more than 15 significant digits and case "
    "mapping outside ASCII/Latin-1/CJK/emoji are outside the model (Unmodelled): for those cases only "
    "the property's oracle judges the implementation",
]


def pool(ctx):
    nums = [0, 1, -1, 2, 3, 7, -5, 10, 100, 12, 0.5, -0.5, 1.5, 2.0, -3.0, 0.25, 1024, 3.75, 1e3]
    texts = ['', 'a', 'A', 'abc', 'ABC', 'b', '12', '-3', '1.5', ' 3 ', '1e2', '0', 'TRUE', 'true',
             'False', '1_0', '.5', '5.', 'é', 'É', '漢', 'x y', '3.0', '0x10', '+2', 'inf ', 'z']
    bools = [True, False]
    blanks = [None, '#EMPTY!']
    return nums, texts, bools, blanks


def float_exact_text(t):
    """Sampled text stays in the float-exact domain: if it reads as a number,
    the decimal it spells must be exactly a double (DESIGN 3.2) of moderate size."""
    import fractions
    try:
        x = float(t)
    except ValueError:
        return True
    if x != x or x in (float('inf'), float('-inf')) or abs(x) > 2 ** 26:
        return False
    if NUMERIC_TEXT.match(t):
        return fractions.Fraction(t.strip()) == fractions.Fraction(x) and \
            (fractions.Fraction(x).denominator <= 4096)
    return True


def pow_ok(l, r):
    def mag(v):
        try:
            return abs(float(v))
        except (TypeError, ValueError):
            return 0
    return mag(r) <= 64 and mag(l) <= 2 ** 26 and (mag(l) <= 1024 or mag(r) <= 8)


def inexact(m):
    """The model's exact result is not a double: libm's pow need not round it correctly."""
    import fractions
    return m[0] == 'ok' and isinstance(m[1], tuple) and m[1][0] == 'float' and \
        fractions.Fraction(float(m[1][1])) != m[1][1]


def num_same(a, b):
    """Same outcome, numbers compared by value (Excel has one number type)."""
    import fractions

    def val(x):
        if x[0] == 'ok':
            v = x[1]
            if isinstance(v, tuple) and v[0] == 'float' and isinstance(v[1], fractions.Fraction):
                return ('num', v[1])
            if isinstance(v, int) and not isinstance(v, bool):
                return ('num', fractions.Fraction(v))
        return x
    return val(a) == val(b)


def is_scalar_ok(v):
    return isinstance(v, (int, float, str, bool)) and not isinstance(v, complex)


NUMERIC_TEXT = __import__('re').compile(r'^\s*[+-]?(\d+\.?\d*|\.\d+)([eE][+-]?\d+)?\s*$')


def excel_number(v):
    """The number an operand stands for in arithmetic (Excel's reading, written
    independently of pycel's coercion): numbers, logicals, blank, and text that
    is a plain decimal literal.  None = not a number (-> #VALUE!)."""
    import fractions
    if v is None or v == '#EMPTY!':
        return 0
    if isinstance(v, bool):
        return int(v)
    if isinstance(v, (int, float)):
        return v
    if isinstance(v, str):
        if v.upper() in ('TRUE', 'FALSE'):
            return int(v.upper() == 'TRUE')     # pycel reads these texts as logicals (documented)
        if NUMERIC_TEXT.match(v):
            f = fractions.Fraction(v.strip())
            return int(f) if f.denominator == 1 else float(f)
    return None


@known_predicate('C10-python-numeric-text')
def _python_numeric_text(case):
    """Text that Python's int()/float() accept but that is not a decimal literal:
    digit-group underscores, inf/infinity/nan spellings."""
    def odd(v):
        if not isinstance(v, str) or NUMERIC_TEXT.match(v) or v.upper() in ('TRUE', 'FALSE'):
            return False
        try:
            float(v)
            return True
        except ValueError:
            return False
    a = case.get('args', [])
    return case.get('call') == 'fixup' and len(a) == 3 and (odd(a[0]) or odd(a[2]))


def run(ctx):
    ensure_impl_on_path()
    from pycel.excelutil import build_operator_operand_fixup, coerce_to_number, coerce_to_string, \
        is_number, type_cmp_value, list_like, is_array_arg
    captured = []
    fixup = build_operator_operand_fixup(lambda *a: captured.append(a))
    nums, texts, bools, blanks = pool(ctx)
    values = nums + texts + bools + blanks + ERRORS
    # sampled extras
    for _ in range(ctx.n(40, 400)):
        k = ctx.rng.random()
        if k < 0.4:
            values.append(ctx.rng.randrange(-2 ** 26, 2 ** 26))
        elif k < 0.7:
            values.append(ctx.rng.randrange(-2 ** 20, 2 ** 20) / 2 ** ctx.rng.randrange(1, 12))
        else:
            t = "".join(ctx.rng.choice('abAB 12.-e') for _ in range(ctx.rng.randrange(1, 6)))
            if float_exact_text(t):
                values.append(t)
    ctx.extra['rule'] = (
        "every (left, operator, right) over a pool of numbers (ints, integral and dyadic floats), text "
        "(empty, case variants, numeric-looking, padded, exponent, Latin-1/CJK), logicals, blank/None, "
        "#EMPTY!, the seven error codes, plus PRNG-sampled numbers and strings, for the 13 operator "
        "names the compiled code passes to the fix-up function; distinct = distinct triple")
    calls = []
    # operands that python's == identifies although their Excel types differ, applied back to
    # back through the SAME operator closure (anything keyed by ==/hash would confuse them)
    twins = [[1, True, 1.0, '1'], [0, False, 0.0, None, '#EMPTY!', '', '0'], [2, 2.0, '2', '2.0'],
             [-8, -8.0, '-8', '-8.0']]
    partners = [1, True, 0, False, 2.0, '2.0', '2', 'a', None, 0.5, -1]
    for group in twins:
        for b in partners:
            for i, o in enumerate(OPS):
                if o == 'USub':
                    continue
                for a in group:
                    if o != 'Pow' or pow_ok(a, b):
                        calls.append((a, i, o, b))
                for a in group:
                    if o != 'Pow' or pow_ok(b, a):
                        calls.append((b, i, o, a))
    n_twin_calls = len(calls)
    for l, r in itertools.product(values, values):
        for i, o in enumerate(OPS):
            if o == 'USub' and l != '#EMPTY!':
                continue        # the compiler always passes EMPTY on the left of unary minus
            if o == 'Pow' and not pow_ok(l, r):
                continue        # "numbers of moderate magnitude": keep x**y computable
            calls.append((l, i, o, r))
    # neighbouring doubles (seeded change C10-eq-isclose-numbers: '=' made tolerant while '<' stayed exact): the six
    # comparisons of a double with the next double up / down go through the model and the oracles like every other call
    import math
    near_bases = [0.3, 0.1 + 0.2, 1.0, -2.5, 123456.789, 1e15, 5e-324, 0.7 - 0.4, 2.0 ** 52, -1e-7] + \
        [ctx.rng.uniform(-1000, 1000) for _ in range(ctx.n(10, 200))]
    near_pairs = []
    for a in near_bases:
        for b in (math.nextafter(a, math.inf), math.nextafter(a, -math.inf)):
            near_pairs += [(a, b), (b, a)]
    for l, r in near_pairs:
        for i, o in enumerate(OPS):
            if o in CMP:
                calls.append((l, i, o, r))
    impl = [run_impl(fixup, l, o, r) for (l, i, o, r) in calls]
    for l, r in near_pairs:
        res = {o: run_impl(fixup, l, o, r) for o in CMP}
        ctx.count(('near', repr(l), repr(r)), kind='oracle-cmp-neighbouring-doubles')
        want = {'Eq': False, 'NotEq': True, 'Lt': l < r, 'LtE': l < r, 'Gt': l > r, 'GtE': l > r}
        if any(res[o] != ('ok', want[o]) for o in CMP):
            ctx.violation(dict(call='fixup', args=[l, 'cmp', r], oracle='neighbouring doubles'),
                          "two different numbers: not exactly one of <, =, > holds / complements",
                          impl={o: res[o] for o in CMP}, expected=want)
    # an operator is a function of its operands: the same application through a fresh closure
    for (l, i, o, r), im in zip(calls[:n_twin_calls], impl[:n_twin_calls]):
        alone = run_impl(build_operator_operand_fixup(lambda *a: None), l, o, r)
        if alone != im:
            ctx.violation(dict(call='fixup', args=[l, o, r], after='python-equal operands of another type'),
                          "the result of an operator depends on what was evaluated before it",
                          impl=im, expected=alone)
    model = [dec_res(x) for x in ctx.model.batch(
        [('fixup', [enc_val(l), i, enc_val(r)]) for (l, i, o, r) in calls])] if ctx.model else None
    unmodelled = 0
    for idx, ((l, i, o, r), im) in enumerate(zip(calls, impl)):
        case = dict(call='fixup', args=[l, o, r])
        ctx.count((repr(l), o, repr(r)), kind=o, sample=dict(case, impl=im))
        if model is not None:
            m = model[idx]
            if m[0] == 'raise' and m[1] in ('Unmodelled', 'OutOfFuel'):
                unmodelled += 1
            elif o == 'Pow' and inexact(m):
                ctx.histogram['pow_not_representable'] = ctx.histogram.get('pow_not_representable', 0) + 1
            elif not same(m, im):
                ctx.divergence(case, im, m, 'Model/Ops.v fixup = excelutil fixup')
        # ---- oracle 1: total, closed under {number, text, logical, error}
        if im[0] == 'raise':
            ctx.violation(case, f"operator raises {im[1]}", impl=im)
            continue
        v = im[1]
        if isinstance(v, tuple) and v and v[0] == 'complex':
            ctx.violation(case, "operator yields a complex number", impl=im)
            continue
        # ---- oracle 2: errors propagate unchanged, left first
        if l in ERRORS:
            if v != l:
                ctx.violation(case, "left error operand not returned unchanged", impl=im, expected=l)
            continue
        if r in ERRORS:
            if v != r:
                ctx.violation(case, "right error operand not returned unchanged", impl=im, expected=r)
            continue
    ctx.histogram['unmodelled'] = unmodelled
    # ---- oracle 3: coercion / concat / ordering statements on the implementation
    plain = [v for v in values if v not in ERRORS]
    f = lambda l, o, r: run_impl(fixup, l, o, r)       # noqa: E731

    def render(v):
        if v is None or v == '#EMPTY!':
            return ''
        if isinstance(v, bool):
            return 'TRUE' if v else 'FALSE'
        if isinstance(v, (int, float)):
            if float(v) == int(v):
                return str(int(v))
            return repr(float(v))
        return v
    for l, r in itertools.product(plain, plain):
        nl, nr = excel_number(l), excel_number(r)
        for o in ('Add', 'Sub', 'Mult', 'Div', 'Pow'):
            if o == 'Pow' and (nl is None or nr is None or not pow_ok(nl, nr) or (nl == 0 and nr <= 0)
                               or abs(nl) > 64 or abs(nr) > 8 or nr != int(nr)):
                continue
            case = dict(call='fixup', args=[l, o, r])
            got = f(l, o, r)
            ctx.count(('arith', repr(l), o, repr(r)), kind='oracle-arith')
            if nl is None or nr is None:
                if got != ('ok', '#VALUE!'):
                    ctx.violation(case, "non-numeric text operand does not give #VALUE!", impl=got,
                                  expected='#VALUE!')
            elif o == 'Div' and nr == 0:
                if got != ('ok', '#DIV/0!'):
                    ctx.violation(case, "division by zero is not #DIV/0!", impl=got, expected='#DIV/0!')
            else:
                want = f(nl, o, nr)
                if not num_same(got, want):
                    ctx.violation(case, "operand is not treated as the number it stands for", impl=got,
                                  expected=want)
        # ^ against the real power function (seeded change C02-pow-zero-base-fractional: the guard "negative base,
        # fractional exponent -> #NUM!" widened to a zero base): a negative base with a non-integral exponent is #NUM!,
        # 0 to a negative power #DIV/0!, every other pair a NUMBER equal to pow(l, r); 0^0 is left out (pycel: 1,
        # Excel: #NUM!)
        if nl is not None and nr is not None and pow_ok(nl, nr) and not (nl == 0 and nr == 0):
            import math
            import fractions
            case = dict(call='fixup', args=[l, 'Pow', r], oracle='pow-value')
            got = f(l, 'Pow', r)
            ctx.count(('pow-value', repr(l), repr(r)), kind='oracle-pow-value')
            if nl < 0 and nr != int(nr):
                if got != ('ok', '#NUM!'):
                    ctx.violation(case, "negative base to a fractional power is not #NUM!", impl=got, expected='#NUM!')
            elif nl == 0 and nr < 0:
                if got != ('ok', '#DIV/0!'):
                    ctx.violation(case, "0 to a negative power is not #DIV/0!", impl=got, expected='#DIV/0!')
            else:
                want = math.pow(nl, nr)
                num = got[1] if got[0] == 'ok' else None
                if isinstance(num, tuple) and len(num) == 2 and num[0] == 'float':
                    num = num[1]                       # run_impl: a float is ('float', Fraction)
                ok = isinstance(num, (int, float, fractions.Fraction)) and not isinstance(num, bool) and \
                    abs(float(num) - want) <= 1e-12 * abs(want)
                if not ok:
                    ctx.violation(case, "x ^ y is not the power of the numbers the operands stand for", impl=got,
                                  expected=want)
        case = dict(call='fixup', args=[l, 'BitAnd', r])
        got = f(l, 'BitAnd', r)
        want = ('ok', render(l) + render(r))
        ctx.count(('concat', repr(l), repr(r)), kind='oracle-concat')
        if got != want:
            ctx.violation(case, "& is not the concatenation of the Excel renderings", impl=got, expected=want)
        # trichotomy and complements
        res = {o: f(l, o, r) for o in CMP}
        ctx.count(('cmp', repr(l), repr(r)), kind='oracle-cmp')
        case = dict(call='fixup', args=[l, 'cmp', r])
        if any(x[0] != 'ok' or not isinstance(x[1], bool) for x in res.values()):
            ctx.violation(case, "comparison does not return a logical", impl=res)
            continue
        lt, eq, gt = res['Lt'][1], res['Eq'][1], res['Gt'][1]
        if [lt, eq, gt].count(True) != 1:
            ctx.violation(case, "not exactly one of <, =, > holds", impl=res)
        if res['NotEq'][1] != (not eq) or res['LtE'][1] != (not gt) or res['GtE'][1] != (not lt):
            ctx.violation(case, "<>, <=, >= are not the complements of =, >, <", impl=res)
    # order: numbers < text < logicals, case-insensitive text, transitivity on non-blank values
    nonblank = [v for v in plain if v is not None and v != '#EMPTY!']

    def rank(v):
        return 2 if isinstance(v, bool) else 1 if isinstance(v, str) else 0
    for l, r in itertools.product(nonblank, nonblank):
        if rank(l) < rank(r) and f(l, 'Lt', r) != ('ok', True):
            ctx.violation(dict(call='fixup', args=[l, 'Lt', r]), "numbers < text < logicals violated",
                          impl=f(l, 'Lt', r), expected=True)
        if isinstance(l, str) and isinstance(r, str) and l.lower() == r.lower() \
                and f(l, 'Eq', r) != ('ok', True):
            ctx.violation(dict(call='fixup', args=[l, 'Eq', r]), "text comparison is case sensitive",
                          impl=f(l, 'Eq', r), expected=True)
    sub = nonblank if ctx.tier == 'thorough' else ctx.rng.sample(nonblank, min(len(nonblank), 26))
    le = {(i, j): f(a, 'LtE', b) == ('ok', True) for i, a in enumerate(sub) for j, b in enumerate(sub)}
    for i, j, k in itertools.product(range(len(sub)), repeat=3):
        ctx.evaluations += 1
        if le[i, j] and le[j, k] and not le[i, k]:
            ctx.violation(dict(call='fixup', args=[sub[i], 'LtE-chain', sub[j], sub[k]]),
                          "<= is not transitive", impl=[sub[i], sub[j], sub[k]])
    # the other order laws proved for non-blank operands (C10_lt_transitive, C10_le_antisymmetric,
    # C10_le_total, C10_eq_equivalence), evaluated on the implementation over the same sample
    lt = {(i, j): f(a, 'Lt', b) == ('ok', True) for i, a in enumerate(sub) for j, b in enumerate(sub)}
    eq = {(i, j): f(a, 'Eq', b) == ('ok', True) for i, a in enumerate(sub) for j, b in enumerate(sub)}
    for i, j in itertools.product(range(len(sub)), repeat=2):
        ctx.count(('order-laws', repr(sub[i]), repr(sub[j])), kind='oracle-order')
        case = dict(call='fixup', args=[sub[i], 'order', sub[j]])
        if not (le[i, j] or le[j, i]):
            ctx.violation(case, "neither a <= b nor b <= a", impl=[sub[i], sub[j]])
        if le[i, j] and le[j, i] and not eq[i, j]:
            ctx.violation(case, "a <= b and b <= a but not a = b", impl=[sub[i], sub[j]])
        if eq[i, j] != eq[j, i]:
            ctx.violation(case, "= is not symmetric", impl=[sub[i], sub[j]])
        if i == j and not eq[i, i]:
            ctx.violation(case, "= is not reflexive", impl=[sub[i]])
        if lt[i, j] != (le[i, j] and not eq[i, j]):
            ctx.violation(case, "< is not (<= and not =)", impl=[sub[i], sub[j]])
    for i, j, k in itertools.product(range(len(sub)), repeat=3):
        ctx.evaluations += 1
        if lt[i, j] and lt[j, k] and not lt[i, k]:
            ctx.violation(dict(call='fixup', args=[sub[i], 'Lt-chain', sub[j], sub[k]]),
                          "< is not transitive", impl=[sub[i], sub[j], sub[k]])
        if eq[i, j] and eq[j, k] and not eq[i, k]:
            ctx.violation(dict(call='fixup', args=[sub[i], 'Eq-chain', sub[j], sub[k]]),
                          "= is not transitive", impl=[sub[i], sub[j], sub[k]])
    # one number type (C10_arith_value, C10_concat_integral_float): an integral float and the
    # integer of the same value are interchangeable in every operator, and render without ".0"
    # whatever their magnitude (up to 2^53, where every integer is a double)
    ints = [int(v) for v in values if isinstance(v, float) and v == int(v)]
    ints += [ctx.rng.randrange(-2 ** 53, 2 ** 53) for _ in range(ctx.n(12, 120))] + [2 ** 53, -2 ** 53, 10 ** 15]
    partners2 = [p_ for p_ in plain if not isinstance(p_, float)][:40] + [0.5, -1.5]
    for n in ints:
        x = float(n)
        got = f(x, 'BitAnd', 'x')
        ctx.count(('integral-float', n), kind='oracle-integral-float')
        if got != ('ok', str(n) + 'x'):
            ctx.violation(dict(call='fixup', args=[x, 'BitAnd', 'x']),
                          "an integral float does not render as the integer", impl=got, expected=str(n) + 'x')
        for r in partners2:
            small = abs(n) <= 2 ** 26           # keep + - * / inside the float-exact domain
            for o in (['Add', 'Sub', 'Mult', 'Div'] if small else []) + CMP + ['BitAnd']:
                for a, b in ((x, r), (r, x)):
                    a2, b2 = (n if a is x else a), (n if b is x else b)
                    g1, g2 = f(a, o, b), f(a2, o, b2)
                    ctx.evaluations += 1
                    if not num_same(g1, g2):
                        ctx.violation(dict(call='fixup', args=[a, o, b]),
                                      "an integral float and the integer of the same value give different results",
                                      impl=g1, expected=g2)
    # ---- correspondence for the generated coercion helpers
    helper_calls = []
    for v in values + [((1, 2), (3, 4)), (('7',),), (1, 2), [1, 2], ((None,),)]:
        helper_calls += [('coerce_to_number', (v, True)), ('coerce_to_number', (v, False)),
                         ('coerce_to_string', (v,)), ('is_number', (v,)), ('type_cmp_value', (v,)),
                         ('list_like', (v,)), ('is_array_arg', (v,))]
    fn = dict(coerce_to_number=coerce_to_number, coerce_to_string=coerce_to_string, is_number=is_number,
              type_cmp_value=type_cmp_value, list_like=list_like, is_array_arg=is_array_arg)
    if ctx.model:
        ms = [dec_res(x) for x in ctx.model.batch([(n, [enc_val(a) for a in args]) for n, args in helper_calls])]
        for (n, args), m in zip(helper_calls, ms):
            im = run_impl(fn[n], *args)
            ctx.count((n, repr(args)), kind='helper:' + n)
            if m[0] == 'raise' and m[1] in ('Unmodelled', 'OutOfFuel'):
                continue
            if not same(m, im):
                ctx.divergence(dict(call=n, args=list(args)), im, m, f'Gen/excelutil.v f_{n} = excelutil.{n}')
