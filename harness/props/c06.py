"""C06 — iterative calculation: bounded, tolerance-honest, agrees with plain evaluation.

Correspondence: the hand-written model coq/Model/Iter.v (extracted) and the real
ExcelCompiler in iterative mode run the same histories of evaluate(address,
iterations, tolerance) / set_value on generated workbooks (contracting circular
linear systems, acyclic workbooks, formulas over SUM(range)); after every
operation the result, the pass count (iterative_eval_tracker.ns.iteration_number),
every cell's (_value, _prev_value, wip), every range's cached value and the
tracker's todo/computed sets are compared exactly (numbers as exact rationals;
an int and the equal float count as the same number).

Oracle (independent of the model): pass count within [1, iterations]; early stop
=> every formula cell of the target's cone changed by at most the tolerance in
the last pass and lies within q/(1-q)*tolerance of the exact fixed point (rational
Gaussian elimination); a contracting system of cell formulas whose cone was built
by an earlier evaluate is, after p passes, within q^p of its distance to the fixed
point before the call (the statement of C06_decay, on the implementation); acyclic
workbooks: the result equals what a fresh non-iterative compiler returns for the
same workbook contents.
"""
import ast
import hashlib
import logging
from fractions import Fraction as Fr

from harness.common import ensure_impl_on_path, known_predicate

GEN_MODULES = []
EXTRA_TARGETS = ('Refuted/C06_acyclic.vo',)
ASSUMPTIONS = []
EXPLANATION = (
    "Model/Iter.v is hand-written (closures, threading.local state, openpyxl are outside the "
    "translated subset); the tie to the source is the differential run plus a fingerprint of the "
    "anchored functions' ASTs. C06_bounded, C06_tolerance, C06_contraction_step/_bound are proved for "
    "all workbooks/systems; C06_pass_total/C06_fuel_sufficient: the fuel #cells+1 never runs out (any workbook); "
    "C06_cone_pass/C06_decay/C06_exhausted/C06_converged: end-to-end bounds for contracting systems of cell "
    "formulas from a built, quiescent cone (q^n decay; q/(1-q)(1+1e-5)tol after an early stop), a state every "
    "history of evaluates and constant writes produces (C06_ready_*); "
    "C06_acyclic_partial/_total exclude range nodes and first use (both refuted: Refuted/C06_acyclic.v).")

COLS = 'ABC'
NROWS = 3
NCELL = len(COLS) * NROWS
SHEET = 'S'

ITS = (1, 2, 5, 100)
TOLS = (Fr(1), Fr(1, 16), Fr(1, 1024))


def addr(i):
    return f"{COLS[i % len(COLS)]}{i // len(COLS) + 1}"


def full(i):
    return f"{SHEET}!{addr(i)}"


def rect(c0, r0, c1, r1):
    """range as (address, [member cell indices row-major])"""
    ms = [r * len(COLS) + c for r in range(r0, r1 + 1) for c in range(c0, c1 + 1)]
    return f"{COLS[c0]}{r0 + 1}:{COLS[c1]}{r1 + 1}", ms


# ------------------------------------------------------------------ known causes
@known_predicate('C06-construction-counts-as-computed')
def _k_construct(case):
    """A cell is constructed through the value setter, so in the pass that first
    brings it into the model it counts as computed and answers with what the file
    stored (nothing, for a workbook without stored results)."""
    return bool(case.get('fresh_cells'))


@known_predicate('C06-range-cached-forever')
def _k_range(case):
    """Range nodes keep the value-is-None cache test and set_value does not reset in
    iterative mode: a formula over a range never sees later changes of its cells."""
    return bool(case.get('has_range')) and not case.get('fresh_cells')


@known_predicate('C06-tolerance-slack')
def _k_slack(case):
    """close_enough compares with (1 + 1e-5) * tolerance: a change in
    (tolerance, 1.00001 tolerance) does not schedule another pass."""
    return case.get('label') == 'sliver'


# ------------------------------------------------------------------ generation
def fmt_num(q):
    q = Fr(q)
    if q.denominator == 1:
        return str(q.numerator)
    return repr(float(q))


def formula_text(b, terms, ranges):
    s = '=' + fmt_num(b)
    for kind, a, j in terms:
        ref = addr(j) if kind == 0 else f"SUM({ranges[j][0]})"
        s += ('+' if a >= 0 else '-') + fmt_num(abs(a)) + '*' + ref
    return s


class WB:
    """cells[i] = dict(stored=Fraction|None, formula=None|(b, [(kind, a, idx)])); ranges = [(addr, members)]"""

    def __init__(self, cells, ranges, kind, with_data, scale=Fr(1)):
        self.cells, self.ranges, self.kind, self.with_data = cells, ranges, kind, with_data
        self.scale = scale      # every constant, stored result and formula offset is a multiple of this power of two

    def refs(self, i):
        f = self.cells[i]['formula']
        out = []
        if f:
            for kind, a, j in f[1]:
                out.extend([j] if kind == 0 else self.ranges[j][1])
        return out

    def cone(self, t):
        seen, todo = set(), [t]
        while todo:
            c = todo.pop()
            if c not in seen:
                seen.add(c)
                todo.extend(self.refs(c))
        return seen

    def cone_ranges(self, t):
        out = set()
        for c in self.cone(t):
            f = self.cells[c]['formula']
            if f:
                out.update(j for kind, a, j in f[1] if kind == 1)
        return out

    def cyclic(self):
        color = {}

        def visit(c):
            color[c] = 1
            for d in self.refs(c):
                if color.get(d) == 1 or (d not in color and visit(d)):
                    return True
            color[c] = 2
            return False
        return any(c not in color and visit(c) for c in range(NCELL))

    def matrix(self, consts):
        """x = A x + b over all cells, constants folded into b"""
        A = [[Fr(0)] * NCELL for _ in range(NCELL)]
        b = [Fr(0)] * NCELL
        for i, c in enumerate(self.cells):
            if c['formula'] is None:
                b[i] = Fr(consts[i] or 0)
            else:
                b[i] = Fr(c['formula'][0])
                for kind, a, j in c['formula'][1]:
                    for m in ([j] if kind == 0 else self.ranges[j][1]):
                        A[i][m] += a
        return A, b

    def describe(self):
        return dict(cells={addr(i): (formula_text(c['formula'][0], c['formula'][1], self.ranges)
                                     if c['formula'] else c['stored'])
                           for i, c in enumerate(self.cells) if c['formula'] or c['stored'] is not None},
                    stored={addr(i): c['stored'] for i, c in enumerate(self.cells)
                            if c['formula'] and c['stored'] is not None} if self.with_data else None)


def solve(A, b):
    """exact solution of (I - A) x = b, or None"""
    n = len(b)
    M = [[(Fr(1) if i == j else Fr(0)) - A[i][j] for j in range(n)] + [b[i]] for i in range(n)]
    for col in range(n):
        piv = next((r for r in range(col, n) if M[r][col] != 0), None)
        if piv is None:
            return None
        M[col], M[piv] = M[piv], M[col]
        pv = M[col][col]
        M[col] = [x / pv for x in M[col]]
        for r in range(n):
            if r != col and M[r][col] != 0:
                f = M[r][col]
                M[r] = [x - f * y for x, y in zip(M[r], M[col])]
    return [M[i][n] for i in range(n)]


FAST_ROWS = [[Fr(1, 2)], [Fr(1, 4)], [Fr(1, 8)], [Fr(1, 4), Fr(1, 4)], [Fr(1, 4), Fr(1, 8)],
             [Fr(1, 8), Fr(1, 8)], [Fr(1, 8), Fr(1, 8), Fr(1, 8)]]
SLOW_ROWS = [[Fr(1, 2), Fr(1, 4)], [Fr(1, 2), Fr(1, 8)], [Fr(1, 4), Fr(1, 4), Fr(1, 4)],
             [Fr(1, 2), Fr(1, 8), Fr(1, 8)], [Fr(3, 4)], [Fr(1, 2), Fr(1, 4), Fr(1, 8)]]


def rand_dyadic(rng, big=8):
    return Fr(rng.randrange(-big * 4, big * 4 + 1), rng.choice((1, 1, 2, 4)))


def gen_ranges(rng, k):
    out = []
    for _ in range(k):
        shape = rng.choice(('col', 'row', 'block', 'col'))
        if shape == 'col':
            c = rng.randrange(3)
            r0 = rng.randrange(2)
            out.append(rect(c, r0, c, rng.randrange(r0 + 1, 3)))
        elif shape == 'row':
            r = rng.randrange(3)
            c0 = rng.randrange(2)
            out.append(rect(c0, r, rng.randrange(c0 + 1, 3), r))
        else:
            c0, r0 = rng.randrange(2), rng.randrange(2)
            out.append(rect(c0, r0, c0 + 1, r0 + 1))
    return [r for k, r in enumerate(out) if r[0] not in [x[0] for x in out[:k]]]     # distinct addresses


def gen_cyclic(rng, fast):
    """contracting circular linear system: 2-6 variable cells in 1-2 rings, optional
    constants, optional SUM(range) terms; every row has sum |a_ij| <= q < 1."""
    nvar = rng.randrange(1, 7)
    pos = rng.sample(range(NCELL), min(NCELL, nvar + rng.randrange(0, 3)))
    var, const = pos[:nvar], pos[nvar:]
    use_range = rng.random() < 0.3
    ranges = gen_ranges(rng, rng.randrange(1, 3)) if use_range else []
    if nvar >= 2 and rng.random() < 0.4:
        k = rng.randrange(1, nvar)
        rings = [var[:k], var[k:]]
    else:
        rings = [var]
    nxt = {}
    for ring in rings:
        for idx, c in enumerate(ring):
            nxt[c] = ring[(idx + 1) % len(ring)]
    cells = [dict(stored=None, formula=None) for _ in range(NCELL)]
    for c in const:
        cells[c]['stored'] = rand_dyadic(rng)
    for c in var:
        row = list(rng.choice(FAST_ROWS if fast or rng.random() < 0.5 else SLOW_ROWS))
        rng.shuffle(row)
        terms = []
        for idx, a in enumerate(row):
            a = a if rng.random() < 0.6 else -a
            if idx == 0:
                terms.append((0, a, nxt[c]))
            elif ranges and rng.random() < 0.5:
                j = rng.randrange(len(ranges))
                a = a / 4 if len(ranges[j][1]) > 2 else a / 2      # a per member: keep the row sum below 1
                terms.append((1, a, j))
            else:
                terms.append((0, a, rng.choice(pos)))
        rng.shuffle(terms)
        cells[c]['formula'] = (rand_dyadic(rng), terms)
    with_data = rng.random() < 0.5
    if with_data:
        for c in var:
            if rng.random() < 0.85:
                cells[c]['stored'] = rand_dyadic(rng)
    return WB(cells, ranges, 'cyclic', with_data)


def gen_acyclic(rng):
    """acyclic workbook: formulas refer to cells earlier in a random order; SUM ranges
    are kept only when they do not close a cycle; stored results (when present) are
    the exact values."""
    n = rng.randrange(2, NCELL + 1)
    order = rng.sample(range(NCELL), n)
    ranges = gen_ranges(rng, rng.randrange(1, 3)) if rng.random() < 0.35 else []
    cells = [dict(stored=None, formula=None) for _ in range(NCELL)]
    wb = WB(cells, ranges, 'acyclic', rng.random() < 0.5)
    nconst = rng.randrange(1, max(2, n // 2 + 1))
    for c in order[:nconst]:
        cells[c]['stored'] = rand_dyadic(rng)
    for idx in range(nconst, n):
        c = order[idx]
        for attempt in range(6):
            terms = []
            for _ in range(rng.randrange(1, 4)):
                a = rng.choice((Fr(1), Fr(2), Fr(-1), Fr(1, 2), Fr(3), Fr(-1, 4), Fr(1)))
                if ranges and rng.random() < 0.4 and attempt < 4:
                    terms.append((1, a, rng.randrange(len(ranges))))
                else:
                    terms.append((0, a, rng.choice(order[:idx] if attempt < 5 else order[:1])))
            cells[c]['formula'] = (rand_dyadic(rng), terms)
            if not wb.cyclic():        # a range may close a cycle through a later cell: draw again
                break
    if wb.with_data:
        A, b = wb.matrix([c['stored'] for c in cells])
        x = solve(A, b)
        for i, c in enumerate(cells):
            if c['formula']:
                c['stored'] = x[i]
    return wb


def gen_ops(rng, wb, fast):
    formulas = [i for i, c in enumerate(wb.cells) if c['formula']]
    consts = [i for i, c in enumerate(wb.cells) if not c['formula']]
    ops = []
    for _ in range(rng.randrange(2, 6)):
        if ops and rng.random() < 0.4:
            if wb.kind == 'cyclic' and rng.random() < 0.15:
                c = rng.choice(formulas)
            else:
                c = rng.choice(consts) if consts else rng.choice(formulas)
            if wb.kind == 'acyclic' and wb.cells[c]['formula']:
                continue
            ops.append(('set', c, rand_dyadic(rng) if rng.random() < 0.9 else wb.cells[c]['stored']))
        else:
            t = rng.choice(formulas) if rng.random() < 0.92 or not consts else rng.choice(consts)
            it = rng.choice(ITS if fast else ITS[:3])
            ops.append(('eval', t, it, rng.choice(TOLS)))
    return ops


# ------------------------------------------------------------------ magnitude sweep
def pick_scale(rng):
    """2^-k or 2^+k, k in 1..70; half of the small ones are at or beyond the resolution of doubles near 1
    (tolerances 2^-k, 2^-k/16, 2^-k/1024 below 2^-52)."""
    k = rng.randrange(1, 71) if rng.random() < 0.5 else rng.randrange(43, 71)
    return Fr(1, 2 ** k) if rng.random() < 0.65 else Fr(2 ** k)


def rescale(wb, ops, s):
    """The same system in other units: constants, stored results, formula offsets, written values and
    tolerances multiplied by the power of two s; the coefficients (the contraction) stay.  Multiplying by a
    power of two is exact in binary floating point, so the scaled history is the unscaled one times s, pass
    for pass - when the tolerance is honoured at every magnitude."""
    cells = [dict(stored=None if c['stored'] is None else c['stored'] * s,
                  formula=None if c['formula'] is None else (c['formula'][0] * s, list(c['formula'][1])))
             for c in wb.cells]
    ops2 = [(o[0], o[1], o[2], o[3] * s) if o[0] == 'eval' else
            (o[0], o[1], None if o[2] is None else o[2] * s) for o in ops]
    return WB(cells, wb.ranges, wb.kind, wb.with_data, scale=wb.scale * s), ops2


# ------------------------------------------------------------------ wire
def enc_q(q):
    q = Fr(q)
    return [q.numerator, q.denominator]


def enc_v(v):
    return [] if v is None else enc_q(v)


def model_args(wb, ops):
    cs = [[enc_v(c['stored']), ([enc_q(c['formula'][0]), [[k, enc_q(a), j] for k, a, j in c['formula'][1]]]
                                if c['formula'] else [])] for c in wb.cells]
    rs = [list(ms) for _, ms in wb.ranges]
    os_ = [[0, o[1], o[2], enc_q(o[3])] if o[0] == 'eval' else [1, o[1], enc_v(o[2])] for o in ops]
    return [cs, rs, os_]


def dec_v(x):
    return None if x == [] else Fr(x[0], x[1])


def dec_state(x):
    cells = [(bool(c[0]), dec_v(c[1]), dec_v(c[2]), bool(c[3])) for c in x[0]]
    rngs = [(bool(r[0]), None if r[1] == [] else [dec_v(v) for v in r[1][0]]) for r in x[1]]
    return dict(cells=cells, ranges=rngs, todo=sorted(x[2]), computed=sorted(x[3]))


EXN = {6: 'AssertionError', 98: 'Unmodelled', 99: 'OutOfFuel'}


def dec_obs(x):
    if x[0] == 0:
        return dict(kind='eval', result=dec_v(x[1]), passes=x[2], state=dec_state(x[3]))
    if x[0] == 1:
        return dict(kind='set', state=dec_state(x[1]))
    return dict(kind='raise', exc=EXN.get(x[1], str(x[1])))


# ------------------------------------------------------------------ implementation side
def as_q(v):
    if v is None:
        return None
    if isinstance(v, (int, float)) and not isinstance(v, bool):
        return Fr(v)
    return ('other', repr(v))


class Impl:
    def __init__(self):
        ensure_impl_on_path()
        logging.disable(logging.CRITICAL)
        import openpyxl
        from openpyxl.workbook.properties import CalcProperties
        from pycel import ExcelCompiler
        from pycel.excelutil import iterative_eval_tracker
        from pycel.excelwrapper import ExcelOpxWrapper
        self.openpyxl, self.CalcProperties, self.ExcelCompiler = openpyxl, CalcProperties, ExcelCompiler
        self.tracker, self.ExcelOpxWrapper = iterative_eval_tracker, ExcelOpxWrapper

    def workbook(self, wb, iterate, values=None, data_sheet=False):
        """openpyxl workbook; data_sheet=True: the values-only twin (stored results)"""
        o = self.openpyxl.Workbook()
        ws = o.active
        ws.title = SHEET
        for i, c in enumerate(wb.cells):
            v = c['stored'] if values is None or c['formula'] else values[i]
            if c['formula'] and not data_sheet:
                ws[addr(i)] = formula_text(c['formula'][0], c['formula'][1], wb.ranges)
            elif v is not None and (data_sheet or not c['formula']):
                ws[addr(i)] = float(v)     # one numeric type everywhere: set_value also compares types
        o.calculation = self.CalcProperties(iterate=iterate, iterateCount=100, iterateDelta=0.001)
        return o

    def compiler(self, wb):
        o = self.workbook(wb, True)
        if not wb.with_data:
            return self.ExcelCompiler(excel=o)
        w = self.ExcelOpxWrapper('c06-in-memory.xlsx')
        w.workbook = o
        w.workbook_dataonly = self.workbook(wb, True, data_sheet=True)
        w.load_array_formulas()
        return self.ExcelCompiler(excel=w)

    def plain_value(self, wb, values, t):
        """what a fresh non-iterative compiler returns for the workbook with these constants"""
        c = self.ExcelCompiler(excel=self.workbook(wb, False, values=values))
        return c.evaluate(full(t))

    def snapshot(self, wb, comp):
        ids = {}
        cells = []
        for i in range(NCELL):
            c = comp.cell_map.get(full(i))
            if c is None:
                cells.append((False, None, None, False))
            else:
                ids[id(c)] = i
                cells.append((True, as_q(c._value), as_q(c._prev_value), bool(c.wip)))
        rngs = []
        for a, ms in wb.ranges:
            r = comp.cell_map.get(f"{SHEET}!{a}")
            if r is None:
                rngs.append((False, None))
            else:
                rngs.append((True, None if r.value is None else [as_q(v) for row in r.value for v in row]))
        ns = self.tracker.ns
        return dict(cells=cells, ranges=rngs,
                    todo=sorted(ids.get(id(c), -1) for c in ns.todo),
                    computed=sorted(ids.get(id(c), -1) for c in ns.computed))

    def run(self, wb, ops):
        comp = self.compiler(wb)
        out = []
        for o in ops:
            try:
                if o[0] == 'eval':
                    r = comp.evaluate(full(o[1]), iterations=o[2], tolerance=float(o[3]))
                    out.append(dict(kind='eval', result=as_q(r), passes=self.tracker.ns.iteration_number,
                                    state=self.snapshot(wb, comp)))
                else:
                    v = o[2]
                    if v is not None:
                        v = float(v)
                    comp.set_value(full(o[1]), v)
                    out.append(dict(kind='set', state=self.snapshot(wb, comp)))
            except AssertionError:
                out.append(dict(kind='raise', exc='AssertionError'))
            except Exception as exc:      # noqa: BLE001
                out.append(dict(kind='raise', exc=type(exc).__name__))
                break
        return out


def exact(obs, scale=Fr(1)):
    """every number of the model's answer is a double (so the implementation's floats were exact); for a
    rescaled workbook the numbers are judged in units of its scale (a power of two, 2^-70..2^70: far from
    overflow and from the subnormal range, so the scaled operations round exactly as the unscaled ones)"""
    def ok(q):
        # 48 bits leave room for the intermediate sums b + a1*x1 + ... of one formula
        if q is None:
            return True
        u = q / scale
        return abs(u.numerator) < 2 ** 48 and u.denominator <= 2 ** 48 and Fr(float(q)) == q
    for o in obs:
        if o['kind'] == 'raise':
            continue
        if o['kind'] == 'eval' and not ok(o['result']):
            return False
        for b, v, p, w in o['state']['cells']:
            if not (ok(v) and ok(p)):
                return False
    return True


# ------------------------------------------------------------------ source fingerprint
ANCHORS = {
    'excelcompiler.py': ['ExcelCompiler._evaluate_iterative', 'ExcelCompiler._evaluate_non_iterative',
                         'ExcelCompiler._evaluate', 'ExcelCompiler._evaluate_range', 'ExcelCompiler.set_value',
                         'ExcelCompiler._make_cells', 'ExcelCompiler._gen_graph',
                         'ExcelCompiler._process_gen_graph', 'ExcelCompiler.eval',
                         '_CellBase.close_enough', '_CellBase.needs_calc', '_CycleCell', '_Cell.__init__'],
    'excelutil.py': ['_IterativeEvalTracker'],
}
ANCHOR_DIGEST = '1eda03fe8caaa485'    # AST digest of the anchored functions when Model/Iter.v was transcribed


def anchor_digest(repo):
    import os
    h = hashlib.sha256()
    for fn, names in ANCHORS.items():
        tree = ast.parse(open(os.path.join(repo, 'src', 'pycel', fn)).read())
        index = {}
        for node in tree.body:
            if isinstance(node, ast.ClassDef):
                index[node.name] = node
                for sub in node.body:
                    if isinstance(sub, (ast.FunctionDef, ast.ClassDef)):
                        index[f"{node.name}.{sub.name}"] = sub
        for name in names:
            node = index.get(name)
            body = []
            if node is not None:
                for st in node.body:      # docstrings are not code
                    if not (isinstance(st, ast.Expr) and isinstance(getattr(st, 'value', None), ast.Constant)
                            and isinstance(st.value.value, str)):
                        body.append(ast.dump(st))
            h.update((name + '\n' + '\n'.join(body) + '\n').encode())
    return h.hexdigest()[:16]


# ------------------------------------------------------------------ the run
def check_case(ctx, impl, wb, ops, label=None):
    iobs = impl.run(wb, ops)
    margs = model_args(wb, ops)
    return (wb, ops, label, iobs, margs)


def oracle(ctx, impl, wb, ops, label, iobs):
    values = [c['stored'] if not c['formula'] else None for c in wb.cells]
    seen_cone = set()
    A0, _ = wb.matrix(values)
    q = max(sum(abs(x) for x in row) for row in A0)
    desc = wb.describe()
    hist = []
    before = None       # the cells as the previous operation left them
    for o, ob in zip(ops, iobs):
        hist.append([o[0], addr(o[1])] + [x for x in o[2:]])
        prev_cells, before = before, (ob['state']['cells'] if ob['kind'] != 'raise' else before)
        if ob['kind'] == 'raise':
            if o[0] == 'eval' or ob['exc'] != 'AssertionError':
                ctx.violation(dict(call=o[0], args=[desc, list(hist)], label=label),
                              f"{o[0]} raises {ob['exc']}", impl=ob['exc'])
                break
            continue
        if o[0] == 'set':
            if not wb.cells[o[1]]['formula']:
                values[o[1]] = o[2]
            continue
        t, it, tol = o[1], o[2], o[3]
        cone = wb.cone(t)
        fcone = {c for c in cone if wb.cells[c]['formula']}
        case = dict(call='evaluate', args=[desc, list(hist)], label=label,
                    fresh_cells=bool(fcone - seen_cone), has_range=bool(wb.cone_ranges(t)), kind=wb.kind)
        settled = cone <= seen_cone       # every cell of the cone was built by an earlier evaluate
        seen_cone |= cone
        p = ob['passes']
        if not (1 <= p <= it):
            ctx.violation(case, f"{p} passes for iterations={it}", impl=p, expected=f"1..{it}")
        cells = ob['state']['cells']
        if p < it:
            worst = None
            for c in sorted(fcone):
                b, v, pv, w = cells[c]
                d = None if not (isinstance(v, Fr) and isinstance(pv, Fr)) else abs(v - pv)
                if d is None or d > tol:
                    worst = (addr(c), v, pv)
                    break
            if worst:
                ctx.violation(case, f"stopped after {p} < {it} passes although {worst[0]} went from "
                              f"{worst[2]} to {worst[1]} in the last pass (tolerance {tol})",
                              impl=worst, expected=f"|change| <= {tol}")
            elif wb.kind == 'cyclic' and q < 1:
                A, b = wb.matrix(values)
                xs = solve(A, b)
                bound = q / (1 - q) * tol
                for c in sorted(fcone):
                    if abs(cells[c][1] - xs[c]) > bound:
                        ctx.violation(case, f"stopped early but {addr(c)} = {cells[c][1]} is farther than "
                                      f"q/(1-q)*tol = {bound} from the fixed point {xs[c]}",
                                      impl=cells[c][1], expected=xs[c])
                        break
        # geometric decay (C06_decay / C06_exhausted, on the implementation): a contracting system of cell
        # formulas whose cone is already built ends, after p passes, within q^p of its distance before the call
        # (q over the variables only, as in row_bound_f: references to constants belong to b)
        qf = max(sum(abs(x) for j, x in enumerate(row) if wb.cells[j]['formula']) for row in A0)
        if (wb.kind == 'cyclic' and qf < 1 and settled and prev_cells is not None and not case['has_range']
                and wb.cells[t]['formula'] and exact([ob], wb.scale)):
            A, b = wb.matrix(values)
            xs = solve(A, b)
            if xs is not None and all(isinstance(prev_cells[c][1], Fr) and isinstance(cells[c][1], Fr)
                                      for c in fcone):
                e0 = max(abs(prev_cells[c][1] - xs[c]) for c in fcone)
                e1 = max(abs(cells[c][1] - xs[c]) for c in fcone)
                ctx.histogram['decay-checked'] = ctx.histogram.get('decay-checked', 0) + 1
                if e1 > qf ** p * e0:
                    ctx.violation(case, f"after {p} passes the cone of {addr(t)} is {e1} from the fixed point, "
                                  f"more than q^{p} * {e0} (q = {qf})", impl=e1, expected=f"<= {qf ** p * e0}")
        if wb.kind == 'acyclic':
            want = as_q(impl.plain_value(wb, values, t))
            if ob['result'] != want:
                ctx.violation(case, f"iterative evaluate({addr(t)}) = {ob['result']}, plain evaluation = {want}",
                              impl=ob['result'], expected=want)


def compare(ctx, wb, ops, label, iobs, mobs):
    """model vs implementation, observation by observation"""
    case = dict(call='history', args=[wb.describe(), [[o[0], addr(o[1])] + list(o[2:]) for o in ops]])
    if any(m['kind'] == 'raise' and m['exc'] in ('Unmodelled', 'OutOfFuel') for m in mobs):
        ctx.histogram['unmodelled'] = ctx.histogram.get('unmodelled', 0) + 1
        return
    if not exact(mobs, wb.scale):
        ctx.histogram['inexact-skipped'] = ctx.histogram.get('inexact-skipped', 0) + 1
        return
    if len(iobs) != len(mobs):
        ctx.divergence(case, [o['kind'] for o in iobs], [o['kind'] for o in mobs], 'Model/Iter.v run_ops = history')
        return
    for k, (i, m) in enumerate(zip(iobs, mobs)):
        if i != m:
            diff = {key: (i.get(key), m.get(key)) for key in set(i) | set(m) if i.get(key) != m.get(key)}
            if 'state' in diff and i.get('state') and m.get('state'):
                diff = {key: (i['state'][key], m['state'][key]) for key in i['state']
                        if i['state'][key] != m['state'][key]} | {k2: v for k2, v in diff.items() if k2 != 'state'}
            ctx.divergence(dict(case, step=k), {k2: v[0] for k2, v in diff.items()},
                           {k2: v[1] for k2, v in diff.items()}, 'Model/Iter.v run_ops = ExcelCompiler history')
            return


def crafted(rng):
    """deterministic cases: the design round's findings and the tolerance sliver"""
    def cells(d):
        cs = [dict(stored=None, formula=None) for _ in range(NCELL)]
        for k, v in d.items():
            cs[k].update(v)
        return cs
    out = []
    # x = x/2 + b, second change lands in (tol, (1+1e-5) tol)
    b = 2 * (1 + Fr(1, 2 ** 17))
    wb = WB(cells({0: dict(formula=(b, [(0, Fr(1, 2), 0)]), stored=Fr(0))}), [], 'cyclic', True)
    out.append((wb, [('eval', 0, 1, Fr(1)), ('eval', 0, 100, Fr(1))], 'sliver'))
    # B1 = SUM(A1:A3) stays 6 after set_value(A1, 10)
    wb = WB(cells({0: dict(stored=Fr(1)), 3: dict(stored=Fr(2)), 6: dict(stored=Fr(3)),
                   1: dict(formula=(Fr(0), [(1, Fr(1), 0)]))}), [rect(0, 0, 0, 2)], 'acyclic', False)
    out.append((wb, [('eval', 1, 5, Fr(1)), ('set', 0, Fr(10)), ('eval', 1, 5, Fr(1))], 'range-stale'))
    # first use, no stored results; a cell built after its precedents
    wb = WB(cells({0: dict(stored=Fr(1)), 1: dict(formula=(Fr(1), [(0, Fr(1), 0)])),
                   2: dict(formula=(Fr(0), [(0, Fr(2), 1)]))}), [], 'acyclic', False)
    out.append((wb, [('eval', 1, 5, Fr(1)), ('eval', 2, 5, Fr(1)), ('eval', 2, 5, Fr(1))], 'first-use'))
    wb = WB(cells({0: dict(formula=(Fr(1), [(0, Fr(1, 2), 1)])), 1: dict(formula=(Fr(2), [(0, Fr(1, 2), 0)]))}),
            [], 'cyclic', False)
    out.append((wb, [('eval', 0, 100, Fr(1, 1024)), ('eval', 0, 100, Fr(1, 1024))], 'first-use-cyclic'))
    # a cycle that passes through a range
    wb = WB(cells({0: dict(formula=(Fr(1), [(1, Fr(1, 4), 0)])), 1: dict(formula=(Fr(2), [(0, Fr(1, 2), 0)])),
                   4: dict(stored=Fr(3))}), [rect(1, 0, 1, 1)], 'cyclic', False)
    out.append((wb, [('eval', 0, 100, Fr(1, 16)), ('eval', 0, 100, Fr(1, 16)), ('eval', 0, 100, Fr(1, 16))],
                'cycle-through-range'))
    return out


def file_smoke(ctx, impl):
    """the in-memory stored-results wrapper behaves like a real .xlsx with cached values"""
    import os
    import re
    import zipfile
    wb = WB([dict(stored=None, formula=None) for _ in range(NCELL)], [], 'cyclic', True)
    wb.cells[0] = dict(stored=Fr(3), formula=(Fr(1), [(0, Fr(1, 2), 1)]))
    wb.cells[1] = dict(stored=Fr(4), formula=(Fr(2), [(0, Fr(1, 2), 0)]))
    ops = [('eval', 0, 100, Fr(1, 1024)), ('eval', 1, 2, Fr(1))]
    mem = impl.run(wb, ops)
    path = os.path.join(ctx.work, 'c06-smoke.xlsx')
    impl.workbook(wb, True).save(path)
    tmp = path + '.tmp'
    with zipfile.ZipFile(path) as zin, zipfile.ZipFile(tmp, 'w') as zout:
        for item in zin.infolist():
            data = zin.read(item.filename)
            if item.filename == 'xl/worksheets/sheet1.xml':
                text = data.decode()
                for a, v in (('A1', 3), ('B1', 4)):
                    text = re.sub(r'(<c r="%s"[^>]*>.*?)<v\s*/>' % a, r'\g<1><v>%d</v>' % v, text, flags=re.S)
                data = text.encode()
            zout.writestr(item, data)
    os.replace(tmp, path)
    comp = impl.ExcelCompiler(filename=path)
    out = []
    for o in ops:
        r = comp.evaluate(full(o[1]), iterations=o[2], tolerance=float(o[3]))
        out.append((as_q(r), impl.tracker.ns.iteration_number))
    if out != [(o['result'], o['passes']) for o in mem]:
        ctx.broke("harness: in-memory stored-results workbook differs from the .xlsx with cached values",
                  f"{out} vs {mem}")


def reference_links(ctx):
    """Oracle only (reference-returning formulas are not in Model/Iter.v): a circular system in which one link goes
    through =OFFSET(X,0,0) or =INDIRECT("X") must honour the call's settings like the same system with the plain
    link =X: never more passes than the iterations asked for, and when it stops earlier every equation of the ring
    holds up to a few tolerances OF THE CALL (not of the workbook)."""
    import openpyxl
    from pycel import ExcelCompiler
    from pycel.excelutil import iterative_eval_tracker
    rng = ctx.rng
    for k in range(ctx.n(30, 300)):
        a, b = rng.choice([0.5, 0.25, -0.5, 0.125]), rng.choice([0.5, 0.25, 0.75, -0.25])
        link = rng.choice(['=OFFSET(B2,0,0)', '=INDIRECT("B2")', '=OFFSET(B1,1,0)'])

        def book(link_text):
            wb = openpyxl.Workbook()
            ws = wb.active
            ws.title = 'S'
            ws['D1'] = 1
            ws['A1'] = f'={a}*C1+D1'
            ws['B2'] = f'={b}*A1+2'
            ws['B1'] = 0
            ws['C1'] = link_text
            return wb
        settings = dict(iterations=rng.choice([100, 20, 7]), tolerance=rng.choice([0.001, 0.0625]))
        c1 = ExcelCompiler(excel=book(link), cycles=dict(settings))
        c2 = ExcelCompiler(excel=book('=B2'), cycles=dict(settings))
        hist = []
        try:        # warm-up: every cell is built and computed before the history (first use answers with the
            for c in (c1, c2):      # constructed value: known finding C06-construction-counts-as-computed)
                for _ in range(2):
                    for t in ('S!A1', 'S!B2', 'S!C1', 'S!D1'):
                        c.evaluate(t)
        except Exception as exc:      # noqa: BLE001
            ctx.violation(dict(call='reference-link', link=link, coefficients=[a, b], settings=settings, history=[]),
                          f"warm-up evaluate raises {type(exc).__name__}: {exc}"[:200])
            continue
        for step in range(rng.randrange(3, 7)):
            if step and rng.random() < 0.4:
                v = rng.choice([1, 5, -3, 0.5, 40])
                c1.set_value('S!D1', v)
                c2.set_value('S!D1', v)
                hist.append(['set', 'D1', v])
                continue
            it = rng.choice([None, 1, 2, 3, 50])
            tol = rng.choice([None, 2.0 ** -30, 0.5])
            target = rng.choice(['S!A1', 'S!B2', 'S!C1'])
            kw = {key: val for key, val in (('iterations', it), ('tolerance', tol)) if val is not None}
            hist.append(['eval', target, it, tol])
            case = dict(call='reference-link', link=link, coefficients=[a, b], settings=settings, history=list(hist))
            try:
                r1 = c1.evaluate(target, **kw)
                p1 = iterative_eval_tracker.ns.iteration_number
                r2 = c2.evaluate(target, **kw)
                p2 = iterative_eval_tracker.ns.iteration_number
            except Exception as exc:      # noqa: BLE001
                ctx.violation(case, f"evaluate raises {type(exc).__name__}: {exc}"[:200])
                break
            ctx.count(('reflink', k, step), kind='oracle:reference-link')
            limit = it if it is not None else (c1.cycles['iterations'] or 10000)
            if p1 > limit:
                ctx.violation(case, f"{p1} passes although {limit} iterations were asked for", impl=p1, expected=limit)
                break
            # stopped before the limit: no cell moved by more than the tolerance in the last pass, so every equation
            # of the ring holds up to a few tolerances (the two models need not agree digit for digit: the link
            # through a reference is computed at another moment of the pass)
            tol_eff = tol if tol is not None else (c1.cycles['tolerance'] or 0.01)
            for comp, p, which in ((c1, p1, 'reference link'), (c2, p2, 'plain link')):
                if p >= limit:
                    continue
                val = {t: comp.cell_map['S!' + t].value for t in ('A1', 'B2', 'C1', 'D1')}
                res = max(abs(val['A1'] - (a * val['C1'] + val['D1'])), abs(val['B2'] - (b * val['A1'] + 2)),
                          abs(val['C1'] - val['B2']))
                if res > 4 * tol_eff * (1 + 1e-5):
                    ctx.violation(dict(case, which=which),
                                  f"stopped after {p} < {limit} passes although the equations of the ring are off by "
                                  f"{res} > 4 x tolerance {tol_eff}", impl=val)
                    break


def run(ctx):
    from harness.common import REPO
    impl = Impl()
    rng = ctx.rng
    ctx.extra['rule'] = (
        "histories of 2-5 evaluate(address, iterations in {1,2,5,100}, tolerance in {1,1/16,1/1024}) / "
        "set_value operations on generated 3x3-sheet workbooks: contracting circular linear systems "
        "(1-6 variable cells in 1-2 rings incl. self references, dyadic coefficients, optional constants and "
        "SUM(range) terms, with and without stored results) and acyclic workbooks (random DAG order, "
        "SUM over column/row/block ranges, stored results exact); targets drawn at random so that cells "
        "enter the model in different orders; magnitude sweep: the same generators with every constant, stored "
        "result, formula offset, written value and tolerance multiplied by 2^-k or 2^k, k in 1..70 (half of the "
        "small ones with tolerances below 2^-52, the resolution of doubles near 1; exact in binary, so model "
        "and implementation still agree bit for bit); a case is non-trivial when its (workbook, history) is distinct")
    digest = anchor_digest(REPO)
    ctx.extra['anchor_digest'] = digest
    # informational only: the differential run below is the checked tie.  (A mismatch used to be reported as a
    # broken tie; repairs of unrelated branches of these functions - unbounded ranges, reference-valued formulas -
    # made it a false alarm, DESIGN.md section 7.)
    ctx.extra['anchor_digest_at_transcription'] = ANCHOR_DIGEST
    file_smoke(ctx, impl)
    reference_links(ctx)
    cases = [(wb, ops, label) for wb, ops, label in crafted(rng)]
    for k in range(ctx.n(7800, 60000)):
        r = rng.random()
        if r < 0.6:
            fast = rng.random() < 0.7
            wb = gen_cyclic(rng, fast)
        else:
            fast = True
            wb = gen_acyclic(rng)
        cases.append((wb, gen_ops(rng, wb, fast), None))
    # magnitude sweep: the same kinds of workbooks and histories in other units (x 2^-70 .. 2^70), tolerances alike
    for k in range(ctx.n(1200, 12000)):
        if rng.random() < 0.8:
            fast = rng.random() < 0.7
            wb = gen_cyclic(rng, fast)
        else:
            fast = True
            wb = gen_acyclic(rng)
        wb, ops = rescale(wb, gen_ops(rng, wb, fast), pick_scale(rng))
        cases.append((wb, ops, None))
    runs = []
    for wb, ops, label in cases:
        runs.append((wb, ops, label, impl.run(wb, ops)))
    mres = ctx.model.batch([('run', model_args(wb, ops)) for wb, ops, label, _ in runs]) if ctx.model else None
    for k, (wb, ops, label, iobs) in enumerate(runs):
        key = repr((wb.describe(), ops))
        for idx, o in enumerate(ops):
            ctx.count((key, idx),
                      kind=f"{wb.kind}:{'data' if wb.with_data else 'nodata'}:{o[0]}"
                           f"{':range' if wb.ranges else ''}"
                           f"{'' if wb.scale == 1 else ':scaled-down' if wb.scale < 1 else ':scaled-up'}",
                      sample=dict(call='history', workbook=wb.describe(),
                                  ops=[[o2[0], addr(o2[1])] + list(o2[2:]) for o2 in ops],
                                  impl=[(ob.get('result'), ob.get('passes')) for ob in iobs]))
        if mres is not None:
            compare(ctx, wb, ops, label, iobs, [dec_obs(x) for x in mres[k]])
        oracle(ctx, impl, wb, ops, label, iobs)
