"""C19 — rounding family: correspondence (Gen/excellib.v under the math wrapper
model vs the real functions through apply_meta) and the property's oracle."""
import fractions
import math

from harness.common import dec_res, enc_val, ensure_impl_on_path, run_impl, same

GEN_MODULES = ['excelutil', 'excellib']
F = fractions.Fraction

ASSUMPTIONS = [
    "exact arithmetic (DESIGN 3.2): the decimal family (ROUND/ROUNDUP/ROUNDDOWN/TRUNC) is fed decimals "
    "k/10^j of at most 15 significant digits as floats; the model receives the decimal (that is what "
    "Decimal(repr(x)) sees) and the implementation's float result must equal the correctly rounded exact result",
    "the binary family (CEILING/FLOOR/INT/MOD/EVEN/ODD…) is fed integers below 2^26 and dyadic fractions, "
    "for which every float operation of the implementation is exact; results are compared bit for bit",
    "Decimal's 28-digit context and float overflow are not modelled",
]

DECIMAL = ['round_', 'rounddown', 'roundup', 'trunc']
BINARY2 = ['ceiling', 'floor', 'mod', 'ceiling_precise', 'floor_precise']
BINARY3 = ['ceiling_math', 'floor_math']
UNARY = ['even', 'odd', 'int_', 'sign', 'abs_']


def dec_float(k, j):
    """float nearest to k/10^j, and the decimal itself."""
    d = F(k, 10 ** j)
    return float(d), d


def enc_decimal(x):
    """Encode a float as the decimal its repr denotes (what Decimal(repr(x)) sees)."""
    if isinstance(x, float):
        d = F(repr(x))
        return [3, d.numerator, d.denominator]
    return enc_val(x)


def qfloor(q):
    return math.floor(q)


def run(ctx):
    ensure_impl_on_path()
    from pycel import excellib
    from pycel.lib.function_helpers import apply_meta
    fn = {n: apply_meta(getattr(excellib, n), name_space={})[0]
          for n in DECIMAL + BINARY2 + BINARY3 + UNARY}
    rng = ctx.rng
    ctx.extra['rule'] = (
        "decimal family: x = k/10^j (|k| <= 10^6, j in 0..6; ties k = 5 mod 10 and near-ties k+-1 generated "
        "on purpose) x digits -6..6; binary family: float-exact x and significances from a signed pool "
        "(integers, dyadic fractions, zero, negatives) incl. modes; plus text/logical/blank/error arguments "
        "through the coercing wrapper; distinct = distinct (function, arguments)")
    calls = []   # (name, args, encoder)
    # ---- decimal family
    xs = []
    for _ in range(ctx.n(700, 20000)):
        j = rng.randrange(0, 7)
        k = rng.randrange(-10 ** 6, 10 ** 6)
        r = rng.random()
        if r < 0.35:
            k = k - (k % 10) + 5                    # a tie at digit j-1
        elif r < 0.5:
            k = k - (k % 10) + rng.choice((4, 6))   # near tie
        xs.append(dec_float(k, j))
    xs += [dec_float(k, j) for k, j in [(25, 0), (5, 0), (15, 0), (-25, 0), (29, 2), (-29, 2), (285, 3),
                                        (1005, 3), (125, 3), (5, 1), (-5, 1), (0, 0), (1, 6), (999999, 0),
                                        (1234567, 3), (45, 1), (55, 1), (-45, 1), (2675, 3), (35, 2)]]
    for x, d in xs:
        for nd in ([-6, -3, -2, -1, 0, 1, 2, 3, 6] if rng.random() < 0.2 else
                   [rng.randrange(-6, 7), rng.randrange(-2, 4)]):
            for n in DECIMAL:
                calls.append((n, (x, nd), 'dec', d))
    for x, d in xs[:60]:
        for n in ('round_', 'trunc'):
            calls.append((n, (x,), 'dec', d))
    # ---- binary family
    sig_pool = [1, 2, 3, 5, 10, 0.5, 0.25, 1.5, 0.125, 7, 100, -1, -2, -0.5, -3, -10, 0, 4, 0.75, -1.5]
    nums = [0, 1, -1, 2, -2, 7, -7, 10, 2.5, -2.5, 0.5, -0.5, 7.75, -7.75, 1e3, 12, -12, 3.125, 0.1875,
            -0.1875, 99, 100, 101]
    for _ in range(ctx.n(300, 8000)):
        nums.append(rng.randrange(-2 ** 20, 2 ** 20) / 2 ** rng.randrange(0, 8))
    for x in nums:
        for s in (sig_pool if rng.random() < 0.3 else rng.sample(sig_pool, 5)):
            for n in BINARY2:
                calls.append((n, (x, s), 'bin', None))
            for n in BINARY3:
                for mode in (0, 1, -1):
                    calls.append((n, (x, s, mode), 'bin', None))
        for n in UNARY + ['ceiling_precise', 'floor_precise', 'ceiling_math', 'floor_math']:
            calls.append((n, (x,), 'bin', None))
    # ---- coercions through the wrapper
    odd = ['3', '2.5', 'abc', '', True, False, None, '#DIV/0!', '#N/A', ' 7 ', '1e1', 'TRUE']
    for a in odd:
        for b in [2, '2', None, True, '#REF!', 'x']:
            for n in ['round_', 'ceiling', 'floor', 'mod', 'rounddown', 'trunc']:
                calls.append((n, (a, b), 'bin', None))
        for n in UNARY:
            calls.append((n, (a,), 'bin', None))
    # ---- run
    impl = [run_impl(fn[n], *a) for n, a, _, _ in calls]
    if ctx.model:
        model = [dec_res(x) for x in ctx.model.batch(
            [(n, [enc_decimal(v) if fam == 'dec' else enc_val(v) for v in a]) for n, a, fam, _ in calls])]
    else:
        model = [None] * len(calls)
    unm = 0
    for (n, a, fam, d), im, m in zip(calls, impl, model):
        case = dict(call=n, args=list(a))
        ctx.count((n, repr(a)), kind=n, sample=dict(case, impl=im))
        if m is not None:
            if m[0] == 'raise' and m[1] in ('Unmodelled', 'OutOfFuel'):
                unm += 1
            elif not same(m, im) and not numerically_same(m, im):
                ctx.divergence(case, im, m, f'Gen/excellib.v f_{n} (wrapped) = excellib.{n}')
        if im[0] == 'raise':
            ctx.violation(case, f"raises {im[1]}", impl=im)
    ctx.histogram['unmodelled'] = unm
    oracle(ctx, fn, xs, nums, sig_pool)


def numerically_same(m, i):
    """int vs float of the same value (math.copysign returns a float where the
    exact model keeps the integer type it was given): same Excel number."""
    def val(x):
        if x[0] != 'ok':
            return x
        v = x[1]
        if isinstance(v, tuple) and v[0] == 'float' and isinstance(v[1], F):
            return ('num', v[1])
        if isinstance(v, int) and not isinstance(v, bool):
            return ('num', F(v))
        return x
    a, b = val(m), val(i)
    if a == b:
        return True
    if a[0] == 'num' and b[0] == 'num':
        try:
            return F(float(a[1])) == b[1]
        except OverflowError:
            return False
    return False


def num(x):
    """exact value of an implementation result, or None."""
    if x[0] != 'ok':
        return None
    v = x[1]
    if isinstance(v, tuple) and v[0] == 'float' and isinstance(v[1], F):
        return v[1]
    if isinstance(v, int) and not isinstance(v, bool):
        return F(v)
    return None


def oracle(ctx, fn, xs, nums, sig_pool):
    """The property's statement evaluated on the implementation."""
    def decimal_of(r):
        """The decimal a float result denotes (shortest repr)."""
        return None if r is None else F(repr(float(r)))
    for x, d in xs:
        for nd in range(-6, 7):
            unit = F(10) ** (-nd)
            case = lambda n: dict(call=n, args=[x, nd])      # noqa: E731
            r = decimal_of(num(run_impl(fn['round_'], x, nd)))
            dn = decimal_of(num(run_impl(fn['rounddown'], x, nd)))
            up = decimal_of(num(run_impl(fn['roundup'], x, nd)))
            tr = decimal_of(num(run_impl(fn['trunc'], x, nd)))
            ctx.count(('oracle-dec', x, nd), kind='oracle-decimal')
            if None in (r, dn, up, tr):
                ctx.violation(case('round_'), "rounding function did not return a number", impl=[r, dn, up, tr])
                continue
            # expected values: half away from zero etc. on the decimal
            q = d / unit
            half_up = (math.floor(abs(q) + F(1, 2))) * (1 if q >= 0 else -1) * unit
            toward0 = (math.floor(abs(q))) * (1 if q >= 0 else -1) * unit
            away = (math.ceil(abs(q))) * (1 if q >= 0 else -1) * unit
            for name, got, want in (('round_', r, half_up), ('rounddown', dn, toward0),
                                    ('roundup', up, away), ('trunc', tr, toward0)):
                if got != decimal_of(F(float(want))):
                    ctx.violation(case(name), f"{name} is not the decimal rounding of the shortest rendering",
                                  impl=float(got), expected=float(want))
    for x in nums:
        fx = F(x)
        ctx.count(('oracle-bin', x), kind='oracle-binary')
        r = num(run_impl(fn['int_'], x))
        if r != math.floor(fx):
            ctx.violation(dict(call='int_', args=[x]), "INT is not floor", impl=r, expected=math.floor(fx))
        for n, want in (('even', evenodd(fx, 0)), ('odd', evenodd(fx, 1))):
            r = num(run_impl(fn[n], x))
            if r != want:
                ctx.violation(dict(call=n, args=[x]), f"{n.upper()} is not the next such integer away from zero",
                              impl=r, expected=want)
        for s in sig_pool:
            fs = F(s)
            # MOD
            r = run_impl(fn['mod'], x, s)
            case = dict(call='mod', args=[x, s])
            if s == 0:
                if r != ('ok', '#DIV/0!'):
                    ctx.violation(case, "MOD(n, 0) is not #DIV/0!", impl=r)
            else:
                rv = num(r)
                if rv is None or not (rv == 0 or (rv > 0) == (fs > 0)) or abs(rv) >= abs(fs) \
                        or fx != fs * math.floor(fx / fs) + rv:
                    ctx.violation(case, "MOD: sign of divisor / |MOD| < |d| / n = d*INT(n/d) + MOD violated",
                                  impl=r)
            # CEILING / FLOOR brackets for positive significance
            if s > 0:
                c = num(run_impl(fn['ceiling'], x, s))
                f = num(run_impl(fn['floor'], x, s))
                case = dict(call='ceiling/floor', args=[x, s])
                if c is None or f is None or not (f <= fx <= c) or (c / fs).denominator != 1 \
                        or (f / fs).denominator != 1 or (c - f) not in (0, fs) \
                        or ((c == f) != ((fx / fs).denominator == 1)):
                    ctx.violation(case, "FLOOR <= x <= CEILING, adjacent multiples of the significance violated",
                                  impl=[f, c])
                for n in ('ceiling_math', 'ceiling_precise'):
                    r = num(run_impl(fn[n], x, s))
                    if r != c:
                        ctx.violation(dict(call=n, args=[x, s]), f"{n} differs from CEILING for positive significance",
                                      impl=r, expected=c)
                for n in ('floor_math', 'floor_precise'):
                    r = num(run_impl(fn[n], x, s))
                    if r != f:
                        ctx.violation(dict(call=n, args=[x, s]), f"{n} differs from FLOOR for positive significance",
                                      impl=r, expected=f)
            if s < 0 and x <= 0 and not isinstance(x, bool):
                # negative significance with a number that is not positive: adjacent multiples around x (0 stays 0)
                c = num(run_impl(fn['ceiling'], x, s))
                f = num(run_impl(fn['floor'], x, s))
                case = dict(call='ceiling/floor', args=[x, s])
                if c is None or f is None or not (min(c, f) <= fx <= max(c, f)) or (c / fs).denominator != 1 \
                        or (f / fs).denominator != 1 or abs(c - f) not in (0, abs(fs)) \
                        or ((c == f) != ((fx / fs).denominator == 1)):
                    ctx.violation(case, "CEILING/FLOOR with a negative significance: adjacent multiples around x violated",
                                  impl=[f, c])
            if s < 0 < x:
                for n in ('ceiling', 'floor'):
                    r = run_impl(fn[n], x, s)
                    if r != ('ok', '#NUM!'):
                        ctx.violation(dict(call=n, args=[x, s]), "positive number with negative significance is not #NUM!",
                                      impl=r)


def evenodd(fx, parity):
    a = abs(fx)
    n = math.ceil(a)
    while n % 2 != parity:
        n += 1
    if parity == 1 and a == 0:
        n = 1
    return F(n if fx >= 0 else -n)
