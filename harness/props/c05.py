"""C05 — one value per cell, whatever the order or the access path: all
first-evaluation orders (exhaustive for small workbooks) and all access paths
on the implementation, with the graph machine of coq/Model/Graph.v as the
reference for the values (= the from-scratch specification)."""
import itertools

from harness import wbgen
from harness.common import canon, dec_val, ensure_impl_on_path, known_predicate, same

GEN_MODULES = ['excelutil', 'aggregates', 'stats']

ASSUMPTIONS = [
    "the theorems (coq/Props/C05.v) are corollaries of the C01 machine: evaluation order and repetition "
    "cannot change a value because every evaluate returns the from-scratch specification",
    "access through unbounded ranges (A:A, 1:1), address lists and sheet-less addresses is judged on the "
    "implementation by the oracle only (the clipping to the used area is openpyxl/excelwrapper code that "
    "is not modelled)",
]


@known_predicate('C05-unbounded-range-one-cell')
def _degenerate(case):
    return case.get('call') == 'path-degenerate'


def run(ctx):
    ensure_impl_on_path()
    from pycel import ExcelCompiler
    rng = ctx.rng
    ctx.extra['rule'] = (
        "single-sheet DAG workbooks of 4-6 cells (same generator as C01, clean pool plus blanks): every "
        "permutation of the first-evaluation order of the cells (up to 720 per workbook, exhaustive), every "
        "contiguous enclosing range of every cell, the unbounded column/row forms, list/tuple/generator "
        "address arguments, sheet-less addresses, repeated evaluation; distinct = distinct (workbook, order) "
        "or (workbook, access path)")
    nwb = ctx.n(24, 300)
    model_calls, model_meta = [], []
    for k in range(nwb):
        wb = wbgen.gen_workbook(rng, ncells=rng.randrange(4, 7), pool=wbgen.CLEAN_POOL + [None, 0, 1, True],
                                blank_results=False)
        cells = wb.cells()
        desc = [(x['addr'], x.get('value'), x.get('text')) for x in wb.nodes]
        # ---- reference values: plain order
        ref = ExcelCompiler(excel=wb.to_openpyxl())
        refv = {i: canon(ref.evaluate(wb.nodes[i]['addr'])) for i in cells}
        # ---- every first-evaluation order
        perms = list(itertools.permutations(cells))
        if len(perms) > 720:
            perms = rng.sample(perms, 720)
        for pi, perm in enumerate(perms):
            c = ExcelCompiler(excel=wb.to_openpyxl())
            got = {}
            try:
                for i in perm:
                    got[i] = canon(c.evaluate(wb.nodes[i]['addr']))
                again = {i: canon(c.evaluate(wb.nodes[i]['addr'])) for i in perm}
            except Exception as exc:      # noqa: BLE001
                ctx.violation(dict(call='order', workbook=desc, order=[wb.nodes[i]['addr'] for i in perm]),
                              f"evaluate raises {type(exc).__name__}")
                continue
            ctx.count(('order', k, pi), kind='order')
            if got != refv:
                bad = [wb.nodes[i]['addr'] for i in cells if got[i] != refv[i]]
                ctx.violation(dict(call='order', workbook=desc, order=[wb.nodes[i]['addr'] for i in perm]),
                              f"value depends on the first-evaluation order at {bad}",
                              impl={wb.nodes[i]['addr']: got[i] for i in cells},
                              expected={wb.nodes[i]['addr']: refv[i] for i in cells})
            if again != got:
                ctx.violation(dict(call='repeat', workbook=desc, order=[wb.nodes[i]['addr'] for i in perm]),
                              "repeating evaluate returns another value", impl=again, expected=got)
            if pi < 6:
                model_calls.append(('history', [wb.wire(), [[0, i] for i in perm]]))
                model_meta.append((desc, perm, [got[i] for i in perm], wb))
        # ---- access paths
        c = ExcelCompiler(excel=wb.to_openpyxl())
        nrows = len(wb.rows)
        for r1 in range(1, nrows + 1):
            for r2 in range(r1 + 1, nrows + 1):
                addr = wbgen.range_addr(r1, r2)
                val = canon(c.evaluate(addr))
                ctx.count(('range', k, r1, r2), kind='path-range')
                want = tuple(refv[wb.rows[r - 1]] for r in range(r1, r2 + 1))
                if val != want:
                    ctx.violation(dict(call='range-path', workbook=desc, args=[addr]),
                                  "element of an enclosing range differs from the cell's own value",
                                  impl=val, expected=want)
        paths = {
            'column A:A': f'{wbgen.SHEET}!A:A',
            'list': [wb.nodes[i]['addr'] for i in cells],
            'tuple': tuple(wb.nodes[i]['addr'] for i in cells),
            'generator': (wb.nodes[i]['addr'] for i in cells),
        }
        want_all = tuple(refv[wb.rows[r - 1]] for r in range(1, nrows + 1))
        for name, arg in paths.items():
            try:
                val = canon(c.evaluate(arg))
            except Exception as exc:      # noqa: BLE001
                ctx.violation(dict(call='path', workbook=desc, args=[name]),
                              f"evaluate({name}) raises {type(exc).__name__}: {exc}"[:200])
                continue
            ctx.count(('path', k, name), kind='path-' + name.split()[0])
            got = tuple(val) if isinstance(val, (list, tuple)) else (val,)
            if got != want_all:
                ctx.violation(dict(call='path', workbook=desc, args=[name]),
                              f"values through {name} differ from the cells' own values", impl=got,
                              expected=want_all)
        # each row as an unbounded row range (a second column makes the used area two cells wide),
        # and the sheet-less form
        extra = {(r, 2): 100 + r for r in range(1, nrows + 1)}
        c2 = ExcelCompiler(excel=wb.to_openpyxl(extra=extra))
        c3 = ExcelCompiler(excel=wb.to_openpyxl())
        for r in range(1, nrows + 1):
            ctx.count(('row', k, r), kind='path-row')
            for form, comp, arg, want in (
                    ('row', c2, f'{wbgen.SHEET}!{r}:{r}', (refv[wb.rows[r - 1]], 100 + r)),
                    ('sheetless', c3, f'A{r}', refv[wb.rows[r - 1]])):
                try:
                    val = canon(comp.evaluate(arg))
                except Exception as exc:      # noqa: BLE001
                    ctx.violation(dict(call='path', workbook=desc, args=[arg]),
                                  f"evaluate({arg}) raises {type(exc).__name__}: {exc}"[:200])
                    continue
                if val != want:
                    ctx.violation(dict(call='path', workbook=desc, args=[arg]),
                                  f"value through the {form} form differs from the cell's own value",
                                  impl=val, expected=want)
        # the degenerate clip: an unbounded row range on a sheet whose used area is one column wide
        c4 = ExcelCompiler(excel=wb.to_openpyxl())
        arg = f'{wbgen.SHEET}!1:1'
        ctx.count(('row1', k), kind='path-row-degenerate')
        try:
            val = canon(c4.evaluate(arg))
            if val != refv[wb.rows[0]] and val != (refv[wb.rows[0]],):
                ctx.violation(dict(call='path-degenerate', workbook=desc, args=[arg]),
                              "value through a one-cell-wide unbounded row differs", impl=val,
                              expected=refv[wb.rows[0]])
        except Exception as exc:      # noqa: BLE001
            ctx.violation(dict(call='path-degenerate', workbook=desc, args=[arg]),
                          f"evaluate({arg}) raises {type(exc).__name__}"[:200])
    # ---- the machine: same orders, returned values = spec
    if ctx.model and model_calls:
        answers = ctx.model.batch(model_calls)
        for (desc, perm, impl_vals, wb), ans in zip(model_meta, answers):
            mvals = [dec_val(m[0]) for m in ans]
            for a, b in zip(mvals, impl_vals):
                if not same(a, b):
                    ctx.divergence(dict(call='order', workbook=desc, order=[wb.nodes[i]['addr'] for i in perm]),
                                   impl_vals, mvals, 'Model/Graph.v evaluate = ExcelCompiler.evaluate')
                    break
