"""C05 — one value per cell, whatever the order or the access path: all
first-evaluation orders (exhaustive for small workbooks) and all access paths
on the implementation, with the graph machine of coq/Model/Graph.v as the
reference for the values (= the from-scratch specification)."""
import itertools

from harness import wbgen
from harness.common import canon, dec_val, ensure_impl_on_path, known_predicate, same

GEN_MODULES = ['excelutil', 'aggregates', 'stats']

ASSUMPTIONS = [
    "the theorems (coq/Props/C05.v) are corollaries of the C01 machine: evaluation order and repetition "
    "cannot change a value because every evaluate returns the from-scratch specification",
    "address lists / tuples / generators are modelled by coq/Model/C05List.v evaluate_list (the left-to-right "
    "fold of evaluate of _evaluate_non_iterative; theorems C05_list_path, C05_same_members, C05_permutation; "
    "stream list-model compares it with the implementation); the reference node of an unbounded range is "
    "covered by C05_unbounded_path given WHICH bounded range it stands for - the clipping of A:A / 1:1 to the "
    "used area (openpyxl/excelwrapper code) and the resolution of a sheet-less address against the active sheet "
    "are not modelled and are judged on the implementation by the oracle only",
    "CSE array formulas, tables / structured references, formulas returning a reference (OFFSET, INDIRECT) and "
    "range operations (intersection, computed corners), sheet names that need quotes and merged areas are outside "
    "the machine (the reference cell of a whole-column range is inside it in the order-colb stream only: a node of "
    "range kind, alias of the bounded range node): the streams cse-order (incl. quoted sheets), table-order, "
    "reference-order, cse-range, range-ops, unbounded-history and merged-order are judged on the implementation alone, the reference "
    "being the value of the cell evaluated alone by a fresh compiler (from-scratch compile after writes)",
]


@known_predicate('C05-unbounded-range-one-cell')
def _degenerate(case):
    return case.get('call') == 'path-degenerate'


def _stream_dag(ctx):
    from pycel import ExcelCompiler
    rng = ctx.rng
    ctx.extra['rule'] = (
        "single-sheet DAG workbooks of 4-6 cells (same generator as C01, clean pool plus blanks): every "
        "permutation of the first-evaluation order of the cells (up to 720 per workbook, exhaustive), every "
        "contiguous enclosing range of every cell, the unbounded column/row forms, list/tuple/generator "
        "address arguments, sheet-less addresses, repeated evaluation; distinct = distinct (workbook, order) "
        "or (workbook, access path)")
    nwb = ctx.n(24, 300)
    model_calls, model_meta = [], []
    for k in range(nwb):
        wb = wbgen.gen_workbook(rng, ncells=rng.randrange(4, 7), pool=wbgen.CLEAN_POOL + [None, 0, 1, True],
                                blank_results=False)
        cells = wb.cells()
        desc = [(x['addr'], x.get('value'), x.get('text')) for x in wb.nodes]
        # ---- reference values: plain order
        ref = ExcelCompiler(excel=wb.to_openpyxl())
        refv = {i: canon(ref.evaluate(wb.nodes[i]['addr'])) for i in cells}
        # ---- every first-evaluation order
        perms = list(itertools.permutations(cells))
        if len(perms) > 720:
            perms = rng.sample(perms, 720)
        for pi, perm in enumerate(perms):
            c = ExcelCompiler(excel=wb.to_openpyxl())
            got = {}
            try:
                for i in perm:
                    got[i] = canon(c.evaluate(wb.nodes[i]['addr']))
                again = {i: canon(c.evaluate(wb.nodes[i]['addr'])) for i in perm}
            except Exception as exc:      # noqa: BLE001
                ctx.violation(dict(call='order', workbook=desc, order=[wb.nodes[i]['addr'] for i in perm]),
                              f"evaluate raises {type(exc).__name__}")
                continue
            ctx.count(('order', k, pi), kind='order')
            if got != refv:
                bad = [wb.nodes[i]['addr'] for i in cells if got[i] != refv[i]]
                ctx.violation(dict(call='order', workbook=desc, order=[wb.nodes[i]['addr'] for i in perm]),
                              f"value depends on the first-evaluation order at {bad}",
                              impl={wb.nodes[i]['addr']: got[i] for i in cells},
                              expected={wb.nodes[i]['addr']: refv[i] for i in cells})
            if again != got:
                ctx.violation(dict(call='repeat', workbook=desc, order=[wb.nodes[i]['addr'] for i in perm]),
                              "repeating evaluate returns another value", impl=again, expected=got)
            if pi < 6:
                model_calls.append(('history', [wb.wire(), [[0, i] for i in perm]]))
                model_meta.append((desc, perm, [got[i] for i in perm], wb))
        # ---- access paths
        c = ExcelCompiler(excel=wb.to_openpyxl())
        nrows = len(wb.rows)
        for r1 in range(1, nrows + 1):
            for r2 in range(r1 + 1, nrows + 1):
                addr = wbgen.range_addr(r1, r2)
                val = canon(c.evaluate(addr))
                ctx.count(('range', k, r1, r2), kind='path-range')
                want = tuple(refv[wb.rows[r - 1]] for r in range(r1, r2 + 1))
                if val != want:
                    ctx.violation(dict(call='range-path', workbook=desc, args=[addr]),
                                  "element of an enclosing range differs from the cell's own value",
                                  impl=val, expected=want)
        paths = {
            'column A:A': f'{wbgen.SHEET}!A:A',
            'list': [wb.nodes[i]['addr'] for i in cells],
            'tuple': tuple(wb.nodes[i]['addr'] for i in cells),
            'generator': (wb.nodes[i]['addr'] for i in cells),
        }
        want_all = tuple(refv[wb.rows[r - 1]] for r in range(1, nrows + 1))
        for name, arg in paths.items():
            try:
                val = canon(c.evaluate(arg))
            except Exception as exc:      # noqa: BLE001
                ctx.violation(dict(call='path', workbook=desc, args=[name]),
                              f"evaluate({name}) raises {type(exc).__name__}: {exc}"[:200])
                continue
            ctx.count(('path', k, name), kind='path-' + name.split()[0])
            got = tuple(val) if isinstance(val, (list, tuple)) else (val,)
            if got != want_all:
                ctx.violation(dict(call='path', workbook=desc, args=[name]),
                              f"values through {name} differ from the cells' own values", impl=got,
                              expected=want_all)
        # each row as an unbounded row range (a second column makes the used area two cells wide),
        # and the sheet-less form
        extra = {(r, 2): 100 + r for r in range(1, nrows + 1)}
        c2 = ExcelCompiler(excel=wb.to_openpyxl(extra=extra))
        c3 = ExcelCompiler(excel=wb.to_openpyxl())
        for r in range(1, nrows + 1):
            ctx.count(('row', k, r), kind='path-row')
            for form, comp, arg, want in (
                    ('row', c2, f'{wbgen.SHEET}!{r}:{r}', (refv[wb.rows[r - 1]], 100 + r)),
                    ('sheetless', c3, f'A{r}', refv[wb.rows[r - 1]])):
                try:
                    val = canon(comp.evaluate(arg))
                except Exception as exc:      # noqa: BLE001
                    ctx.violation(dict(call='path', workbook=desc, args=[arg]),
                                  f"evaluate({arg}) raises {type(exc).__name__}: {exc}"[:200])
                    continue
                if val != want:
                    ctx.violation(dict(call='path', workbook=desc, args=[arg]),
                                  f"value through the {form} form differs from the cell's own value",
                                  impl=val, expected=want)
        # the degenerate clip: an unbounded row range on a sheet whose used area is one column wide
        c4 = ExcelCompiler(excel=wb.to_openpyxl())
        arg = f'{wbgen.SHEET}!1:1'
        ctx.count(('row1', k), kind='path-row-degenerate')
        try:
            val = canon(c4.evaluate(arg))
            if val != refv[wb.rows[0]] and val != (refv[wb.rows[0]],):
                ctx.violation(dict(call='path-degenerate', workbook=desc, args=[arg]),
                              "value through a one-cell-wide unbounded row differs", impl=val,
                              expected=refv[wb.rows[0]])
        except Exception as exc:      # noqa: BLE001
            ctx.violation(dict(call='path-degenerate', workbook=desc, args=[arg]),
                          f"evaluate({arg}) raises {type(exc).__name__}"[:200])
    # ---- the machine: same orders, returned values = spec
    if ctx.model and model_calls:
        answers = ctx.model.batch(model_calls)
        for (desc, perm, impl_vals, wb), ans in zip(model_meta, answers):
            mvals = [dec_val(m[0]) for m in ans]
            for a, b in zip(mvals, impl_vals):
                if not same(a, b):
                    ctx.divergence(dict(call='order', workbook=desc, order=[wb.nodes[i]['addr'] for i in perm]),
                                   impl_vals, mvals, 'Model/Graph.v evaluate = ExcelCompiler.evaluate')
                    break


def _stream_dag_colb(ctx):
    """Model-backed, two-column workbooks of harness/wbgen.py (gen_workbook(colb=True)): constants and trailing
    blanks in column B, formulas of column A over the whole column B:B, over the explicit range B1:Bm it stands
    for, over smaller blocks and single cells of column B.  Targets = every cell of column A, the reference node
    S!B:B, every range node and two cells of column B; every (sampled) first-evaluation order of the targets;
    each value = the value of the target evaluated alone by a fresh compiler, and = the graph machine's
    (Model/GraphExpr.v FAlias: S!B:B is a node of range kind, alias of the bounded range node)."""
    from pycel import ExcelCompiler
    rng = ctx.rng

    def trim(v):
        if isinstance(v, tuple) and v and isinstance(v[0], tuple):
            if len(v[0]) == 1:
                v = tuple(r[0] for r in v)
            if len(v) == 1:
                v = v[0]
        return v
    model_calls, model_meta = [], []
    for k in range(ctx.n(12, 150)):
        wb = wbgen.gen_workbook(rng, ncells=rng.randrange(3, 5), pool=wbgen.CLEAN_POOL + [0, 1, True], colb=True)
        desc = [(x['addr'], x.get('value'), x.get('text')) for x in wb.nodes]
        bcells = [i for i in wb.inputs() if wb.nodes[i].get('col') == 2]
        targets = [i for i, x in enumerate(wb.nodes) if i not in bcells] + rng.sample(bcells, min(2, len(bcells)))
        solo = {i: canon(ExcelCompiler(excel=wb.to_openpyxl()).evaluate(wb.nodes[i]['addr'])) for i in targets}
        perms = [tuple(rng.sample(targets, len(targets))) for _ in range(ctx.n(40, 200))]
        for pi, perm in enumerate(dict.fromkeys(perms)):
            c = ExcelCompiler(excel=wb.to_openpyxl())
            case = dict(call='order-colb', workbook=desc, order=[wb.nodes[i]['addr'] for i in perm])
            try:
                got = {i: canon(c.evaluate(wb.nodes[i]['addr'])) for i in perm}
                again = {i: canon(c.evaluate(wb.nodes[i]['addr'])) for i in perm}
            except Exception as exc:      # noqa: BLE001
                ctx.violation(case, f"evaluate raises {type(exc).__name__}: {exc}"[:200])
                continue
            ctx.count(('order-colb', k, pi), kind='order-colb')
            if got != solo:
                bad = [wb.nodes[i]['addr'] for i in targets if got[i] != solo[i]]
                ctx.violation(case, f"value depends on the first-evaluation order at {bad} (two-column workbook)",
                              impl={wb.nodes[i]['addr']: got[i] for i in targets},
                              expected={wb.nodes[i]['addr']: solo[i] for i in targets})
            if again != got:
                ctx.violation(dict(case, call='repeat-colb'), "repeating evaluate returns another value",
                              impl=again, expected=got)
            if pi < 6:
                model_calls.append(('history', [wb.wire(), [[0, i] for i in perm]]))
                model_meta.append((case, [got[i] for i in perm]))
    if ctx.model and model_calls:
        for (case, impl_vals), ans in zip(model_meta, ctx.model.batch(model_calls)):
            if not isinstance(ans, list) or (ans and not isinstance(ans[0], list)):
                ctx.divergence(case, 'n/a', ans, 'Model/Graph.v history entry rejected the input')
                continue
            mvals = [trim(_canon_model(dec_val(m[0]))) for m in ans]
            if any(not same(a, b) for a, b in zip(mvals, impl_vals)):
                ctx.divergence(case, impl_vals, mvals, 'Model/Graph.v evaluate = ExcelCompiler.evaluate')
    ctx.extra['rule'] += (
        "; order-colb (model-backed) - two-column workbooks (constants and trailing blanks in column B; formulas of "
        "column A over B:B, the explicit B1:Bm, smaller blocks and single cells of column B): sampled "
        "first-evaluation orders of the cells of column A, the reference node S!B:B, the range nodes and two cells "
        "of column B; value = the target evaluated alone by a fresh compiler = the graph machine's")


def _stream_list_model(ctx):
    """Correspondence leg of C05_list_path / C05_permutation: ExcelCompiler.evaluate on a list / tuple /
    generator of addresses (shuffled, with repetitions, after a random history of single evaluations)
    against Model/C05List.v evaluate_list on the extracted machine; oracle: every position = the cell
    evaluated alone by a fresh compiler."""
    from pycel import ExcelCompiler
    rng = ctx.rng
    nwb = ctx.n(16, 200)
    calls, meta, hcalls, hmeta = [], [], [], []
    for k in range(nwb):
        wb = wbgen.gen_workbook(rng, ncells=rng.randrange(4, 7), pool=wbgen.CLEAN_POOL + [None, 0, 1, True],
                                blank_results=False)
        cells = wb.cells()
        desc = [(x['addr'], x.get('value'), x.get('text')) for x in wb.nodes]
        ref = ExcelCompiler(excel=wb.to_openpyxl())
        refv = {i: canon(ref.evaluate(wb.nodes[i]['addr'])) for i in cells}
        for rep in range(3):
            prefix = rng.sample(cells, rng.randrange(0, 3))
            members = [rng.choice(cells) for _ in range(rng.randrange(1, 2 * len(cells)))]
            kind = ('list', 'tuple', 'generator')[rep]
            addrs = [wb.nodes[i]['addr'] for i in members]
            arg = addrs if kind == 'list' else tuple(addrs) if kind == 'tuple' else (a for a in addrs)
            case = dict(call='list-model', workbook=desc, args=[kind, addrs],
                        history=[wb.nodes[i]['addr'] for i in prefix])
            c = ExcelCompiler(excel=wb.to_openpyxl())
            try:
                for i in prefix:
                    c.evaluate(wb.nodes[i]['addr'])
                val = c.evaluate(arg)
            except Exception as exc:      # noqa: BLE001
                ctx.violation(case, f"evaluate({kind}) raises {type(exc).__name__}: {exc}"[:200])
                continue
            ctx.count(('list-model', k, rep), kind='list-model')
            want_type = list if kind == 'list' else tuple
            if type(val) is not want_type:
                ctx.violation(case, f"evaluate({kind}) returns a {type(val).__name__}", impl=canon(val))
                continue
            got = [canon(v) for v in val]
            want = [refv[i] for i in members]
            if got != want:
                ctx.violation(case, "a member of an address list differs from the cell evaluated alone",
                              impl=got, expected=want)
            # C05_permutation / C05_same_members on the implementation: a second compiler, same history, the
            # members shuffled (and one of them repeated) - same value per address and the same final cell map
            snap = wbgen.snapshot(c, wb)
            other = list(members) + [rng.choice(members)]
            rng.shuffle(other)
            c2 = ExcelCompiler(excel=wb.to_openpyxl())
            try:
                for i in prefix:
                    c2.evaluate(wb.nodes[i]['addr'])
                val2 = c2.evaluate([wb.nodes[i]['addr'] for i in other])
            except Exception as exc:      # noqa: BLE001
                ctx.violation(dict(case, permuted=[wb.nodes[i]['addr'] for i in other]),
                              f"evaluate(permuted list) raises {type(exc).__name__}: {exc}"[:200])
                continue
            got2 = {i: canon(v) for i, v in zip(other, val2)}
            if any(got2[i] != refv[i] for i in other):
                ctx.violation(dict(case, permuted=[wb.nodes[i]['addr'] for i in other]),
                              "a member of a permuted address list differs from the cell evaluated alone",
                              impl=[got2[i] for i in other], expected=[refv[i] for i in other])
            snap2 = wbgen.snapshot(c2, wb)
            if snap2 != snap:
                ctx.violation(dict(case, permuted=[wb.nodes[i]['addr'] for i in other]),
                              "the final cell map / cached values depend on the order of the address list",
                              impl=snap2, expected=snap)
            calls.append(('evlist', [wb.wire(), [[0, i] for i in prefix], list(members)]))
            meta.append((case, got, snap))
        # C05_history_order: the same Build (= _gen_graph, compiled but not evaluated) / Evaluate operations in
        # two orders, the second with one operation repeated: equal final cell maps and cached values
        ops = [(rng.choice((0, 0, 2)), rng.choice(cells)) for _ in range(rng.randrange(2, 7))]
        ops2 = ops + [rng.choice(ops)]
        rng.shuffle(ops2)
        snaps = []
        hcase = dict(call='history-order', workbook=desc,
                     args=[[('evaluate' if o == 0 else 'build', wb.nodes[i]['addr']) for o, i in ops],
                           [('evaluate' if o == 0 else 'build', wb.nodes[i]['addr']) for o, i in ops2]])
        try:
            for seq in (ops, ops2):
                ch = ExcelCompiler(excel=wb.to_openpyxl())
                for o, i in seq:
                    if o == 0:
                        if canon(ch.evaluate(wb.nodes[i]['addr'])) != refv[i]:
                            ctx.violation(hcase, f"value of {wb.nodes[i]['addr']} depends on the history")
                    else:
                        ch._gen_graph(wb.nodes[i]['addr'])
                snaps.append(wbgen.snapshot(ch, wb))
        except Exception as exc:      # noqa: BLE001
            ctx.violation(hcase, f"history raises {type(exc).__name__}: {exc}"[:200])
            continue
        ctx.count(('history-order', k), kind='history-order')
        if snaps[0] != snaps[1]:
            ctx.violation(hcase, "the final cell map / cached values depend on the order of the operations",
                          impl=snaps[1], expected=snaps[0])
        hcalls.append(('history', [wb.wire(), [[o, i] for o, i in ops]]))
        hmeta.append((hcase, snaps[0]))
    if ctx.model and hcalls:
        for (hcase, snap), ans in zip(hmeta, ctx.model.batch(hcalls)):
            try:
                msnap = {i: _canon_model(dec_val(x[1])) for i, x in enumerate(ans[-1][1]) if x[0] == 1}
            except Exception:      # noqa: BLE001
                ctx.divergence(hcase, snap, ans, 'Model/Graph.v history entry rejected the input')
                continue
            if set(msnap) != set(snap) or any(not same(msnap[i], snap[i]) for i in snap):
                ctx.divergence(hcase, snap, msnap,
                               'Model/Graph.v final state of a Build/Evaluate history = ExcelCompiler.cell_map values')
    if ctx.model and calls:
        for (case, got, snap), ans in zip(meta, ctx.model.batch(calls)):
            try:
                mvals = [dec_val(m) for m in ans[0]]
                msnap = {i: _canon_model(dec_val(x[1])) for i, x in enumerate(ans[1]) if x[0] == 1}
            except Exception:      # noqa: BLE001
                ctx.divergence(case, got, ans, 'Model/C05List.v evaluate_list = ExcelCompiler.evaluate(list)')
                continue
            if len(mvals) != len(got) or any(not same(a, b) for a, b in zip(mvals, got)):
                ctx.divergence(case, got, mvals, 'Model/C05List.v evaluate_list = ExcelCompiler.evaluate(list)')
            elif set(msnap) != set(snap) or any(not same(msnap[i], snap[i]) for i in snap):
                ctx.divergence(case, snap, msnap,
                               'Model/C05List.v final state of evaluate_list = ExcelCompiler.cell_map values')
    ctx.extra['rule'] += (
        "; list-model - the same DAG workbooks, a random history of 0-2 single evaluations, then evaluate on a "
        "list / tuple / generator of 1..2n addresses drawn with repetition in random order: result type kept, "
        "every position = the cell evaluated alone, the whole answer and the final cell map (built cells, cached "
        "values) = Model/C05List.v evaluate_list on the extracted machine, and a second compiler given the "
        "members shuffled with one more repetition ends with the same cell map and cached values; history-order - "
        "2-6 random Build (_gen_graph: compiled, not evaluated) / Evaluate operations on the cells and the same "
        "operations shuffled with one repeated, on two fresh compilers: equal final cell maps and cached values, "
        "= the extracted machine's final state (distinct = distinct (workbook, history, address sequence))")


def _canon_model(v):
    if isinstance(v, list):
        return [_canon_model(x) for x in v]
    if isinstance(v, tuple) and not (len(v) == 2 and v[0] == 'float'):
        return tuple(_canon_model(x) for x in v)
    return v


def run(ctx):
    ensure_impl_on_path()
    _stream_dag(ctx)
    _stream_dag_colb(ctx)
    _stream_list_model(ctx)
    # oracle-only streams (implementation alone; the reference is the cell evaluated alone in a fresh compiler)
    for stream in (_stream_cse, _stream_tables, _stream_reference, _stream_cse_overlap, _stream_range_ops,
                   _stream_unbounded_history, _stream_cse_sheets, _stream_merged):
        try:
            stream(ctx)
        except Exception:      # noqa: BLE001
            import traceback
            ctx.broke(f"harness: {stream.__name__} failed", traceback.format_exc())
    ctx.extra['rule'] += (
        "; plus, on the implementation alone (reference = the cell evaluated alone by a fresh compiler): "
        "cse-order - CSE array formulas whose precedents are ordinary cells calling IFERROR/IFNA/IFS on ranges, "
        "every target (cell, array member, exact array, enclosing block, D:D, 1:1) evaluated first and random "
        "permutations; table-order - 2-3 sheets with tables at the same coordinates and unqualified structured "
        "references, all/sampled first-evaluation orders and range paths, values also computed from the sheet's "
        "own table; reference-order - cells whose whole formula returns a reference (OFFSET/INDIRECT) to formula "
        "cells, sampled permutations, value = the target's; cse-range - sub-rectangles and unbounded rows/columns "
        "around and across CSE arrays of an in-memory workbook, plus adjacent arrays with identical / prefix-equal "
        "texts (first block >= 2 cells across the adjacency): every thin range 1 x k / k x 1 / 2 x k anchored in the "
        "first block and running into the neighbours, before and after its cells, and SUM(thin range) = sum of the "
        "cells; range-ops - formulas built on a range operation (intersection operator incl. unbounded operands, "
        "computed corners B3:OFFSET(B3,0,0) / OFFSET(..):B3 / INDEX(..):B3 / B3:INDIRECT(..), B1:B2:B5, union "
        "arguments) that denotes one formula / number / blank cell or a sub-range, bare or wrapped, and cells chained "
        "on them: every range (the column of operations, the columns / rows / block they point into, B:B, E:E, r:r), "
        "list / tuple / generator and formula cell evaluated first, then every other target, plus random "
        "permutations; each observation = the solo value including its type (a nested tuple where a scalar belongs "
        "is a violation), the value stored for a single cell is not an array, SUM(range) = sum of the cells, a "
        "failing order is shrunk to the targets needed; unbounded-history - SUM/COUNT/MIN/MAX of A:A, "
        "A:B, r:r, 1:n with set_value on members, every first-evaluation order of the formulas, each value "
        "compared with a from-scratch compile; cse-order / cse-range on quoted sheets - the same CSE workbooks on a "
        "sheet whose name must be written in quotes (with spaces / apostrophes: My Data, it's here, 2024 Q1; reading "
        "as an address, number or boolean: A1, 2024, TRUE; with an operator character: x-y, it's, Tab(1)), a second "
        "sheet holding dependants of the array members (='My Data'!D2, SUM / INDEX / COUNT('My Data'!D:D)), members "
        "also read through an address list / tuple / generator and the sheet-less form; merged-order - a block "
        "A1:D4 with one or two merged areas (1x2 .. 3x2), formulas reading the covered cells directly, through "
        "bounded and unbounded ranges: every covered cell, formula, merged area, block row / column, r:r, c:c, "
        "sheet-less address and address sequence evaluated first, plus random permutations (a raise is reported)")


# ============================================================================================
# Grid workbooks: several sheets, plain cells, CSE array formulas, tables.  The streams below
# are judged on the implementation alone (the graph machine has no CSE arrays, tables,
# reference-returning formulas or unbounded-range reference cells).  The reference value of a
# cell is the value a fresh compiler returns when that cell is the ONLY thing evaluated
# ("solo"); every observation of the cell - any first-evaluation order, any enclosing range,
# repetition - must be that value.
# ============================================================================================
def _col(c):
    from openpyxl.utils import get_column_letter
    return get_column_letter(c)


_CELL_LIKE = {'A1', 'R1C1', 'RC', 'TRUE', 'FALSE', 'XFD1048576', 'A1B2'}


def _q(sheet):
    """the sheet name as it is written in an address: quoted (apostrophes doubled) when it is not a plain
    identifier, or when it reads as a cell address / a boolean (the names of the quoted-sheet streams; the
    titles S, S1.. of the older streams stay bare)"""
    import re
    if re.fullmatch(r'[A-Za-z_][A-Za-z0-9_]*', sheet) and sheet not in _CELL_LIKE:
        return sheet
    return "'" + sheet.replace("'", "''") + "'"


def _a(sheet, r, c):
    return f'{_q(sheet)}!{_col(c)}{r}'


def _ra(sheet, r1, c1, r2, c2):
    return f'{_q(sheet)}!{_col(c1)}{r1}:{_col(c2)}{r2}'


class Grid:
    def __init__(self):
        self.sheets = []
        self.extra = {}         # added to every reported case (e.g. sheet=<title> for the quoted-sheet streams)

    def sheet(self, title):
        sh = dict(title=title, cells={}, arrays=[], tables=[], merges=[])
        self.sheets.append(sh)
        return sh

    def build(self, inputs=None):
        import openpyxl
        from openpyxl.worksheet.formula import ArrayFormula
        from openpyxl.worksheet.table import Table, TableColumn
        wb = openpyxl.Workbook()
        for k, sh in enumerate(self.sheets):
            ws = wb.active if k == 0 else wb.create_sheet(sh['title'])
            ws.title = sh['title']
            for (r, c), v in sh['cells'].items():
                v = (inputs or {}).get((sh['title'], r, c), v)
                if v is not None:
                    ws.cell(row=r, column=c, value=v)
            for (r1, c1, r2, c2, text) in sh['arrays']:
                ws.cell(row=r1, column=c1,
                        value=ArrayFormula(f'{_col(c1)}{r1}:{_col(c2)}{r2}', text))
            for name, (r1, c1, r2, c2), headers in sh['tables']:
                ws.add_table(Table(displayName=name, ref=f'{_col(c1)}{r1}:{_col(c2)}{r2}',
                                   tableColumns=[TableColumn(id=i, name=h)
                                                 for i, h in enumerate(headers, start=1)]))
            for (r1, c1, r2, c2) in sh['merges']:
                ws.merge_cells(start_row=r1, start_column=c1, end_row=r2, end_column=c2)
        return wb

    def desc(self, inputs=None):
        out = []
        for sh in self.sheets:
            t = sh['title']
            for (r, c), v in sorted(sh['cells'].items()):
                out.append([_a(t, r, c), (inputs or {}).get((t, r, c), v)])
            for (r1, c1, r2, c2, text) in sh['arrays']:
                out.append([_ra(t, r1, c1, r2, c2), '{' + text + '}'])
            for name, rect, headers in sh['tables']:
                out.append([_ra(t, *rect), f'table {name} {headers}'])
            for rect in sh['merges']:
                out.append([_ra(t, *rect), 'merged'])
        return out

    def used(self, title):
        """(max_row, max_col) of a sheet, as openpyxl reports them."""
        sh = next(s for s in self.sheets if s['title'] == title)
        rows = [r for (r, c), v in sh['cells'].items() if v is not None] + [a[2] for a in sh['arrays']]
        cols = [c for (r, c), v in sh['cells'].items() if v is not None] + [a[3] for a in sh['arrays']]
        return max(rows), max(cols)

    def arrays(self):
        return [[sh['title'], r1, c1, r2, c2] for sh in self.sheets for (r1, c1, r2, c2, _) in sh['arrays']]

    def cells(self):
        """every occupied cell (sheet, r, c): plain cells and members of CSE arrays"""
        out = []
        for sh in self.sheets:
            t = sh['title']
            out += [(t, r, c) for (r, c), v in sorted(sh['cells'].items()) if v is not None]
            for (r1, c1, r2, c2, _) in sh['arrays']:
                out += [(t, r, c) for r in range(r1, r2 + 1) for c in range(c1, c2 + 1)]
        return out


def _cell_target(cell):
    t, r, c = cell
    return dict(addr=_a(t, r, c), sheet=t, rect=(r, c, r, c))


def _range_target(sheet, r1, c1, r2, c2, addr=None):
    return dict(addr=addr or _ra(sheet, r1, c1, r2, c2), sheet=sheet, rect=(r1, c1, r2, c2))


def _row_target(grid, sheet, r):
    return dict(addr=f'{_q(sheet)}!{r}:{r}', sheet=sheet, rect=(r, 1, r, grid.used(sheet)[1]), open='row')


def _col_target(grid, sheet, c):
    return dict(addr=f'{_q(sheet)}!{_col(c)}:{_col(c)}', sheet=sheet, rect=(1, c, grid.used(sheet)[0], c), open='col')


def _rect_values(val, nr, nc):
    """The result of evaluate() for an nr x nc range as {(dr, dc): value}
    (evaluate drops dimensions of size one); None when the shape is not the range's."""
    if nr == 1 and nc == 1:
        return {(0, 0): val}
    if nr == 1 or nc == 1:
        n = max(nr, nc)
        if not isinstance(val, tuple) or len(val) != n:
            return None
        return {((i, 0) if nc == 1 else (0, i)): v for i, v in enumerate(val)}
    if not isinstance(val, tuple) or len(val) != nr or any(
            not isinstance(row, tuple) or len(row) != nc for row in val):
        return None
    return {(i, j): v for i, row in enumerate(val) for j, v in enumerate(row)}


class _Shape(Exception):
    pass


def _seq_target(kind, cells):
    """the cells read through one evaluate() of a list / tuple / generator of their addresses"""
    return dict(addr=f"{kind}({', '.join(_a(*c) for c in cells)})", seq=kind, cells=list(cells))


def _look(comp, target, seen):
    if target.get('seq'):
        addrs = [_a(*c) for c in target['cells']]
        arg = {'list': list, 'tuple': tuple, 'generator': iter}[target['seq']](addrs)
        val = comp.evaluate(arg)
        if type(val) is not (list if target['seq'] == 'list' else tuple) or len(val) != len(addrs):
            raise _Shape(f"evaluate({target['addr']}) is not a sequence of its cells' values: {val!r}"[:160])
        for cell, v in zip(target['cells'], val):
            seen.setdefault(cell, []).append(canon(v))
        return
    r1, c1, r2, c2 = target['rect']
    val = canon(comp.evaluate(target['addr']))
    if target.get('open'):
        # an unbounded row/column: its extent is whatever the wrapper clips it to (an in-memory
        # openpyxl sheet grows when a formula touches a cell outside the used area), each element
        # is judged as the cell at its position (a cell nobody filled is blank: None)
        flat = val if isinstance(val, tuple) and val[:1] != ('float',) else (val,)
        if flat and all(isinstance(v, tuple) and v[:1] != ('float',) for v in flat):
            # rows of rows: not one row/column (a single nested element is judged as that cell's value)
            raise _Shape(f"evaluate({target['addr']}) is not one row/column: {val!r}"[:160])
        r2, c2 = (r1, c1 + len(flat) - 1) if target['open'] == 'row' else (r1 + len(flat) - 1, c1)
    vals = _rect_values(val, r2 - r1 + 1, c2 - c1 + 1)
    if vals is None:
        raise _Shape(f"evaluate({target['addr']}) has not the shape of the range: {val!r}"[:160])
    for (dr, dc), v in vals.items():
        seen.setdefault((target['sheet'], r1 + dr, c1 + dc), []).append(v)


def _observe(ExcelCompiler, grid, order, inputs=None, keep=None):
    """Fresh compiler, the targets evaluated in the given order, then each once more.
    {cell: [every value observed for it]}"""
    comp = ExcelCompiler(excel=grid.build(inputs))
    if keep is not None:
        keep.append(comp)
    seen = {}
    for t in order:
        _look(comp, t, seen)
    for t in order:
        _look(comp, t, seen)
    return seen


def _solo(ctx, ExcelCompiler, stream, grid, cells, inputs=None):
    """{cell: value when it is the only thing a fresh compiler evaluates}; None after a raise."""
    out = {}
    for cell in cells:
        try:
            out[cell] = canon(ExcelCompiler(excel=grid.build(inputs)).evaluate(_a(*cell)))
        except Exception as exc:      # noqa: BLE001
            ctx.violation(dict(call=stream, workbook=grid.desc(inputs), args=[_a(*cell)],
                               error=type(exc).__name__, **grid.extra),
                          f"evaluate({_a(*cell)}) alone raises {type(exc).__name__}: {exc}"[:200])
            return None
    return out


def _judge(ctx, stream, key, grid, order, seen, solo, inputs=None, extra=None, kind=None):
    """every observation equals the solo value (cells outside `solo` are blank: None)"""
    bad = sorted(cell for cell, vals in seen.items() if any(v != solo.get(cell) for v in vals))
    ctx.count((stream,) + key, kind=kind or stream)
    if bad:
        case = dict(call=stream, workbook=grid.desc(inputs), order=[t['addr'] for t in order], **grid.extra)
        case.update(extra or {})
        ctx.violation(case, f"value of {[_a(*c) for c in bad]} depends on the first-evaluation order / "
                            f"access path (differs from the value of the cell evaluated alone)",
                      impl={_a(*c): seen[c] for c in bad}, expected={_a(*c): solo.get(c) for c in bad})
    return not bad


def _orders(rng, singles, ranges, nrandom, exhaustive_upto=4):
    """First-evaluation orders: every target first (followed by the single cells in a random
    order), plus random permutations of all targets; exhaustive over the single cells when
    there are few of them."""
    out = []
    if len(singles) <= exhaustive_upto:
        out += [list(p) for p in itertools.permutations(singles)]
    for first in ranges + singles:
        rest = [t for t in singles if t is not first]
        rng.shuffle(rest)
        out.append([first] + rest)
    every = singles + ranges
    for _ in range(nrandom):
        out.append(rng.sample(every, len(every)))
    return out


def _run_orders(ctx, ExcelCompiler, stream, k, grid, singles, ranges, nrandom, extra_check=None, kind=None,
                cells=None):
    solo = _solo(ctx, ExcelCompiler, stream, grid, grid.cells() if cells is None else cells)
    if solo is None:
        return None
    for oi, order in enumerate(_orders(ctx.rng, singles, ranges, nrandom)):
        try:
            seen = _observe(ExcelCompiler, grid, order)
        except Exception as exc:      # noqa: BLE001
            ctx.violation(dict(call=stream, workbook=grid.desc(), order=[t['addr'] for t in order],
                               error=type(exc).__name__, **grid.extra),
                          f"evaluate raises {type(exc).__name__}: {exc}"[:200])
            continue
        _judge(ctx, stream, (k, oi), grid, order, seen, solo, kind=kind)
    return solo


# -------------------------------------------------------------------------------- T1: CSE arrays
CSE_DATA = [0, 1, 2, 3, 5, -4, 10, '#N/A', '#DIV/0!', 'abc']


def _gen_cse(rng, title=wbgen.SHEET):
    """Column B: data (numbers, text, error values).  Column C: ORDINARY cells calling the
    functions that behave differently inside an array formula (IFERROR, IFNA, IFS) on a range.
    Columns D.. : CSE array formulas whose precedents are those ordinary cells.  G1: an
    ordinary cell over the array."""
    g = Grid()
    s = g.sheet(title)
    n = rng.choice([2, 2, 3])
    for r in range(1, n + 1):
        s['cells'][(r, 2)] = rng.choice(CSE_DATA)
    B = f'B1:B{n}'

    def lit():
        return rng.choice(['-1', '7', '100', '"x"', '0'])

    def aware(prev):
        p = prev or lit()
        return rng.choice([
            f'=IFERROR({B},{lit()})', f'=IFNA({B},{lit()})', f'=IFS({B},{lit()},TRUE,{lit()})',
            f'=SUM(IFERROR({B},{lit()}))', f'=IFERROR({B}/B1,{lit()})', f'=IFERROR(IFNA({B},{lit()}),{lit()})',
            f'=IFERROR({B},{p})', f'=IFNA({B},{lit()})&{p}', f'=IFS(ISERROR({B}),{lit()},TRUE,{p})',
            f'=IFERROR({B},{lit()})', f'=COUNT({B})', f'=B1'])
    nc = rng.choice([1, 2, 2])
    prev = None
    for r in range(1, nc + 1):
        s['cells'][(r, 3)] = aware(prev)
        prev = f'C{r}'
    ck = f'C{rng.randrange(1, nc + 1)}'
    s['arrays'].append((1, 4, n, 4, rng.choice([
        f'={B}+{ck}', f'={B}&{ck}', f'=IFERROR({B},{ck})', f'=IF(ISNUMBER({B}),{B}*2,{ck})',
        f'={ck}', f'=IFNA({B},C1)', f'=C1:C{nc}', f'={ck}+ROW({B})'])))
    if rng.random() < 0.5:
        w = rng.choice([1, 1, 2])
        s['arrays'].append((1, 5, n, 4 + w, rng.choice([
            f'=D1:D{n}&{ck}', f'=IFERROR({B},{lit()})', f'=IFS(ISERROR({B}),{ck},TRUE,{B})', f'={ck}'])))
    if rng.random() < 0.6:
        s['cells'][(1, 7)] = rng.choice([f'=COUNT(D1:D{n})', f'=D{n}', f'=IFERROR(D1:D{n},{ck})',
                                         f'=INDEX(D1:D{n},2)', f'=IFNA(D1:D{n},-1)&C1'])
    return g


def _cse_ranges(g, t):
    maxr, maxc = g.used(t)
    ranges = [_range_target(t, *a[1:]) for a in g.arrays()]                 # exactly the arrays
    ranges.append(_range_target(t, 1, 2, maxr, maxc))                        # the whole block, from B1
    ranges.append(_range_target(t, 1, 3, maxr, 4))                           # C1:Dn: ordinary cells + array
    ranges.append(_col_target(g, t, 4))                                      # D:D clips to exactly the array
    ranges.append(_row_target(g, t, 1))                                      # 1:1 starts on the blank A1
    return ranges


def _stream_cse(ctx):
    from pycel import ExcelCompiler
    rng = ctx.rng
    for k in range(ctx.n(16, 160)):
        g = _gen_cse(rng)
        t = wbgen.SHEET
        singles = [_cell_target(c) for c in g.cells()]
        _run_orders(ctx, ExcelCompiler, 'cse-order', k, g, singles, _cse_ranges(g, t), ctx.n(8, 24))


# ------------------------------------------------- T7: CSE arrays on sheets whose names must be written in quotes
# Sheet names Excel accepts and writes in quotes (from the pools of harness/props/c11.py).  The member cell of a
# multi-cell array formula is compiled as =index(<sheet>!<array range>,i,j): the sheet name travels through
# formula TEXT there, so it must be quoted whenever the name needs it.
SHEETS_SPACED = ['My Data', 'Sheet 1', "it's here", "a ' b", 'A1 B2', '2024 Q1', '数据 表', 'R1C1 x', 'TRUE FALSE',
                 ' lead', 'trail ', 'a  b']
SHEETS_CELL_LIKE = ['A1', '2024', 'R1C1', 'TRUE', '1', 'XFD1048576', 'a.b', 'Übersicht']
SHEETS_OPERATOR = ["it's", 'x-y', "a''b", '#REF', 'a$b', 'a,b', 'Tab(1)']
_OPERATOR_CHARS = set("'-,$()#&+=<>;^{}%")


@known_predicate('C05-cse-sheet-name-dollar')
def _cse_dollar_sheet(case):
    """what is left of the class after repair 4860474: a '$' in the sheet name is dropped when the address text is
    parsed (sheet a$b is looked up as ab)"""
    sheet = case.get('sheet')
    return case.get('call') in ('cse-order', 'cse-range') and isinstance(sheet, str) and '$' in sheet


# repaired in /repo 4860474: no longer a registered predicate (a recurrence is reported)
def _cse_unquoted_sheet(case):
    """a CSE array formula on a sheet whose name has NO space but a character the formula tokenizer reads as an
    operator / punctuation (it's, x-y, a,b, #REF, Tab(1)): quote_sheet quotes only names with a space"""
    sheet = case.get('sheet')
    return case.get('call') in ('cse-order', 'cse-range') and isinstance(sheet, str) and ' ' not in sheet and \
        any(ch in _OPERATOR_CHARS for ch in sheet)


def _sheet_title(rng, k):
    """spaced names (3 of 5 workbooks), names reading as an address / number / boolean, names with an operator"""
    return rng.choice([SHEETS_SPACED, SHEETS_SPACED, SHEETS_CELL_LIKE, SHEETS_SPACED, SHEETS_OPERATOR][k % 5])


def _stream_cse_sheets(ctx):
    """cse-order and cse-range on multi-sheet workbooks whose array formulas live on a sheet with a name that needs
    quotes; a second sheet holds dependants of the array members"""
    from pycel import ExcelCompiler
    rng = ctx.rng
    for k in range(ctx.n(25, 200)):
        t = _sheet_title(rng, k)
        g = _gen_cse(rng, t)
        g.extra = dict(sheet=t)
        n = max(a[3] for a in g.arrays())
        t2 = rng.choice(['T', 'Other', 'Sum 2', 'My Data 2'])
        s2 = g.sheet(t2)
        q, m = _q(t), rng.randrange(1, n + 1)
        forms = [f'={q}!D{m}', f'={q}!D{m}&"z"', f'=SUM({q}!D1:D{n})', f'=INDEX({q}!D1:D{n},{m})',
                 f'=COUNT({q}!D:D)', f'=IFERROR({q}!D{m},{q}!C1)', f'={q}!D{n}&{q}!G1']
        for r, text in enumerate(rng.sample(forms, rng.choice([1, 2, 2])), start=1):
            s2['cells'][(r, 1)] = text
        singles = [_cell_target(c) for c in g.cells()]
        ranges = _cse_ranges(g, t)
        ranges.append(_range_target(t2, 1, 1, 2, 1))
        members = [(t, r, c) for (_, r1, c1, r2, c2) in g.arrays() for r in range(r1, r2 + 1)
                   for c in range(c1, c2 + 1)]
        ranges.append(_seq_target(rng.choice(['list', 'tuple', 'generator']),
                                  rng.sample(members, min(len(members), 3))))
        ranges.append(dict(addr=f'D{m}', sheet=t, rect=(m, 4, m, 4)))            # sheet-less: the active (first) sheet
        _run_orders(ctx, ExcelCompiler, 'cse-order', ('sheets', k), g, singles, ranges, ctx.n(6, 20),
                    kind='cse-order:quoted-sheet')
    for k in range(ctx.n(16, 120)):
        t = _sheet_title(rng, k)
        if k % 2:
            _cse_overlap_case(ctx, ExcelCompiler, ('sheets', k), t, dict(sheet=t))
        else:
            _cse_adjacent_case(ctx, ExcelCompiler, ('sheets', k), t, dict(sheet=t))


# ---------------------------------------------------------------------------------- T2: tables
TABLE_NAMES = ['Prices', 'Costs', 'Stock']


def _gen_tables(rng):
    """Two or three sheets, each with a table at the SAME coordinates (same headers, data of
    another magnitude); the last column(s) hold formulas with unqualified structured
    references ([@col], [col], [[#This Row],[col]], ...) - the table is found from the cell.
    Returns (grid, {cell: value computed here from the sheet's own data})."""
    g = Grid()
    nsheets = rng.choice([2, 2, 3])
    nrows = rng.choice([2, 2, 3])
    r0, c0 = rng.choice([(1, 1), (1, 1), (2, 2), (3, 1)])
    nform = rng.choice([1, 1, 2])
    headers = ['item', 'qty', 'price'] + ['total', 'extra'][:nform]
    same = rng.random() < 0.7

    def templates():
        return rng.choice([
            ('=[@qty]*2', lambda row, col: row['qty'] * 2),
            ('=[@qty]+[@price]', lambda row, col: row['qty'] + row['price']),
            ('=SUM([qty])', lambda row, col: sum(col['qty'])),
            ('=[@[qty]]*3', lambda row, col: row['qty'] * 3),
            ('=[[#This Row],[price]]+1', lambda row, col: row['price'] + 1),
            ('=SUM([[#Data],[price]])', lambda row, col: sum(col['price'])),
            ('=[@price]&[@item]', lambda row, col: f"{row['price']}{row['item']}"),
            ('=SUM([[qty]:[price]])', lambda row, col: sum(col['qty']) + sum(col['price'])),
            ('=INDEX([price],1)', lambda row, col: col['price'][0]),
            ('=MAX([qty])-[@qty]', lambda row, col: max(col['qty']) - row['qty']),
        ])
    shared = [templates() for _ in range(nform)]
    expected = {}
    for k in range(nsheets):
        title = f'S{k + 1}'
        s = g.sheet(title)
        scale = 100 ** k
        rows = [dict(item=rng.choice('abcdef'), qty=rng.randrange(1, 10) * scale,
                     price=rng.randrange(11, 50) * scale) for _ in range(nrows)]
        col = {h: [row[h] for row in rows] for h in ('item', 'qty', 'price')}
        for j, h in enumerate(headers):
            s['cells'][(r0, c0 + j)] = h
        forms = shared if same else [templates() for _ in range(nform)]
        for i, row in enumerate(rows, start=1):
            for j, h in enumerate(('item', 'qty', 'price')):
                s['cells'][(r0 + i, c0 + j)] = row[h]
            for j, (text, fn) in enumerate(forms):
                s['cells'][(r0 + i, c0 + 3 + j)] = text
                expected[(title, r0 + i, c0 + 3 + j)] = fn(row, col)
        s['tables'].append((TABLE_NAMES[k], (r0, c0, r0 + nrows, c0 + len(headers) - 1), headers))
        # a table-qualified reference next to the table (same coordinates on every sheet)
        s['cells'][(r0 + 1, c0 + len(headers) + 1)] = f'=SUM({TABLE_NAMES[k]}[qty])'
        expected[(title, r0 + 1, c0 + len(headers) + 1)] = sum(col['qty'])
    return g, expected


def _stream_tables(ctx):
    from pycel import ExcelCompiler
    rng = ctx.rng
    for k in range(ctx.n(12, 120)):
        g, expected = _gen_tables(rng)
        singles = [_cell_target(c) for c in sorted(expected)]
        ranges = []
        for sh in g.sheets:
            t = sh['title']
            name, (r1, c1, r2, c2), headers = sh['tables'][0]
            maxr, maxc = g.used(t)
            ranges.append(_range_target(t, r1, c1, r2, c2))                          # the table
            ranges.append(_range_target(t, r1 + 1, c1 + 3, r2, c1 + 3))              # first formula column
            ranges.append(_col_target(g, t, c1 + 3))
            ranges.append(_row_target(g, t, r1 + 1))
        # the sheet-less form reads the active (first) sheet
        first = g.sheets[0]['title']
        cell = rng.choice(sorted(c for c in expected if c[0] == first))
        ranges.append(dict(addr=f'{_col(cell[2])}{cell[1]}', sheet=first, rect=(cell[1], cell[2]) * 2))
        solo = _run_orders(ctx, ExcelCompiler, 'table-order', k, g, singles, ranges, ctx.n(10, 30))
        if solo is None:
            continue
        wrong = sorted(c for c in expected if solo[c] != canon(expected[c]))
        if wrong:
            ctx.violation(dict(call='table-order', workbook=g.desc(), args=[_a(*c) for c in wrong]),
                          "a structured reference without table name does not read the table that contains "
                          "the cell (value computed from the sheet's own table differs)",
                          impl={_a(*c): solo[c] for c in wrong}, expected={_a(*c): expected[c] for c in wrong})


# ------------------------------------------------------------- T3: formulas that return a reference
def _gen_reference(rng):
    """Column B: a number, then FORMULA cells.  Column A: cells whose whole formula evaluates
    to a reference (OFFSET / INDIRECT) to a cell of column B or to another such cell.
    Returns (grid, {reference cell: the cell it stands for})."""
    g = Grid()
    t = wbgen.SHEET
    s = g.sheet(t)
    nb = rng.choice([3, 3, 4])
    s['cells'][(1, 2)] = rng.choice([1, 2, 5, -3, 10])
    for r in range(2, nb + 1):
        p = rng.randrange(1, r)
        s['cells'][(r, 2)] = rng.choice([f'=B{p}+{rng.randrange(1, 20)}', f'=B{p}*{rng.randrange(2, 5)}',
                                         f'=B{p}&"z"', f'=SUM(B1:B{r - 1})', f'=-B{r - 1}'])
    stands = {}
    na = rng.choice([2, 3])
    for r in range(1, na + 1):
        tr = rng.randrange(2, nb + 1)
        pure = [f'=OFFSET(B1,{tr - 1},0)', f'=OFFSET(B{tr},0,0)', f'=OFFSET(C{tr},0,-1)',
                f'=INDIRECT("B"&{tr})', f'=INDIRECT("B{tr}")', f'=INDIRECT("{t}!B"&{tr})',
                f'=OFFSET(B{nb},{tr - nb},0)', f'=OFFSET(B1:B{nb},{tr - 1},0,1,1)',
                f'=OFFSET(INDIRECT("B1"),{tr - 1},0)']
        kind = rng.random()
        if kind < 0.7 or r == 1:
            s['cells'][(r, 1)] = rng.choice(pure)
            stands[(t, r, 1)] = (t, tr, 2)
        elif kind < 0.85:
            s['cells'][(r, 1)] = rng.choice([f'=OFFSET(A{r - 1},0,0)', f'=INDIRECT("A{r - 1}")',
                                             f'=OFFSET(B{r - 1},0,-1)'])
            stands[(t, r, 1)] = (t, r - 1, 1)
        else:
            s['cells'][(r, 1)] = rng.choice([f'=OFFSET(B1,{tr - 1},0)&""', f'=SUM(OFFSET(B1,0,0,{tr},1))',
                                             f'=IF(TRUE,OFFSET(B1,{tr - 1},0),0)'])
    return g, stands


def _stream_reference(ctx):
    from pycel import ExcelCompiler
    rng = ctx.rng
    for k in range(ctx.n(14, 140)):
        g, stands = _gen_reference(rng)
        t = wbgen.SHEET
        singles = [_cell_target(c) for c in g.cells()]
        maxr, maxc = g.used(t)
        ranges = [_range_target(t, 1, 1, maxr, 2), _range_target(t, 1, 1, maxr, 1),
                  _col_target(g, t, 1), _row_target(g, t, 2)]
        solo = _run_orders(ctx, ExcelCompiler, 'reference-order', k, g, singles, ranges, ctx.n(24, 80))
        if solo is None:
            continue
        wrong = sorted(c for c, target in stands.items() if solo[c] != solo[target])
        if wrong:
            ctx.violation(dict(call='reference-order', workbook=g.desc(), args=[_a(*c) for c in wrong]),
                          "a cell whose formula returns a reference has not the value of the cell referred to "
                          "(both evaluated alone)",
                          impl={_a(*c): solo[c] for c in wrong},
                          expected={_a(*c): solo[stands[c]] for c in wrong})


# ------------------------------------------------ T4: ranges around / across CSE arrays (in-memory workbook)
def _cse_text_match(anchor, other, i, j):
    """excelwrapper._OpxRange.__new__ recognises 'the same array' by comparing the text of the
    expanded member formulas: member (i, j) of `other` passes the test made for `anchor`."""
    def member(a, i, j):
        r1, c1, r2, c2, text = a
        return f'=CSE_INDEX({text[1:]},{i},{j},{r2 - r1 + 1},{c2 - c1 + 1})'
    front = member(anchor, 1, 1)[:-1].rsplit(',', 4)[0]
    return member(other, i, j).startswith(front)


# C05-range-overlapping-cse-array: repaired in /repo 50c2e69 (no predicate; the cse-range stream reports it again
# if it returns)


def _gen_cse_overlap(rng, title=wbgen.SHEET):
    """Region A1:E5 with two or three CSE arrays (some adjacent, some with the same or a
    prefix-sharing formula text) and neighbours that are blank, numbers, text or ordinary
    formulas; the arrays read the data block H1:I3."""
    g = Grid()
    s = g.sheet(title)
    for r in range(1, 4):
        s['cells'][(r, 8)] = rng.choice([1, 2, 3, 5, 7]) * r
        s['cells'][(r, 9)] = rng.choice([10, 20, 30]) * r
    taken = set()

    def text_for(h, w):
        src = f'H1:H{h}' if w == 1 else (f'H1:I{h}' if w == 2 else f'H1:I{h}')
        return f'={src}{rng.choice(["*2", "+1", "+5", "*3"])}'

    def free(r1, c1, h, w):
        cells = {(r, c) for r in range(r1, r1 + h) for c in range(c1, c1 + w)}
        return r1 >= 1 and c1 >= 1 and r1 + h - 1 <= 5 and c1 + w - 1 <= 5 and not (cells & taken)
    last = None
    for _ in range(rng.choice([2, 3, 3])):
        h, w = rng.choice([(2, 1), (1, 2), (2, 2), (3, 1), (2, 1), (1, 2)])
        spots = [(r, c) for r in range(1, 6) for c in range(1, 6) if free(r, c, h, w)]
        text = text_for(h, w)
        if last is not None and rng.random() < 0.6:
            # directly below / right of the previous array, often with its text (or an extension of it)
            lr1, lc1, lr2, lc2, ltext = last
            near = [(r, c) for (r, c) in ((lr2 + 1, lc1), (lr1, lc2 + 1)) if free(r, c, h, w)]
            if near:
                spots = near
                text = rng.choice([ltext, ltext, ltext + '0', text])
        if not spots:
            continue
        r1, c1 = rng.choice(spots)
        last = (r1, c1, r1 + h - 1, c1 + w - 1, text)
        s['arrays'].append(last)
        taken |= {(r, c) for r in range(r1, r1 + h) for c in range(c1, c1 + w)}
    for r in range(1, 6):
        for c in range(1, 6):
            if (r, c) not in taken and rng.random() < 0.3:
                s['cells'][(r, c)] = rng.choice([4, 9, 'txt', '=H1+1', '=SUM(H1:H3)', 0])
    return g


def _gen_cse_adjacent(rng, title=wbgen.SHEET):
    """Two (sometimes three) CSE array formulas side by side (or one below the other) whose texts
    are IDENTICAL, prefix-equal (the neighbour's text extends the first one's) or different; the
    first block is at least 2 cells across the direction of adjacency, so that a thin range
    (1 x k / k x 1) anchored at its top-left cell and running into the neighbour has no more
    cells than the first block.  Returns (grid, thin ranges, sum cells {cell: rect it sums})."""
    g = Grid()
    s = g.sheet(title)
    for r in range(1, 4):
        s['cells'][(r, 8)] = rng.choice([1, 2, 3, 5, 7, 16]) * r
        s['cells'][(r, 9)] = rng.choice([10, 20, 30, 17]) * r
        s['cells'][(r, 10)] = rng.choice([100, 200]) * r
    horizontal = rng.random() < 0.5
    r0, c0 = rng.choice([(1, 1), (1, 1), (2, 1), (1, 2)])
    across, along = rng.choice([(2, 2), (2, 2), (3, 2), (2, 1), (2, 3), (3, 1)])    # across >= 2
    h, w = (across, along) if horizontal else (along, across)
    op = rng.choice(['*2', '+1', '+5', '*3'])
    text = f'=H1:{_col(8 + min(w, 3) - 1)}{min(h, 3)}{op}'
    blocks = [(r0, c0, r0 + h - 1, c0 + w - 1, text)]
    for _ in range(rng.choice([1, 1, 2])):
        pr1, pc1, pr2, pc2, ptext = blocks[-1]
        along2 = rng.choice([1, 2, 2])
        across2 = rng.choice([across, across, max(1, across - 1)])
        h2, w2 = (across2, along2) if horizontal else (along2, across2)
        r1, c1 = (pr1, pc2 + 1) if horizontal else (pr2 + 1, pc1)
        if r1 + h2 - 1 > 6 or c1 + w2 - 1 > 6:
            break
        blocks.append((r1, c1, r1 + h2 - 1, c1 + w2 - 1,
                       rng.choice([text, text, text, text + '0', text + '+0', f'=H1:I2{op}0'])))
    s['arrays'] += blocks
    lr2, lc2 = blocks[-1][2], blocks[-1][3]
    thin = []
    if horizontal:
        for r in range(r0, r0 + h):                       # r = r0: anchored at the first block's top-left
            thin += [(r, c0, r, c) for c in range(c0 + 1, lc2 + 2)]
        thin += [(r0, c0, r0 + 1, c) for c in range(c0 + w, lc2 + 1)]
    else:
        for c in range(c0, c0 + w):
            thin += [(r0, c, r, c) for r in range(r0 + 1, lr2 + 2)]
        thin += [(r0, c0, r, c0 + 1) for r in range(r0 + h, lr2 + 1)]
    # ordinary cells: the sum of a thin range spanning both blocks, next to the blocks
    sums = {}
    span = [x for x in thin if (x[0], x[1]) == (r0, c0) and (x[3] > blocks[0][3] or x[2] > blocks[0][2])
            and x[2] <= lr2 and x[3] <= lc2]
    for i, rect in enumerate(rng.sample(span, min(2, len(span)))):
        cell = (6 + i, 8)
        s['cells'][cell] = f'=SUM({_col(rect[1])}{rect[0]}:{_col(rect[3])}{rect[2]})'
        sums[(title,) + cell] = rect
    return g, thin, sums


def _cse_arrays(g):
    arrays = [[a[0], a[1], a[2], a[3], a[4], text] for a, (_, _, _, _, text) in
              zip(g.arrays(), g.sheets[0]['arrays'])]
    members = {(r, c) for (_, r1, c1, r2, c2, _) in arrays for r in range(r1, r2 + 1) for c in range(c1, c2 + 1)}
    return arrays, members


def _cse_range_targets(ctx, ExcelCompiler, g, k, targets, solo, arrays, members, both_orders=False):
    """each target range evaluated before / after its member cells by a fresh compiler: every
    element equals the value of the cell evaluated alone"""
    t = g.sheets[0]['title']
    for ti, target in enumerate(targets):
        r1, c1, r2, c2 = target['rect']
        cells = [_cell_target((t, r, c)) for r in range(r1, r2 + 1) for c in range(c1, c2 + 1)
                 if (t, r, c) in solo]
        orders = [[target] + cells, cells + [target]] if both_orders else \
            [([target] + cells) if ti % 2 == 0 else (cells + [target])]
        for oi, order in enumerate(orders):
            kind = 'cse-range-' + ('inside' if (r1, c1) in members else 'outside') + \
                (':quoted-sheet' if g.extra else '')
            case = dict(call='cse-range', args=[target['addr']], order=[x['addr'] for x in order],
                        wrapper='in-memory', workbook=g.desc(), rect=[t, r1, c1, r2, c2], arrays=arrays, **g.extra)
            try:
                seen = _observe(ExcelCompiler, g, order)
            except Exception as exc:      # noqa: BLE001
                ctx.count(('cse-range', k, ti, oi), kind=kind)
                ctx.violation(dict(case, error=type(exc).__name__),
                              f"evaluate({target['addr']}) raises {type(exc).__name__}: {exc}"[:200])
                continue
            bad = sorted(c for c, vals in seen.items() if any(v != solo.get(c) for v in vals))
            ctx.count(('cse-range', k, ti, oi), kind=kind)
            if bad:
                ctx.violation(dict(case, error='value'),
                              f"elements {[_a(*c) for c in bad]} of {target['addr']} differ from the cells' own values",
                              impl={_a(*c): seen[c] for c in bad}, expected={_a(*c): solo.get(c) for c in bad})


def _cse_overlap_case(ctx, ExcelCompiler, k, title=wbgen.SHEET, extra=None):
    rng = ctx.rng
    t = title
    g = _gen_cse_overlap(rng, t)
    g.extra = dict(extra or {})
    arrays, members = _cse_arrays(g)
    solo = _solo(ctx, ExcelCompiler, 'cse-range', g, g.cells())
    if solo is None:
        return
    maxr, maxc = g.used(t)
    rects = [(r1, c1, r2, c2) for r1 in range(1, 7) for r2 in range(r1, 7)
             for c1 in range(1, 7) for c2 in range(c1, 7)
             if (r2, c2) != (r1, c1) and any(r1 <= r <= r2 and c1 <= c <= c2 for (r, c) in members)]
    inside = [x for x in rects if (x[0], x[1]) in members]       # top-left cell belongs to an array
    outside = [x for x in rects if (x[0], x[1]) not in members]
    nin = ctx.n(16, 60) if not g.extra else ctx.n(6, 30)
    chosen = rng.sample(inside, min(nin, len(inside))) + rng.sample(outside, min(nin, len(outside)))
    targets = [_range_target(t, *x) for x in chosen]
    for (_, r1, c1, r2, c2, _) in arrays:
        targets.append(_col_target(g, t, c1))
        targets.append(_row_target(g, t, r1))
    _cse_range_targets(ctx, ExcelCompiler, g, k, targets, solo, arrays, members)


def _cse_adjacent_case(ctx, ExcelCompiler, k, title=wbgen.SHEET, extra=None):
    g, thin, sums = _gen_cse_adjacent(ctx.rng, title)
    g.extra = dict(extra or {})
    arrays, members = _cse_arrays(g)
    solo = _solo(ctx, ExcelCompiler, 'cse-range', g, g.cells())
    if solo is None:
        return
    targets = [_range_target(title, *x) for x in thin]
    _cse_range_targets(ctx, ExcelCompiler, g, ('adjacent', k), targets, solo, arrays, members, both_orders=True)
    _sum_oracle(ctx, 'cse-range', ('adjacent', k), g, sums, solo,
                dict(wrapper='in-memory', arrays=arrays))


def _stream_cse_overlap(ctx):
    from pycel import ExcelCompiler
    for k in range(ctx.n(14, 140)):
        _cse_overlap_case(ctx, ExcelCompiler, k)
    # adjacent blocks with identical / prefix-equal texts: every thin range anchored in the first
    # block and running into the neighbour(s), before and after its cells; SUM over such a range
    for k in range(ctx.n(12, 120)):
        _cse_adjacent_case(ctx, ExcelCompiler, k)


def _sum_oracle(ctx, stream, key, grid, sums, solo, extra=None):
    """{cell holding =SUM(rect): rect}: the value of the cell (evaluated alone) is the sum of the
    values of the rectangle's cells (each evaluated alone) - the range as a formula argument is one
    more access path.  Judged when every member is a number or blank."""
    for cell, (r1, c1, r2, c2) in sorted(sums.items()):
        vals = [solo.get((cell[0], r, c)) for r in range(r1, r2 + 1) for c in range(c1, c2 + 1)]
        nums = [v for v in vals if v is not None]
        ctx.count((stream, 'sum') + tuple(key) + (cell,), kind=stream + '-sum')
        if any(isinstance(v, bool) or not (isinstance(v, int) or (isinstance(v, tuple) and v[:1] == ('float',)))
               for v in nums):
            continue
        want = sum(v[1] if isinstance(v, tuple) else v for v in nums)
        got = solo[cell]
        gotn = got[1] if isinstance(got, tuple) and got[:1] == ('float',) else got
        if isinstance(gotn, bool) or not isinstance(gotn, (int, type(want))) or gotn != want:
            case = dict(call=stream, args=[_ra(cell[0], r1, c1, r2, c2)], order=[_a(*cell)], error='sum',
                        workbook=grid.desc(), **grid.extra)
            case.update(extra or {})
            ctx.violation(case, f"{_a(*cell)} = SUM({_ra(cell[0], r1, c1, r2, c2)}) is not the sum of the values "
                                f"of the cells of that range", impl=got, expected=want)


# ------------------- T6: range operations (intersection, union, multi-colon, computed corners) reached through ranges
def _gen_range_ops(rng):
    """Column A: numbers.  Columns B, C: FORMULA cells (some numbers, C also blanks).  Column E:
    formulas built on a range OPERATION - the intersection operator (space), a computed corner
    (B3:OFFSET(B3,0,0), OFFSET(..):B3, INDEX(..):B3, B3:INDIRECT("B3")), several colons
    (B1:B2:B5), a union of arguments - resolving to ONE (formula / number / blank) cell or to a
    sub-range, bare or wrapped (SUM, +1, unary minus), plus cells chained on them.  G1, G2: SUM
    over the column of operations and over column B.
    Returns (grid, rows the operations point at, {sum cell: rect})."""
    g = Grid()
    t = wbgen.SHEET
    s = g.sheet(t)
    n = rng.choice([4, 5, 5])
    for r in range(1, n + 1):
        s['cells'][(r, 1)] = rng.choice([1, 2, 3, 5, 7, -4, 10])
        forms = [f'=A{r}*2', f'=A{r}+{rng.randrange(1, 9)}', f'=SUM(A1:A{r})', f'=A{r}*A1']
        if r > 1:
            forms += [f'=B{r - 1}+A{r}', f'=B{r - 1}*2']
        s['cells'][(r, 2)] = rng.choice(forms) if rng.random() < 0.85 else rng.choice([4, 9, 20])
        kind = rng.random()
        if kind < 0.3:
            s['cells'][(r, 3)] = rng.choice([100, 200, 'txt'])
        elif kind < 0.65:
            s['cells'][(r, 3)] = rng.choice([f'=B{r}+1', f'=A{r}*10', f'=B{r}&"c"'])
    rows = []

    def one_cell(col, tr):
        """range operations denoting the single cell <col><tr>"""
        o = 'ABC'.index(col) - 1           # column offset from B
        return rng.choice([
            f'{col}1:{col}{n} A{tr}:C{tr}', f'A{tr}:C{tr} {col}1:{col}{n}', f'{col}1:{col}{n} A{tr}:C{tr}',
            f'{col}:{col} {tr}:{tr}', f'{col}1:{col}{n} {tr}:{tr}', f'{col}1:{col}2:{col}{n} A{tr}:C{tr}',
            f'A1:C{n} {col}1:{col}{n} A{tr}:C{tr}', f'{col}{tr - 1}:{col}{tr} {col}{tr}:{col}{n}',
            f'{col}{tr}:OFFSET({col}{tr},0,0)', f'OFFSET({col}{tr},0,0):{col}{tr}', f'{col}{tr}:OFFSET(B{tr},0,{o})',
            f'OFFSET(A1,{tr - 1},{o + 1}):{col}{tr}', f'INDEX({col}1:{col}{n},{tr}):{col}{tr}',
            f'{col}{tr}:INDIRECT("{col}{tr}")', f'INDIRECT("{col}"&{tr}):{col}{tr}'])

    def sub_range(col, tr):
        """range operations denoting a range of two or more cells, as function arguments"""
        return rng.choice([
            f'{col}1:{col}{n} A{tr}:C{tr + 1}', f'A{tr}:C{tr} B1:C{n}', f'{col}{tr}:OFFSET({col}{tr},1,0)',
            f'OFFSET({col}{tr},0,0):{col}{tr + 1}', f'{col}{tr}:INDEX({col}1:{col}{n},{tr + 1})',
            f'{col}1:{col}{tr}:{col}{n}', f'{col}1:{col}2,{col}{tr + 1}:{col}{n}', f'A{tr}:B{tr}:C{tr + 1}',
            f'A{tr}:C{tr + 1} B1:C{n}', f'{col}{tr}:INDIRECT("{col}{tr + 1}")'])
    m = rng.choice([2, 3, 3, 4])
    for i in range(1, m + 1):
        col = rng.choice('BBBC')
        tr = rng.randrange(2, n)
        rows.append(tr)
        kind = rng.random()
        if i > 1 and kind < 0.2:
            text = rng.choice([f'=E{i - 1}+1', f'=SUM(E1:E{i - 1})', f'=E{i - 1}&"e"'])
        elif kind < 0.75:
            x = one_cell(col, tr)
            text = rng.choice(['={}', '={}', '={}', '=SUM({})', '=({})+1', '=-({})', '=IF(TRUE,{},0)']).format(x)
        else:
            text = rng.choice(['=SUM({})', '=SUM({})', '=MAX({})', '=COUNT({})']).format(sub_range(col, tr))
        s['cells'][(i, 5)] = text
    s['cells'][(1, 7)] = f'=SUM(E1:E{m})'
    s['cells'][(2, 7)] = f'=SUM(B1:B{n})'
    return g, n, m, sorted(set(rows)), {(t, 1, 7): (1, 5, m, 5), (t, 2, 7): (1, 2, n, 2)}


def _stream_range_ops(ctx):
    from pycel import ExcelCompiler
    rng = ctx.rng
    t = wbgen.SHEET
    for k in range(ctx.n(12, 120)):
        g, n, m, rows, sums = _gen_range_ops(rng)
        cells = g.cells()
        solo = _solo(ctx, ExcelCompiler, 'range-ops', g, cells)
        if solo is None:
            continue
        _sum_oracle(ctx, 'range-ops', (k,), g, sums, solo)
        singles = [_cell_target(c) for c in cells]
        ecells = [(t, i, 5) for i in range(1, m + 1)]
        bcells = [(t, r, 2) for r in range(1, n + 1)]
        ranges = [_range_target(t, 1, 5, m, 5), _range_target(t, 1, 2, n, 2), _range_target(t, 1, 1, n, 3),
                  _range_target(t, 1, 5, 2, 7), _col_target(g, t, 2), _col_target(g, t, 5)]
        for r in rows:
            ranges += [_range_target(t, r, 1, r, 3), _row_target(g, t, r)]
        mixed = ecells + [(t, r, c) for r in rows for c in (2, 3) if (t, r, c) in solo]
        rng.shuffle(mixed)
        ranges += [_seq_target('list', ecells), _seq_target('tuple', bcells), _seq_target('generator', mixed)]
        every = singles + ranges
        # every range / sequence, and every formula cell, evaluated FIRST by a fresh compiler, then
        # every other target (ranges included: a cell must show the same value inside them);
        # plus random permutations of all targets
        firsts = ranges + [x for x, c in zip(singles, cells) if c[2] != 1]
        orders = []
        for first in firsts:
            rest = [x for x in every if x is not first]
            rng.shuffle(rest)
            orders.append([first] + rest)
        for _ in range(ctx.n(6, 20)):
            orders.append(rng.sample(every, len(every)))
        def verdict(order):
            """None when every observation agrees with the solo values, else (kind, what, impl, expected)"""
            keep = []
            try:
                seen = _observe(ExcelCompiler, g, order, keep=keep)
            except _Shape as exc:
                return 'shape', str(exc), None, None
            except Exception as exc:      # noqa: BLE001
                return type(exc).__name__, f"evaluate raises {type(exc).__name__}: {exc}"[:200], None, None
            bad = sorted(c for c, vals in seen.items() if any(v != solo.get(c) for v in vals))
            if bad:
                return ('value', f"value of {[_a(*c) for c in bad]} depends on the first-evaluation order / access "
                                 f"path (differs from the value of the cell evaluated alone)",
                        {_a(*c): seen[c] for c in bad}, {_a(*c): solo.get(c) for c in bad})
            # what the compiler stores for a single cell is one value, not an array of values
            nested = sorted(c for c in cells
                            if isinstance(getattr(keep[0].cell_map.get(_a(*c)), 'value', None), (tuple, list)))
            if nested:
                return ('stored', f"the value stored for the single cell(s) {[_a(*c) for c in nested]} is an array",
                        {_a(*c): repr(keep[0].cell_map[_a(*c)].value) for c in nested},
                        {_a(*c): solo[c] for c in nested})
            return None
        reported = 0
        for oi, order in enumerate(orders):
            ctx.count(('range-ops', k, oi), kind='range-ops')
            if reported >= 3:
                continue
            found = verdict(order)
            if found is None:
                continue
            # a failing order: drop every target that is not needed for this kind of failure
            small = list(order)
            for x in list(order):
                trial = [y for y in small if y is not x]
                if trial and (verdict(trial) or [None])[0] == found[0]:
                    small = trial
            kind, what, impl, expected = verdict(small)
            reported += 1
            ctx.violation(dict(call='range-ops', order=[x['addr'] for x in small], first=small[0]['addr'],
                               error=kind, workbook=g.desc()), what, impl=impl, expected=expected)


# ------------------------------------- T5: unbounded row/column ranges as formula arguments, with writes
UNB_POOL = [0, 1, 2, 3, 5, 7, -4, 10, 12, 100]


def _gen_unbounded(rng):
    """Columns A, B rows 1..n hold only data; the formulas sit in column D below row n and
    aggregate whole columns (A:A, B:B, A:B) and whole rows (r:r, r <= n, data only)."""
    g = Grid()
    s = g.sheet(wbgen.SHEET)
    n = rng.choice([2, 3, 4])
    for r in range(1, n + 1):
        s['cells'][(r, 1)] = rng.choice(UNB_POOL)
        s['cells'][(r, 2)] = rng.choice(UNB_POOL + ['text'])
    refs = ['A:A', 'A:A', 'B:B', 'A:B'] + [f'{r}:{r}' for r in range(1, n + 1)] + [f'1:{n}']
    nf = rng.choice([2, 3])
    used = []
    for i in range(nf):
        ref = rng.choice(refs)
        used.append(ref)
        text = f'={rng.choice(["SUM", "COUNT", "MIN", "MAX"])}({ref})'
        if i and rng.random() < 0.4:
            text += f'+D{n + i}'
        s['cells'][(n + 1 + i, 4)] = text
    return g, n, nf, sorted(set(used))


def _stream_unbounded_history(ctx):
    from pycel import ExcelCompiler
    rng = ctx.rng
    t = wbgen.SHEET
    for k in range(ctx.n(12, 120)):
        g, n, nf, refs = _gen_unbounded(rng)
        formulas = [(t, n + 1 + i, 4) for i in range(nf)]
        data = [(t, r, c) for r in range(1, n + 1) for c in (1, 2)]
        scratch_memo = {}

        def scratch(inputs):
            key = tuple(sorted(inputs.items(), key=repr))
            if key not in scratch_memo:
                comp = ExcelCompiler(excel=g.build(inputs))
                scratch_memo[key] = {c: canon(comp.evaluate(_a(*c))) for c in formulas + data}
            return scratch_memo[key]
        perms = list(itertools.permutations(formulas))
        for pi, perm in enumerate(perms):
            inputs, history = {}, []
            comp = ExcelCompiler(excel=g.build())
            case = dict(call='unbounded-history', workbook=g.desc(), args=[f'{t}!{x}' for x in refs], history=history)
            ok = True
            for step in range(ctx.n(3, 5)):
                if step:
                    known = [c for c in data if _a(*c) in comp.cell_map]
                    if not known:
                        break
                    for cell in rng.sample(known, min(len(known), rng.choice([1, 1, 2]))):
                        old = inputs.get(cell, g.sheets[0]['cells'][cell[1:]])
                        v = rng.choice([x for x in UNB_POOL + [None, 'w'] if x != old or type(x) is not type(old)])
                        history.append(['set_value', _a(*cell), v])
                        try:
                            comp.set_value(_a(*cell), v)
                        except Exception as exc:      # noqa: BLE001
                            ctx.violation(dict(case, history=list(history), error=type(exc).__name__),
                                          f"set_value raises {type(exc).__name__}: {exc}"[:200])
                            ok = False
                            break
                        inputs[cell] = v
                    if not ok:
                        break
                want = scratch(inputs)
                order = list(perm) if step == 0 else rng.sample(formulas + data, nf + len(data))
                if step and rng.random() < 0.5:
                    order = order[:rng.randrange(1, len(order) + 1)]      # leave some cells stale for later
                got = {}
                try:
                    for cell in order:
                        history.append(['evaluate', _a(*cell)])
                        got[cell] = canon(comp.evaluate(_a(*cell)))
                except Exception as exc:      # noqa: BLE001
                    ctx.violation(dict(case, history=list(history), error=type(exc).__name__),
                                  f"evaluate raises {type(exc).__name__}: {exc}"[:200])
                    break
                ctx.count(('unbounded-history', k, pi, step), kind='unbounded-history')
                bad = sorted(c for c in got if got[c] != want[c])
                if bad:
                    ctx.violation(dict(case, history=list(history)),
                                  f"after the history the value of {[_a(*c) for c in bad]} differs from a from-scratch "
                                  f"compile of the workbook with the values written",
                                  impl={_a(*c): got[c] for c in bad}, expected={_a(*c): want[c] for c in bad})
                    break


# ------------------------------------------------------------------------- T8: merged areas
def _gen_merged(rng):
    """Block A1:D4 of numbers / text / blanks / formulas with one or two MERGED areas (1x2, 2x1, 2x2, 1x3, 3x1, 2x3,
    3x2: only the top-left cell of an area holds content, the cells it covers are blank cells of their own kind in
    openpyxl - MergedCell); formulas in column F below the block read covered cells directly (=D1+C1, =D1&"x",
    =ISBLANK(D1)), through bounded ranges (=SUM(C1:D1), =COUNT(A1:D4)) and through unbounded ones (=SUM(1:1),
    =COUNT(D:D)).  Returns (grid, covered cells, merged rectangles)."""
    g = Grid()
    t = wbgen.SHEET
    s = g.sheet(t)
    taken, covered, rects = set(), [], []
    for _ in range(rng.choice([1, 2, 2])):
        h, w = rng.choice([(1, 2), (2, 1), (2, 2), (1, 3), (3, 1), (2, 3), (3, 2), (1, 2), (2, 1)])
        spots = [(r, c) for r in range(1, 6 - h) for c in range(1, 6 - w)
                 if not ({(rr, cc) for rr in range(r, r + h) for cc in range(c, c + w)} & taken)]
        if not spots:
            continue
        r1, c1 = rng.choice(spots)
        area = [(rr, cc) for rr in range(r1, r1 + h) for cc in range(c1, c1 + w)]
        taken |= set(area)
        covered += [(t,) + x for x in area[1:]]
        rects.append((r1, c1, r1 + h - 1, c1 + w - 1))
        s['merges'].append(rects[-1])
    cov = {x[1:] for x in covered}
    for r in range(1, 5):
        for c in range(1, 5):
            if (r, c) in cov:
                continue
            p = rng.random()
            top = any((r, c) == (x[0], x[1]) for x in rects)
            if p < 0.55 or top and p < 0.8:
                s['cells'][(r, c)] = rng.choice([1, 2, 3, 5, 7, -4, 10, 'txt', 12])
            elif p < 0.75 and (r, c) != (1, 1):
                prev = [(rr, cc) for rr in range(1, 5) for cc in range(1, 5) if (rr, cc) < (r, c)]
                pr, pc = rng.choice(prev)              # an earlier cell of the block: a covered one now and then
                if cov and rng.random() < 0.4:
                    earlier = sorted(x for x in cov if x < (r, c))
                    if earlier:
                        pr, pc = rng.choice(earlier)
                s['cells'][(r, c)] = rng.choice([f'={_col(pc)}{pr}+1', f'={_col(pc)}{pr}', f'={_col(pc)}{pr}&"m"',
                                                 f'=SUM(A1:{_col(pc)}{pr})'])
    cr, cc = rng.choice(sorted(cov))
    forms = []
    for (r, c) in rng.sample(sorted(cov), min(len(cov), 2)):
        a = f'{_col(c)}{r}'
        left = f'{_col(c - 1)}{r}' if c > 1 else f'{_col(c)}{r - 1}'
        forms += [f'={a}+{left}', f'={a}', f'={a}&"x"', f'=ISBLANK({a})', f'=SUM({left}:{a})', f'=IF({a}="",1,2)',
                  f'=SUM({r}:{r})', f'=COUNT({_col(c)}:{_col(c)})', f'=MAX(A{r}:D{r})', f'=INDEX(A1:D4,{r},{c})']
    forms += ['=COUNT(A1:D4)', '=SUM(A1:D4)']
    for i, text in enumerate(rng.sample(forms, rng.choice([2, 3, 3]))):
        s['cells'][(6 + i, 6)] = text
    return g, covered, rects


def _stream_merged(ctx):
    """merged areas: the covered cells read on their own, by formulas, through every kind of enclosing range, address
    sequences and the sheet-less form, every target first (an exception is an observation too: it is reported)"""
    from pycel import ExcelCompiler
    rng = ctx.rng
    t = wbgen.SHEET
    for k in range(ctx.n(24, 200)):
        g, covered, rects = _gen_merged(rng)
        g.extra = dict(merged=[_ra(t, *x) for x in rects])
        block = [(t, r, c) for r in range(1, 5) for c in range(1, 5)]
        formulas = [c for c in g.cells() if c[2] == 6]
        cells = block + formulas
        # the covered cells, the formulas and a few other cells of the block as single targets
        others = [c for c in block if c not in covered]
        singles = [_cell_target(c) for c in covered + formulas + rng.sample(others, 3)]
        ranges = [_range_target(t, *x) for x in rects]                               # the merged areas themselves
        ranges.append(_range_target(t, 1, 1, 4, 4))                                  # the whole block
        for (_, r, c) in rng.sample(covered, min(len(covered), 2)):
            ranges.append(_range_target(t, r, 1, r, 4))                              # its row / column of the block
            ranges.append(_range_target(t, 1, c, 4, c))
            ranges.append(_row_target(g, t, r))
            ranges.append(_col_target(g, t, c))
            ranges.append(dict(addr=f'{_col(c)}{r}', sheet=t, rect=(r, c, r, c)))    # sheet-less
        mixed = covered + rng.sample(others, 2)
        rng.shuffle(mixed)
        ranges.append(_seq_target(rng.choice(['list', 'tuple', 'generator']), mixed))
        _run_orders(ctx, ExcelCompiler, 'merged-order', k, g, singles, ranges, ctx.n(6, 20), cells=cells)
