"""C17 — date serial numbers: correspondence (Gen/date_time.v under the wrapper
model vs the real functions through apply_meta) and the property's oracle."""
import datetime as dt
import fractions
import os
import subprocess

from harness.common import (COQ, dec_res, enc_val, ensure_impl_on_path, known_predicate, run_impl,
                            same, sh)

GEN_MODULES = ['excelutil', 'date_time']
F = fractions.Fraction
MAXDAY = 2958465
ZERO = dt.date(1899, 12, 30)

ASSUMPTIONS = [
    "datetime/calendar are modelled by coq/Lib/PyDate.v (CPython's _ymd2ord/_ord2ymd transcribed; a midnight "
    "datetime is its ordinal); non-integer year/month/day arguments are outside the model",
    "YEARFRAC results are single float divisions of exact integers: compared with the correctly rounded "
    "exact quotient; basis 1 (actual/actual) is not translated (oracle: symmetry only)",
    "time-of-day (HOUR/MINUTE/SECOND) is a binary64 computation: modelled in PrimFloat (Model/DayTime.v), "
    "checked for all 86400 seconds against the implementation",
]


@known_predicate('C17-day-borrow')
def _day_borrow(case):
    """DATE with a day <= 0 borrows the length of month m instead of m-1."""
    a = case.get('args', [])
    return case.get('call') in ('date', 'date-carry') and len(a) >= 3 and isinstance(a[2], (int, float)) \
        and -25000 <= a[2] <= 0       # beyond -25000: C17-day-recursion


@known_predicate('C17-eomonth-last-month')
def _eomonth_last(case):
    return case.get('call') == 'eomonth' and case.get('oracle') == 'last-month'


@known_predicate('C17-day-recursion')
def _day_recursion(case):
    """normalize_year recurses once per month carried, so DATE(2000, 1, 40000) and
    DATE(2000, 1, -40000) raise RecursionError (the model: OutOfFuel, budget 900 calls).  No
    exception is proved for |day| <= 25000 (C17_date_total_partial); outside the property's
    quantifier (days -40..60).  Looks at: case['call'] in ('date', 'date-carry') and
    case['args'][2] an int with |day| > 25000."""
    a = case.get('args', [])
    return case.get('call') in ('date', 'date-carry') and len(a) >= 3 and isinstance(a[2], int) \
        and not isinstance(a[2], bool) and abs(a[2]) > 25000


# Repair 7da3fd9 (dates normalised to a year before 1 are #NUM!): the inputs that raised TypeError
# from is_leap_year(year <= 0) before it, and their neighbours.  Every one must be #NUM! (or, for
# DATE(1, 1, -40) which stays in the calendar, a serial day) — never an exception.
YEAR_ZERO_CASES = (
    [('date', (1900, -22810, 1), 'num'), ('date', (1900, -22798, 1), 'num'),
     ('eomonth', (100, -22815), 'num'), ('edate', (100, -22814), 'num'),
     ('date', (1900, -22799, -40), 'num'), ('date', (1, 1, -40), 'value'),
     ('date', (0, -22810, 28), 'num'), ('date', (1899, -45598, 1), 'num')]
    + [(f, (100, k), 'num') for k in range(-23000, -22700) for f in ('edate', 'eomonth')])


def _is_date_value(r):
    if r[0] != 'ok':
        return False
    v = r[1]
    return v == '#NUM!' or v == ('float', F(60)) or (isinstance(v, int) and not isinstance(v, bool)
                                                      and 0 <= v <= MAXDAY)


def run(ctx):
    ensure_impl_on_path()
    from pycel.lib import date_time as D
    from pycel.lib.function_helpers import apply_meta
    names = ['year', 'month', 'day', 'weekday', 'date', 'edate', 'eomonth', 'yearfrac']
    fn = {n: apply_meta(getattr(D, n), name_space={})[0] for n in names}
    raw = {n: getattr(D, n) for n in ('date_from_int', 'normalize_year', 'is_leap_year', 'max_days_in_month')}
    rng = ctx.rng
    ctx.extra['rule'] = (
        "serial days: all boundaries (0..62, the ends of every century, MAX-2..MAX+2) plus a PRNG sample "
        "(thorough: every day 0..2958465 for the round trip); DATE(y,m,d) with m,d in -40..60 on 40 years "
        "incl. 1900, 1904, 2000, 2100, 9999; month shifts -1200..1200; YEARFRAC bases 0..4 on sampled pairs; "
        "text/logical/blank/error/fractional arguments through the wrappers; distinct = distinct call")
    days = set(range(0, 64)) | {MAXDAY - 2, MAXDAY - 1, MAXDAY, MAXDAY + 1, MAXDAY + 2, -1, -2}
    for y in (1900, 1904, 1999, 2000, 2001, 2100, 2400, 9999):
        for mo, d in ((1, 1), (2, 28), (3, 1), (12, 31)):
            n = (dt.date(y, mo, d) - ZERO).days
            days |= {n - 1, n, n + 1}
    for _ in range(ctx.n(3000, 60000)):
        days.add(rng.randrange(0, MAXDAY + 1))
    days = sorted(days)
    calls = []
    for n in days:
        for f in ('year', 'month', 'day', 'weekday'):
            calls.append((f, (n,)))
    for n in days[::7]:
        calls.append(('year', (n + 0.5,)))
        calls.append(('weekday', (float(n),)))
    years = [1900, 1901, 1904, 1999, 2000, 2001, 2004, 2100, 9999, 0, 1, 1899, 10000, -1] + \
        [rng.randrange(1900, 2200) for _ in range(ctx.n(6, 26))]
    for y in years:
        for m in range(-40, 61, 1 if rng.random() < 0.3 else 7):
            for d in ([-40, -31, -1, 0, 1, 28, 29, 30, 31, 32, 60] if rng.random() < 0.5 else
                      [rng.randrange(-40, 61) for _ in range(4)]):
                calls.append(('date', (y, m, d)))
    # the region of C17_date_total_partial / C17_day_carry beyond the property's quantifier: far
    # months (>= -11000), long day carries (|d| <= 20000: up to ~720 nested normalize_year calls)
    for _ in range(ctx.n(60, 600)):
        y = rng.choice([0, 1899, 1900, 1901, 2000, 2024, 9950, 9999, rng.randrange(0, 10000)])
        calls.append(('date', (y, rng.randrange(-11000, 100000), rng.randrange(-40, 61))))
        calls.append(('date', (y, rng.randrange(-40, 61), rng.randrange(-20000, 20001))))
        calls.append(('date', (y, rng.randrange(-11000, 11000), rng.choice([1, 28, 29, 31, 400, -400]))))
    for n in days[::97]:
        for k in (-10000, rng.randrange(-10000, -1200), rng.randrange(1200, 100000)):
            calls.append(('edate', (n, k)))
            calls.append(('eomonth', (n, k)))
    # repair 7da3fd9: months that normalise to a year before 1 (correspondence here, oracle below)
    for f, a, _ in YEAR_ZERO_CASES:
        calls.append((f, a))
    for _ in range(ctx.n(40, 400)):
        calls.append(('date', (rng.choice([0, 1, 1899, 1900, 2000, 9999]), rng.randrange(-200000, -11000),
                               rng.randrange(-40, 61))))
        calls.append((rng.choice(['edate', 'eomonth']), (rng.choice(days), rng.randrange(-200000, -10000))))
    # known finding C17-day-recursion: always exercised
    calls.append(('date', (2000, 1, 40000)))
    calls.append(('date', (2000, 1, -40000)))
    for n in days[::11]:
        for k in [0, 1, -1, 12, -12, 1200, -1200] + [rng.randrange(-1200, 1201) for _ in range(3)]:
            calls.append(('edate', (n, k)))
            calls.append(('eomonth', (n, k)))
    pairs = [(rng.choice(days), rng.choice(days)) for _ in range(ctx.n(300, 5000))]
    for a, b in pairs:
        if 0 <= a <= MAXDAY and 0 <= b <= MAXDAY:
            for basis in (0, 2, 3, 4):
                calls.append(('yearfrac', (a, b, basis)))
    odd = ['3', 'abc', '', True, False, None, '#DIV/0!', '#N/A', -1, '12:00']
    for a in odd:
        for f in ('year', 'month', 'day', 'weekday'):
            calls.append((f, (a,)))
        for b in [1, '1', None, True, '#REF!', 'x']:
            calls.append(('date', (2000, a, b)))
            calls.append(('date', (a, 1, b)))
            calls.append(('edate', (a, b)))
            calls.append(('eomonth', (b, a)))
            calls.append(('yearfrac', (a, b, 0)))
            calls.append(('yearfrac', (100, 200, a)))
    rawcalls = [('date_from_int', (n,)) for n in days[::5]] + \
        [('normalize_year', (y, m, d)) for y in (1900, 2000, 2023) for m in range(-14, 27, 3)
         for d in range(-40, 61, 7)] + \
        [('is_leap_year', (y,)) for y in (1900, 1904, 2000, 2100, 1, 2023, 0, -4, 1.5, 'x')] + \
        [('max_days_in_month', (m, y)) for m in range(0, 14) for y in (1900, 2000, 2001)]
    impl = [run_impl(fn[f], *a) for f, a in calls] + [run_impl(raw[f], *a) for f, a in rawcalls]
    allcalls = calls + rawcalls
    model = [dec_res(x) for x in ctx.model.batch([(f, [enc_val(v) for v in a]) for f, a in allcalls])] \
        if ctx.model else [None] * len(allcalls)
    unm = 0
    for (f, a), im, m in zip(allcalls, impl, model):
        case = dict(call=f, args=list(a))
        ctx.count((f, repr(a)), kind=f, sample=dict(case, impl=im))
        if m is not None:
            if m[0] == 'raise' and m[1] in ('Unmodelled', 'OutOfFuel'):
                unm += 1
            elif not same(m, im) and not (im == ('ok', 60) and m == ('ok', ('float', F(60)))) \
                    and not (m == ('ok', 60) and im == ('ok', ('float', F(60)))):
                ctx.divergence(case, im, m, f'Gen/date_time.v f_{f} (wrapped) = date_time.{f}')
        if im[0] == 'raise' and f in fn:
            ctx.violation(case, f"raises {im[1]} instead of returning a value or an error code", impl=im)
    ctx.histogram['unmodelled'] = unm
    oracle(ctx, fn, days, years)
    daytime(ctx, D)
    datetimes(ctx, D)


def oracle(ctx, fn, days, years):
    Y, M, Dd, W, DATE = fn['year'], fn['month'], fn['day'], fn['weekday'], fn['date']
    sweep = range(0, MAXDAY + 1) if ctx.tier == 'thorough' else days
    for n in sweep:
        if not (0 <= n <= MAXDAY):
            for f in ('year', 'month', 'day', 'weekday'):
                r = run_impl(fn[f], n)
                if r != ('ok', '#NUM!'):
                    ctx.violation(dict(call=f, args=[n]), "out-of-range serial number is not #NUM!", impl=r)
            continue
        y, m, d = Y(n), M(n), Dd(n)
        ctx.count(('rt', n), kind='oracle-roundtrip')
        back = run_impl(DATE, y, m, d)
        if back not in (('ok', n), ('ok', ('float', F(n)))):
            ctx.violation(dict(call='roundtrip', args=[n]), "DATE(YEAR(n), MONTH(n), DAY(n)) != n",
                          impl=back, expected=n)
        if n > 60:
            t = ZERO + dt.timedelta(days=n)
            if (y, m, d) != (t.year, t.month, t.day):
                ctx.violation(dict(call='parts', args=[n]), "parts are not those of 1899-12-30 + n",
                              impl=[y, m, d], expected=[t.year, t.month, t.day])
        if n + 7 <= MAXDAY and (W(n + 7) != W(n) or not (1 <= W(n) <= 7)):
            ctx.violation(dict(call='weekday', args=[n]), "WEEKDAY does not have period 7 / range 1..7",
                          impl=[W(n), W(n + 7)])
    if (Y(60), M(60), Dd(60)) != (1900, 2, 29) or (Y(0), M(0), Dd(0)) != (1900, 1, 0):
        ctx.violation(dict(call='parts', args=[60]), "day 60 / day 0 are not 1900-02-29 / 1900-01-00",
                      impl=[(Y(60), M(60), Dd(60)), (Y(0), M(0), Dd(0))])
    # carrying: DATE(y,m,d) = DATE(y,m,1) + d - 1 and DATE(y, m+12k, d) = DATE(y+k, m, d)
    for y in [yy for yy in years if 1901 <= yy <= 9990]:
        for m in range(-40, 61, 3):
            base = run_impl(DATE, y, m, 1)
            for d in (-40, -31, -1, 0, 1, 2, 28, 31, 32, 60):
                ctx.count(('carry', y, m, d), kind='oracle-carry')
                got = run_impl(DATE, y, m, d)
                if base[0] == 'ok' and isinstance(base[1], int) and got != ('ok', base[1] + d - 1):
                    ctx.violation(dict(call='date-carry', args=[y, m, d]),
                                  "DATE(y,m,d) != DATE(y,m,1) + d - 1", impl=got, expected=base[1] + d - 1)
            # long forward carries (C17_day_carry: any d >= 1 within the recursion budget)
            for d in (400, 5000, 20000):
                ctx.count(('carry', y, m, d), kind='oracle-carry')
                got = run_impl(DATE, y, m, d)
                if base[0] == 'ok' and isinstance(base[1], int) and base[1] > 60:
                    want = base[1] + d - 1 if base[1] + d - 1 <= MAXDAY else '#NUM!'
                    if got != ('ok', want):
                        ctx.violation(dict(call='date-carry', args=[y, m, d]),
                                      "DATE(y,m,d) != DATE(y,m,1) + d - 1", impl=got, expected=want)
            for k in (-2, 1, 3):
                if not (1900 <= y + k <= 9999):
                    continue        # DATE reads years below 1900 as 1900 + year
                a, b = run_impl(DATE, y, m + 12 * k, 15), run_impl(DATE, y + k, m, 15)
                if a != b:
                    ctx.violation(dict(call='date-month-carry', args=[y, m, k]),
                                  "DATE(y, m+12k, d) != DATE(y+k, m, d)", impl=a, expected=b)
    # EOMONTH / EDATE
    for n in days[::13]:
        if not (61 <= n <= MAXDAY):
            continue
        t = ZERO + dt.timedelta(days=n)
        for k in (0, 1, -1, 11, -13, 25):
            mi = t.year * 12 + (t.month - 1) + k
            yy, mm = divmod(mi, 12)
            mm += 1
            ctx.count(('eom', n, k), kind='oracle-eomonth')
            if not (1900 <= yy <= 9999):
                continue
            last = (dt.date(yy + (mm == 12), mm % 12 + 1, 1) - dt.timedelta(days=1)) if (yy, mm) != (9999, 12) \
                else dt.date(9999, 12, 31)
            want = (last - ZERO).days
            got = run_impl(fn['eomonth'], n, k)
            if want > 60 and got != ('ok', want):
                ctx.violation(dict(call='eomonth', args=[n, k],
                                   oracle='last-month' if (yy, mm) == (9999, 12) else 'eomonth'),
                              "EOMONTH is not the last day of the shifted month", impl=got, expected=want)
            dd = min(t.day, last.day)
            want = (dt.date(yy, mm, dd) - ZERO).days
            got = run_impl(fn['edate'], n, k)
            if want > 60 and got != ('ok', want):
                ctx.violation(dict(call='edate', args=[n, k]), "EDATE does not shift by whole months",
                              impl=got, expected=want)
    # EOMONTH into the first months of Excel's calendar, where it differs from the Gregorian one: January,
    # (29-day) February and March 1900 end on the serial days 31, 60 and 91
    for n, m0 in [(0, 1), (1, 1), (15, 1), (31, 1), (32, 2), (40, 2), (59, 2), (60, 2), (61, 3), (75, 3), (426, 15), (791, 27)]:
        for target, want in ((1, 31), (2, 60), (3, 91)):
            k = target - m0
            ctx.count(('eom1900', n, k), kind='oracle-eomonth')
            got = run_impl(fn['eomonth'], n, k)
            if not (got[0] == 'ok' and isinstance(got[1], (int, tuple)) and value_num(got[1]) == want):
                ctx.violation(dict(call='eomonth', args=[n, k], oracle='eomonth-1900'),
                              "EOMONTH is not the last day of the shifted month (Excel's 1900 calendar)",
                              impl=got, expected=want)
    # serial 0 (1900-01-00) is a legal start (seeded change C17-months-inc-day-zero-excluded: `0 < start_date`)
    ctx.count(('edate-zero', 0, 0), kind='oracle-edate-feb')
    got = run_impl(fn['edate'], 0, 0)
    if not (got[0] == 'ok' and isinstance(got[1], (int, tuple)) and value_num(got[1]) == 0):
        ctx.violation(dict(call='edate', args=[0, 0], oracle='edate-day-zero'),
                      "EDATE(0, 0) is not the start date itself", impl=got, expected=0)
    # EDATE from the last days of a month into every February nearby (leap and non-leap targets
    # in years other than the start year: the clip must use the TARGET month's length)
    import calendar
    for y in (1999, 2000, 2001, 2003, 2004, 2019, 2020, 2023, 2024, 2099, 2100):
        for m in range(1, 13):
            for d in (28, 29, 30, 31):
                if d > calendar.monthrange(y, m)[1]:
                    continue
                n = (dt.date(y, m, d) - ZERO).days
                for j in (-1, 0, 1, 2):
                    k = (2 - m) + 12 * j
                    ty = y + j
                    if not (1901 <= ty <= 9999):
                        continue
                    dd = min(d, calendar.monthrange(ty, 2)[1])
                    want = (dt.date(ty, 2, dd) - ZERO).days
                    got = run_impl(fn['edate'], n, k)
                    ctx.count(('edate-feb', y, m, d, j), kind='oracle-edate-feb')
                    if got != ('ok', want):
                        ctx.violation(dict(call='edate', args=[n, k]), "EDATE does not shift by whole months",
                                      impl=got, expected=want)
    # repair 7da3fd9: a date normalised to a year before 1 is #NUM!, never an exception
    for f, a, want in YEAR_ZERO_CASES:
        ctx.count(('year-zero', f, a), kind='oracle-year-zero')
        r = run_impl(fn[f], *a)
        if (want == 'num' and r != ('ok', '#NUM!')) or not _is_date_value(r):
            ctx.violation(dict(call=f, args=list(a)),
                          "a date before year 1 is not #NUM! / raises" if want == 'num'
                          else "not a date value / raises", impl=r, expected='#NUM!' if want == 'num' else None)
    # YEARFRAC symmetric
    for _ in range(ctx.n(400, 6000)):
        a, b = ctx.rng.randrange(0, MAXDAY + 1), ctx.rng.randrange(0, MAXDAY + 1)
        for basis in range(5):
            ctx.count(('yf', a, b, basis), kind='oracle-yearfrac')
            x, y = run_impl(fn['yearfrac'], a, b, basis), run_impl(fn['yearfrac'], b, a, basis)
            if x != y or x[0] != 'ok':
                ctx.violation(dict(call='yearfrac', args=[a, b, basis]), "YEARFRAC is not symmetric / raises",
                              impl=[x, y])


@known_predicate('C17-time-far-date-part')
def _time_far(case):
    """HOUR/MINUTE/SECOND of a date-time whose date part is 131072 (2^17, in the year 2258) or later: the
    1 microsecond rounding guard of time_from_serialnumber no longer covers the float error of the serial
    number, whole minutes come out as (h, m-1, 60)."""
    return case.get('call') == 'hms-datetime' and case['args'][0] >= 131072


def value_num(v):
    """canonical implementation number -> a number (('float', Fraction) or int)"""
    return v[1] if isinstance(v, tuple) and v and v[0] == 'float' else v


def datetimes(ctx, D):
    """HOUR/MINUTE/SECOND of date-times day + s/86400 (oracle only: the PrimFloat model is stated for the
    fraction of a day): date parts below 2^17 (up to the year 2258) must decompose exactly; from 2^17 on
    the known finding C17-time-far-date-part is exhibited on one fixed input."""
    rng = ctx.rng
    days = [1, 59, 60, 61, 1000, 4748, 20000, 36525, 36526, 45000, 65535, 65536, 73050, 100000, 131071]
    days += [rng.randrange(1, 131072) for _ in range(ctx.n(40, 400))]
    for d in days:
        secs = set(range(0, 86400, 60)) if d in (36525, 131071) else set(rng.randrange(1440) * 60 for _ in range(40))
        secs |= set(rng.randrange(86400) for _ in range(ctx.n(60, 400)))
        for sec in sorted(secs):
            x = d + sec / 86400
            got = [D.hour(x), D.minute(x), D.second(x)]
            want = [sec // 3600, sec // 60 % 60, sec % 60]
            ctx.count(('dt', d, sec), kind='oracle-datetime')
            if got != want:
                ctx.violation(dict(call='hms-datetime', args=[d, sec]),
                              "HOUR/MINUTE/SECOND(day + s/86400) is not (s/3600, s/60 mod 60, s mod 60)",
                              impl=got, expected=want)
                break
    d, sec = 131072, 60
    x = d + sec / 86400
    got = [D.hour(x), D.minute(x), D.second(x)]
    if got != [0, 1, 0]:
        ctx.violation(dict(call='hms-datetime', args=[d, sec]),
                      "HOUR/MINUTE/SECOND(day + s/86400) is not (s/3600, s/60 mod 60, s mod 60)", impl=got, expected=[0, 1, 0])


def daytime(ctx, D):
    """HOUR/MINUTE/SECOND for every second of the day: oracle on the
    implementation, and the PrimFloat model (coq/Model/DayTime.v) evaluated by
    coqc on all 86400 inputs against the implementation's answers."""
    bad = []
    triples = []
    for s in range(86400):
        x = s / 86400
        h, m, sec = D.hour(x), D.minute(x), D.second(x)
        triples.append((h, m, sec))
        ctx.count(('sec', s), kind='oracle-daytime')
        if (h, m, sec) != (s // 3600, s // 60 % 60, s % 60):
            bad.append(s)
            ctx.violation(dict(call='hms', args=[s]), "HOUR/MINUTE/SECOND(s/86400) is not (s/3600, s/60 mod 60, s mod 60)",
                          impl=[h, m, sec], expected=[s // 3600, s // 60 % 60, s % 60])
    # correspondence with the PrimFloat model: pack the implementation's answers as h*3600+m*60+s
    work = os.path.join(ctx.work, 'daytime')
    os.makedirs(work, exist_ok=True)
    path = os.path.join(work, 'DayTimeCases.v')
    vals = [h * 3600 + m * 60 + sec for h, m, sec in triples]
    with open(path, 'w') as f:
        f.write("From Coq Require Import ZArith List.\nFrom PV Require Import Model.DayTime.\n"
                "Import ListNotations.\nOpen Scope Z_scope.\n")
        parts = []
        for k in range(0, len(vals), 1000):
            f.write(f"Definition part{k} : list Z := [{'; '.join(map(str, vals[k:k + 1000]))}].\n")
            parts.append(f"part{k}")
        f.write(f"Definition impl_answers : list Z := {' ++ '.join(parts)}.\n"
                "Definition mismatches : list Z := daytime_mismatches impl_answers.\n"
                "Eval vm_compute in mismatches.\n")
    rc, out = sh(f"ulimit -s unlimited 2>/dev/null; timeout 300 coqc -Q {COQ} PV {path}", cwd=work, timeout=330)
    if rc != 0:
        ctx.broke("coq: PrimFloat day-time model could not be evaluated", out)
    elif '= []' not in out.replace('\n', ' '):
        ctx.divergence(dict(call='hms', args=['all seconds']), 'implementation answers', out[-400:],
                       'Model/DayTime.v time_from_serialnumber = date_time.time_from_serialnumber')
    ctx.extra['daytime_seconds_compared'] = 86400
