"""C09 — a failed evaluation does not corrupt the model: fault injection
(unknown function / plugin function that raises on its k-th call) at every
formula cell of generated workbooks, followed by retry / unrelated reads /
repair histories, in plain and iterative mode."""
import os
import shutil
import sys

from harness import wbgen
from harness.common import canon, ensure_impl_on_path, known_predicate

GEN_MODULES = ['excelutil', 'aggregates', 'stats']

ASSUMPTIONS = [
    "failures are injected through the documented mechanisms only: an unknown function name, or a plugin "
    "module (plugins=) whose function raises on its k-th call; nothing inside pycel is patched",
]

PLUGIN = '''"""fault-injection plugin for the C09 check"""
CALLS = {"n": 0, "fail_from": 1, "fail_until": 10 ** 9}


def boom(*args):
    CALLS["n"] += 1
    if CALLS["fail_from"] <= CALLS["n"] <= CALLS["fail_until"]:
        raise RuntimeError("injected failure #%d" % CALLS["n"])
    return 7
'''


@known_predicate('C09-assert-on-pending-operator-error')
def _assert_pending(case):
    return case.get('variant') == 'pending-operator-error'


@known_predicate('C09-iterative-wip-stuck')
def _wip_stuck(case):
    # iterative mode: after a failure the cells on the evaluation stack stay "work in progress",
    # so the retry answers the previous value and the repair does not take
    return case.get('mode') == 'iterative' and \
        case.get('phase') in ('retry1', 'retry2', 'repair', 'repair-then-upstream-write')


@known_predicate('C09-repair-undone-by-upstream-write')
def _repair_undone(case):
    return case.get('phase') == 'repair-then-upstream-write'


def descendants(wb, a):
    return wb.descendants(a)


def run(ctx):
    ensure_impl_on_path()
    from pycel import ExcelCompiler
    from pycel.excelformula import FormulaEvalError, UnknownFunction
    from pycel.excelutil import PyCelException
    rng = ctx.rng
    os.makedirs(ctx.work, exist_ok=True)
    with open(os.path.join(ctx.work, 'verif_c09_plugin.py'), 'w') as f:
        f.write(PLUGIN)
    sys.path.insert(0, ctx.work)
    import importlib
    plugin = importlib.import_module('verif_c09_plugin')
    ctx.extra['rule'] = (
        "single-sheet DAG workbooks of 5-9 cells (C01 generator); every formula cell in turn is replaced by a call "
        "of an unknown function or of a plugin function that raises (from its first or its second call on), keeping "
        "its precedents; then: evaluate every dependant twice (must raise a pycel error both times), evaluate every "
        "unrelated cell (must equal a fresh compile), overwrite the failing cell with a constant and evaluate the "
        "dependants (must equal a fresh compile with that constant), then write an upstream input; plain and "
        "iterative mode; distinct = distinct (workbook, failing cell, fault kind, mode)")
    nwb = ctx.n(150, 1500)

    def fresh(wb, inputs, idx, const_cell=None, const=None):
        w2 = wb
        owb = w2.to_openpyxl(inputs)
        if const_cell is not None:
            owb[wbgen.SHEET].cell(row=wb.nodes[const_cell]['row'], column=1, value=const)
        c = ExcelCompiler(excel=owb)
        return canon(c.evaluate(wb.nodes[idx]['addr']))

    for k in range(nwb):
        wb = wbgen.gen_workbook(rng, ncells=rng.randrange(5, 10), pool=wbgen.CLEAN_POOL + [0, 1])
        formulas = wb.formulas()
        for fcell in formulas:
            mode = 'iterative' if rng.random() < 0.25 else 'plain'
            # "raises from its second call on" needs a known call count: plain mode only
            kind = rng.choice(['unknown', 'plugin-first'] + (['plugin-second'] if mode == 'plain' else []))
            refs = ",".join(f'A{wb.nodes[d]["row"]}' if wb.nodes[d]['kind'] != 'range'
                            else wb.nodes[d]['addr'].split('!')[1] for d in wb.nodes[fcell]['deps']) or '1'
            orig_text = wb.nodes[fcell]['text']
            wb.nodes[fcell]['text'] = f'=NOSUCHFUNC({refs})' if kind == 'unknown' else f'=BOOM({refs})'
            desc = [(x['addr'], x.get('value'), x.get('text')) for x in wb.nodes]
            plugin.CALLS.update(n=0, fail_from=1 if kind != 'plugin-second' else 2, fail_until=10 ** 9)
            owb = wb.to_openpyxl()
            if mode == 'iterative':
                from openpyxl.workbook.properties import CalcProperties
                owb.calculation = CalcProperties(iterate=True, iterateCount=20, iterateDelta=0.001)
            comp = ExcelCompiler(excel=owb, plugins=('verif_c09_plugin',))
            faddr = wb.nodes[fcell]['addr']
            deps_of_f = sorted(d for d in descendants(wb, fcell) if wb.nodes[d]['kind'] != 'range')
            unrelated = [i for i in wb.cells() if i != fcell and i not in descendants(wb, fcell)]
            case = dict(call='fault', workbook=desc, args=[faddr, kind], mode=mode)
            ctx.count((k, fcell, kind, mode), kind=f'{mode}:{kind}', sample=case)
            inputs = {i: wb.nodes[i]['value'] for i in wb.inputs()}
            # ---- 1. the failing cell and its dependants raise a pycel error, twice
            if kind == 'plugin-second':
                try:
                    comp.evaluate(faddr)      # first call succeeds (returns 7)
                except Exception:      # noqa: BLE001
                    # the function was already called once while the graph was built (a range
                    # that contains the cell is evaluated eagerly): not the scenario wanted here
                    wb.nodes[fcell]['text'] = orig_text
                    continue
                # force a recomputation: reset through the public API is not available for a
                # formula cell without precedents, so only cells with precedents are retried
                pre = [d for d in wb.nodes[fcell]['deps'] if wb.nodes[d]['kind'] == 'input']
                if not pre:
                    wb.nodes[fcell]['text'] = orig_text
                    continue
                if wb.nodes[pre[0]]['addr'] not in comp.cell_map:
                    comp.evaluate(wb.nodes[pre[0]]['addr'])
                newv = 41 if inputs[pre[0]] != 41 else 42
                comp.set_value(wb.nodes[pre[0]]['addr'], newv)
                inputs[pre[0]] = newv
            if mode == 'iterative':
                # first use of a cell in iterative mode on a no-data workbook answers None without
                # running the formula (C06's known finding C06-first-evaluate-none): warm every target up
                for target in [fcell] + deps_of_f:
                    try:
                        comp.evaluate(wb.nodes[target]['addr'])
                    except Exception:      # noqa: BLE001
                        pass
            for target in [fcell] + deps_of_f:
                for attempt in (1, 2):
                    try:
                        r = comp.evaluate(wb.nodes[target]['addr'])
                        ctx.violation(dict(case, phase=f'retry{attempt}', target=wb.nodes[target]['addr']),
                                      "a cell that depends on the failing cell returns a value instead of failing",
                                      impl=canon(r))
                    except PyCelException:
                        pass
                    except RecursionError:
                        pass
                    except Exception as exc:      # noqa: BLE001
                        ctx.violation(dict(case, phase=f'retry{attempt}', target=wb.nodes[target]['addr']),
                                      f"bare internal exception {type(exc).__name__}: {exc}"[:200])
            # ---- 2. unrelated cells still evaluate correctly (plain mode; what iterative mode
            #         returns on first use is C06's subject)
            for u in (unrelated if mode == 'plain' else []):
                try:
                    r = canon(comp.evaluate(wb.nodes[u]['addr']))
                except Exception as exc:      # noqa: BLE001
                    ctx.violation(dict(case, phase='unrelated', target=wb.nodes[u]['addr']),
                                  f"a cell that does not depend on the failing cell raises {type(exc).__name__}")
                    continue
                want = fresh(wb, inputs, u)
                if r != want:
                    ctx.violation(dict(case, phase='unrelated', target=wb.nodes[u]['addr']),
                                  "a cell that does not depend on the failing cell has a wrong value",
                                  impl=r, expected=want)
            # ---- 3. repair: overwrite the failing cell with a constant
            const = 5
            try:
                comp.set_value(faddr, const)
            except Exception as exc:      # noqa: BLE001
                ctx.violation(dict(case, phase='repair'), f"set_value on the failing cell raises {type(exc).__name__}")
                wb.nodes[fcell]['text'] = orig_text
                continue
            for target in [fcell] + deps_of_f:
                try:
                    r = canon(comp.evaluate(wb.nodes[target]['addr']))
                except Exception as exc:      # noqa: BLE001
                    ctx.violation(dict(case, phase='repair', target=wb.nodes[target]['addr']),
                                  f"after the repair a dependant still raises {type(exc).__name__}")
                    continue
                want = fresh(wb, inputs, target, const_cell=fcell, const=const)
                if r != want:
                    ctx.violation(dict(case, phase='repair', target=wb.nodes[target]['addr']),
                                  "after the repair a dependant differs from a fresh model with the constant",
                                  impl=r, expected=want)
            # ---- 4. … and stays repaired when an upstream input is written
            pre = [a for a in wb.inputs() if fcell in descendants(wb, a) and wb.nodes[a]['addr'] in comp.cell_map]
            if pre and deps_of_f:
                a = pre[0]
                newv = 17 if inputs[a] != 17 else 18
                comp.set_value(wb.nodes[a]['addr'], newv)
                inputs[a] = newv
                target = deps_of_f[0]
                try:
                    r = canon(comp.evaluate(wb.nodes[target]['addr']))
                    want = fresh(wb, inputs, target, const_cell=fcell, const=const)
                    if r != want:
                        ctx.violation(dict(case, phase='repair-then-upstream-write', target=wb.nodes[target]['addr']),
                                      "after an upstream write the repaired cell's dependant differs from a fresh model",
                                      impl=r, expected=want)
                except Exception as exc:      # noqa: BLE001
                    ctx.violation(dict(case, phase='repair-then-upstream-write', target=wb.nodes[target]['addr']),
                                  f"after an upstream write the failure returns ({type(exc).__name__})")
            wb.nodes[fcell]['text'] = orig_text
    # ---- the pending-operator-error variant: ("a"+1)&B1 with a failing B1
    import openpyxl
    for variant_text in ['=("a"+1)&B1', '=(1/0)&B1', '=IF(("a"+1)=1,1,B1)']:
        owb = openpyxl.Workbook()
        ws = owb.active
        ws.title = wbgen.SHEET
        ws['A1'] = 1
        ws['B1'] = '=NOSUCHFUNC(A1)'
        ws['C1'] = variant_text
        comp = ExcelCompiler(excel=owb)
        case = dict(call='fault', variant='pending-operator-error', args=[variant_text])
        ctx.count(('pending', variant_text), kind='pending-operator-error')
        try:
            comp.evaluate(f'{wbgen.SHEET}!C1')
            ctx.violation(case, "returns a value although a precedent fails")
        except PyCelException:
            pass
        except Exception as exc:      # noqa: BLE001
            ctx.violation(case, f"bare internal exception {type(exc).__name__}")
    sys.path.remove(ctx.work)
    shutil.rmtree(ctx.work, ignore_errors=True)
