"""C09 — a failed evaluation does not corrupt the model: fault injection
(unknown function / plugin function that raises on its k-th call) at every
formula cell of generated workbooks, followed by retry / unrelated reads /
repair histories, in plain and iterative mode (the property's oracle), and the
correspondence of the failing-formula machine of coq/Model/Fail.v with
ExcelCompiler: same workbooks, same faults, same histories, compared per
operation on raised-or-returned, the pycel error class, the value and the
snapshot of every cell of the cell map (plain mode; iterative mode is
oracle-only here, its model is C06's)."""
import os
import shutil
import sys

from harness import wbgen
from harness.common import canon, dec_val, enc_val, ensure_impl_on_path, known_predicate, same

GEN_MODULES = ['excelutil', 'aggregates', 'stats']

ASSUMPTIONS = [
    "failures are injected through the documented mechanisms only: an unknown function name (NOSUCHFUNC, a made-up "
    "dotted name, or an Excel function of lib/function_info_data.py that none of ExcelFormula.default_modules "
    "implements — the pool is computed from the tree under test on every run), or a plugin "
    "module (plugins=) whose function raises on its k-th call; nothing inside pycel is patched",
    "the theorems (coq/Props/C09.v) are about workbooks WITHOUT stored results (in-memory workbooks, as in "
    "every run here), any formula semantics that may fail, any order of evaluation of the new range nodes; "
    "the formula language of the differential run is coq/Model/GraphExpr.v plus two faults: an unknown "
    "function (NameError after the first k precedents) and a plugin function returning 7 or raising",
    "iterative mode, CSE arrays and cycles are not in the model: oracle-only",
    "ExcelCompiler.recalculate() is not in the model (coq/Model/Fail.v has evaluate / set_value / build only): the "
    "recalculate stream is oracle-only",
]

PLUGIN = '''"""fault-injection plugin for the C09 check"""
CALLS = {"n": 0, "fail_from": 1, "fail_until": 10 ** 9}


def boom(*args):
    CALLS["n"] += 1
    if CALLS["fail_from"] <= CALLS["n"] <= CALLS["fail_until"]:
        raise RuntimeError("injected failure #%d" % CALLS["n"])
    return 7


# ---- correspondence leg: one fault per cell, identified by the first argument
FAILING = set()
IDCALLS = {}
FAIL_FROM = {}


def boomid(ident, *args):
    IDCALLS[ident] = IDCALLS.get(ident, 0) + 1
    if ident in FAILING or IDCALLS[ident] >= FAIL_FROM.get(ident, 10 ** 9):
        raise RuntimeError("injected failure of cell %s, call #%d" % (ident, IDCALLS[ident]))
    return 7
'''


@known_predicate('C09-assert-on-pending-operator-error')
def _assert_pending(case):
    return case.get('variant') == 'pending-operator-error'


@known_predicate('C09-iterative-wip-stuck')
def _wip_stuck(case):
    # iterative mode: after a failure the cells on the evaluation stack stay "work in progress",
    # so the retry answers the previous value and the repair does not take
    return case.get('mode') == 'iterative' and \
        case.get('phase') in ('retry1', 'retry2', 'repair', 'repair-then-upstream-write')


@known_predicate('C09-repair-undone-by-upstream-write')
def _repair_undone(case):
    return case.get('phase') == 'repair-then-upstream-write'


@known_predicate('C09-stored-partial-retry-returns-stored')
def _stored_partial_retry(case):
    # INERT (no case of this check has this variant; not in known_findings.json): an .xlsx with PARTIALLY
    # stored results — the failing cell A2 '=BOOM(A1)' has no cached value, its dependant A3 '=SUM(A1:A2)'
    # has one: the first evaluate(A3) raises while the graph is built, the retry returns the stored value,
    # and set_value(A1, …) no longer resets A3 (the range node A1:A2 stays None). Model witness:
    # coq/Refuted/C09_stored_results.v. Same trigger as the C01 finding C01-stored-partial.
    return case.get('variant') == 'stored-partial-failing-build'


@known_predicate('C09-python-builtin-name')
def _builtin_name(case):
    # =STR(A1) (not an Excel function) evaluates Python's str(): the generated code itself uses str(), so the
    # builtin stays visible to the compiled lambda.  Every other builtin name (TYPE, COMPLEX, FILTER, REPR ...)
    # was repaired in /repo 4cc3eeb and is reported again if it returns.
    args = case.get('args') or []
    return case.get('call') == 'fault' and len(args) >= 3 and args[1] in ('unimplemented', 'unknown-name') \
        and is_builtin_name(args[2]) and case.get('phase') in ('retry1', 'retry2', 'retry-same')


def is_builtin_name(name):
    """Since repair 4cc3eeb the compiled lambda sees one Python builtin only: str (the generated code uses it)."""
    name = name.lower()
    if name.startswith('_xlfn.'):
        name = name[6:]
    return name.replace('.', '_') == 'str'


def descendants(wb, a):
    return wb.descendants(a)


_INTERNAL_NAMES = {'_C_', '_R_', '_REF_', 'pi', 'excel_operator_operand_fixup', 'lambdas'}
NON_EXCEL = ['NOSUCHFUNC', 'NOSUCH.FUNC', 'MY.OWN.FUNC', 'X.Y', 'STR', 'REPR']     # not Excel's at all


def unimplemented_pool():
    """Names Excel knows (pycel/lib/function_info_data.py) that pycel does not implement: the names a call of
    the function needs (ExcelFormula.compiled_python) are in none of the default modules.  Computed from the
    tree under test on every run; returns (dotted, undotted)."""
    import importlib
    from pycel.excelformula import ExcelFormula
    from pycel.lib.function_info_data import function_info
    mods = [importlib.import_module(m) for m in ExcelFormula.default_modules]
    dotted, plain = [], []
    for name in sorted({f.name for f in function_info}):
        try:
            needed = [n for n in ExcelFormula(f'={name}(1)').compiled_python[1] if n not in _INTERNAL_NAMES]
        except Exception:      # noqa: BLE001 — INDIRECT/OFFSET need a cell, YIELD is a Python keyword
            continue
        if needed and all(all(getattr(m, n, None) is None for m in mods) for n in needed):
            (dotted if '.' in name else plain).append(name)
    return dotted, plain


def failing_call(rng, dotted, plain):
    """(kind, function name as written in the formula) for an unknown-function fault."""
    r = rng.random()
    if r < 0.30:
        return 'unknown', 'NOSUCHFUNC'
    if r < 0.40:
        return 'unknown-name', rng.choice(NON_EXCEL)
    name = rng.choice(dotted) if r < 0.75 else rng.choice(plain)
    if rng.random() < 0.25:
        name = '_xlfn.' + name       # the spelling recent Excels store for functions newer than the file format
    return 'unimplemented', name


def run(ctx):
    ensure_impl_on_path()
    from pycel import ExcelCompiler
    from pycel.excelformula import FormulaEvalError, UnknownFunction
    from pycel.excelutil import PyCelException
    rng = ctx.rng
    os.makedirs(ctx.work, exist_ok=True)
    with open(os.path.join(ctx.work, 'verif_c09_plugin.py'), 'w') as f:
        f.write(PLUGIN)
    sys.path.insert(0, ctx.work)
    import importlib
    plugin = importlib.import_module('verif_c09_plugin')
    ctx.extra['rule'] = (
        "single-sheet DAG workbooks of 5-9 cells (C01 generator); every formula cell in turn is replaced by a call "
        "of an unknown function (NOSUCHFUNC, a made-up dotted name, or an Excel function pycel does not implement, "
        "dotted or not, possibly spelled _xlfn.NAME) or of a plugin function that raises (from its first or its "
        "second call on), keeping its precedents; then, starting from a randomly chosen cell (the failing cell or one "
        "of its dependants): evaluate the cell and every dependant twice (must raise a pycel error both times, a "
        "retry on a built target with the same class and message, the failing cell always as on a fresh model), evaluate every "
        "unrelated cell (must equal a fresh compile), overwrite the failing cell with a constant and evaluate the "
        "dependants (must equal a fresh compile with that constant), then (plain mode) write one or two OTHER "
        "precedents of the dependants (inputs not above the failing cell) and write the formerly failing cell a second "
        "time, in any order, every dependant compared with a fresh compile after each write, then write an upstream input; plain and "
        "iterative mode; distinct = distinct (workbook, failing cell, fault kind, mode)")
    nwb = ctx.n(150, 1500)
    dotted, plain = unimplemented_pool()
    ctx.extra['unimplemented_pool'] = dict(dotted=len(dotted), undotted=len(plain))
    if len(dotted) < 20 or len(plain) < 50:
        ctx.broke('harness: the pool of unimplemented Excel functions is unexpectedly small',
                  f'dotted={dotted} undotted={len(plain)}')

    def fresh(wb, inputs, idx, const_cell=None, const=None):
        w2 = wb
        owb = w2.to_openpyxl(inputs)
        if const_cell is not None:
            owb[wbgen.SHEET].cell(row=wb.nodes[const_cell]['row'], column=1, value=const)
        c = ExcelCompiler(excel=owb)
        return canon(c.evaluate(wb.nodes[idx]['addr']))

    for k in range(nwb):
        wb = wbgen.gen_workbook(rng, ncells=rng.randrange(5, 10), pool=wbgen.CLEAN_POOL + [0, 1])
        formulas = wb.formulas()
        for fcell in formulas:
            mode = 'iterative' if rng.random() < 0.25 else 'plain'
            # "raises from its second call on" needs a known call count: plain mode only
            kind = rng.choice(['unknown', 'unknown', 'plugin-first'] + (['plugin-second'] if mode == 'plain' else []))
            fname = None
            if kind == 'unknown':
                # a made-up name, or an Excel function pycel lacks (dotted names compile to norm_dist, …)
                kind, fname = failing_call(rng, dotted, plain)
            refs = ",".join(f'A{wb.nodes[d]["row"]}' if wb.nodes[d]['kind'] != 'range'
                            else wb.nodes[d]['addr'].split('!')[1] for d in wb.nodes[fcell]['deps']) or '1'
            orig_text = wb.nodes[fcell]['text']
            wb.nodes[fcell]['text'] = f'={fname}({refs})' if fname else f'=BOOM({refs})'
            desc = [(x['addr'], x.get('value'), x.get('text')) for x in wb.nodes]
            plugin.CALLS.update(n=0, fail_from=1 if kind != 'plugin-second' else 2, fail_until=10 ** 9)
            owb = wb.to_openpyxl()
            if mode == 'iterative':
                from openpyxl.workbook.properties import CalcProperties
                owb.calculation = CalcProperties(iterate=True, iterateCount=20, iterateDelta=0.001)
            comp = ExcelCompiler(excel=owb, plugins=('verif_c09_plugin',))
            faddr = wb.nodes[fcell]['addr']
            deps_of_f = sorted(d for d in descendants(wb, fcell) if wb.nodes[d]['kind'] != 'range')
            unrelated = [i for i in wb.cells() if i != fcell and i not in descendants(wb, fcell)]
            case = dict(call='fault', workbook=desc, args=[faddr, kind] + ([fname] if fname else []), mode=mode)
            # which cell is asked for first: the failing cell itself, a dependant, a dependant that reaches it
            # through a range evaluated while the graph is built
            targets = [fcell] + deps_of_f
            if kind != 'plugin-second':
                rng.shuffle(targets)
            case['first'] = wb.nodes[targets[0]]['addr']
            ctx.count((k, fcell, kind, mode), kind=f'{mode}:{kind}', sample=case)
            inputs = {i: wb.nodes[i]['value'] for i in wb.inputs()}
            # ---- 1. the failing cell and its dependants raise a pycel error, twice
            if kind == 'plugin-second':
                try:
                    comp.evaluate(faddr)      # first call succeeds (returns 7)
                except Exception:      # noqa: BLE001
                    # the function was already called once while the graph was built (a range
                    # that contains the cell is evaluated eagerly): not the scenario wanted here
                    wb.nodes[fcell]['text'] = orig_text
                    continue
                # force a recomputation: reset through the public API is not available for a
                # formula cell without precedents, so only cells with precedents are retried
                pre = [d for d in wb.nodes[fcell]['deps'] if wb.nodes[d]['kind'] == 'input']
                if not pre:
                    wb.nodes[fcell]['text'] = orig_text
                    continue
                if wb.nodes[pre[0]]['addr'] not in comp.cell_map:
                    comp.evaluate(wb.nodes[pre[0]]['addr'])
                newv = 41 if inputs[pre[0]] != 41 else 42
                comp.set_value(wb.nodes[pre[0]]['addr'], newv)
                inputs[pre[0]] = newv
            if mode == 'iterative':
                # first use of a cell in iterative mode on a no-data workbook answers None without
                # running the formula (C06's known finding C06-first-evaluate-none): warm every target up
                for target in targets:
                    try:
                        comp.evaluate(wb.nodes[target]['addr'])
                    except Exception:      # noqa: BLE001
                        pass
            for target in targets:
                seen = []
                built_before = wb.nodes[target]['addr'] in comp.cell_map
                for attempt in (1, 2):
                    try:
                        r = comp.evaluate(wb.nodes[target]['addr'])
                        ctx.violation(dict(case, phase=f'retry{attempt}', target=wb.nodes[target]['addr']),
                                      "a cell that depends on the failing cell returns a value instead of failing",
                                      impl=canon(r))
                    except PyCelException as exc:
                        seen.append((type(exc).__name__, str(exc)))
                    except RecursionError:
                        pass
                    except Exception as exc:      # noqa: BLE001
                        ctx.violation(dict(case, phase=f'retry{attempt}', target=wb.nodes[target]['addr']),
                                      f"bare internal exception {type(exc).__name__}: {exc}"[:200])
                ref = None
                if target == fcell and mode == 'plain' and fname:
                    ref = direct_failure(lambda: ExcelCompiler(excel=wb.to_openpyxl(), plugins=('verif_c09_plugin',)),
                                         faddr)
                retry_same(ctx, dict(case, target=wb.nodes[target]['addr']), kind, mode, seen, built_before, ref)
            # ---- 2. unrelated cells still evaluate correctly (plain mode; what iterative mode
            #         returns on first use is C06's subject)
            for u in (unrelated if mode == 'plain' else []):
                try:
                    r = canon(comp.evaluate(wb.nodes[u]['addr']))
                except Exception as exc:      # noqa: BLE001
                    ctx.violation(dict(case, phase='unrelated', target=wb.nodes[u]['addr']),
                                  f"a cell that does not depend on the failing cell raises {type(exc).__name__}")
                    continue
                want = fresh(wb, inputs, u)
                if r != want:
                    ctx.violation(dict(case, phase='unrelated', target=wb.nodes[u]['addr']),
                                  "a cell that does not depend on the failing cell has a wrong value",
                                  impl=r, expected=want)
            # ---- 3. repair: overwrite the failing cell with a constant
            const = 5
            try:
                comp.set_value(faddr, const)
            except Exception as exc:      # noqa: BLE001
                ctx.violation(dict(case, phase='repair'), f"set_value on the failing cell raises {type(exc).__name__}")
                wb.nodes[fcell]['text'] = orig_text
                continue
            for target in [fcell] + deps_of_f:
                try:
                    r = canon(comp.evaluate(wb.nodes[target]['addr']))
                except Exception as exc:      # noqa: BLE001
                    ctx.violation(dict(case, phase='repair', target=wb.nodes[target]['addr']),
                                  f"after the repair a dependant still raises {type(exc).__name__}")
                    continue
                want = fresh(wb, inputs, target, const_cell=fcell, const=const)
                if r != want:
                    ctx.violation(dict(case, phase='repair', target=wb.nodes[target]['addr']),
                                  "after the repair a dependant differs from a fresh model with the constant",
                                  impl=r, expected=want)
            # ---- 3b/3c. the repaired model keeps following its inputs: a write to ANOTHER precedent of the
            #         dependants (an input that is not above the failing cell), then a second write to the
            #         formerly failing cell - each followed by every dependant against a fresh model.  (Plain
            #         mode: in iterative mode the repair itself does not take, C09-iterative-wip-stuck.)
            if mode == 'plain':
                others = [a for a in wb.inputs() if fcell not in descendants(wb, a)
                          and wb.nodes[a]['addr'] in comp.cell_map
                          and any(d in descendants(wb, a) for d in deps_of_f)]
                rng.shuffle(others)
                later = [('repair-then-other-precedent-write', a, None) for a in others[:2]]
                later.insert(rng.randrange(len(later) + 1), ('repair-second-write', fcell, None))
                if others and rng.random() < 0.5:
                    later.append(('repair-then-other-precedent-write', others[0], None))
                for phase, a, _ in later:
                    if a == fcell:
                        const = newv = rng.choice([x for x in (9, 0, 'fixed', 12) if x != const])
                    else:
                        newv = rng.choice([x for x in wbgen.CLEAN_POOL
                                           if x != inputs[a] or type(x) is not type(inputs[a])])
                    wcase = dict(case, phase=phase, write=[wb.nodes[a]['addr'], newv])
                    try:
                        comp.set_value(wb.nodes[a]['addr'], newv)
                    except Exception as exc:      # noqa: BLE001
                        ctx.violation(wcase, f"set_value after the repair raises {type(exc).__name__}")
                        break
                    if a != fcell:
                        inputs[a] = newv
                    for target in [fcell] + deps_of_f:
                        try:
                            r = canon(comp.evaluate(wb.nodes[target]['addr']))
                        except Exception as exc:      # noqa: BLE001
                            ctx.violation(dict(wcase, target=wb.nodes[target]['addr']),
                                          f"after the repair and a further write a dependant raises {type(exc).__name__}")
                            continue
                        want = fresh(wb, inputs, target, const_cell=fcell, const=const)
                        if r != want:
                            ctx.violation(dict(wcase, target=wb.nodes[target]['addr']),
                                          "after the repair and a further write a dependant differs from a fresh "
                                          "model with the same constants", impl=r, expected=want)
            # ---- 4. … and stays repaired when an upstream input is written
            pre = [a for a in wb.inputs() if fcell in descendants(wb, a) and wb.nodes[a]['addr'] in comp.cell_map]
            if pre and deps_of_f:
                a = pre[0]
                newv = 17 if inputs[a] != 17 else 18
                comp.set_value(wb.nodes[a]['addr'], newv)
                inputs[a] = newv
                target = deps_of_f[0]
                try:
                    r = canon(comp.evaluate(wb.nodes[target]['addr']))
                    want = fresh(wb, inputs, target, const_cell=fcell, const=const)
                    if r != want:
                        ctx.violation(dict(case, phase='repair-then-upstream-write', target=wb.nodes[target]['addr']),
                                      "after an upstream write the repaired cell's dependant differs from a fresh model",
                                      impl=r, expected=want)
                except Exception as exc:      # noqa: BLE001
                    ctx.violation(dict(case, phase='repair-then-upstream-write', target=wb.nodes[target]['addr']),
                                  f"after an upstream write the failure returns ({type(exc).__name__})")
            wb.nodes[fcell]['text'] = orig_text
    # ---- the pending-operator-error variant: ("a"+1)&B1 with a failing B1
    import openpyxl
    for variant_text in ['=("a"+1)&B1', '=(1/0)&B1', '=IF(("a"+1)=1,1,B1)']:
        owb = openpyxl.Workbook()
        ws = owb.active
        ws.title = wbgen.SHEET
        ws['A1'] = 1
        ws['B1'] = '=NOSUCHFUNC(A1)'
        ws['C1'] = variant_text
        comp = ExcelCompiler(excel=owb)
        case = dict(call='fault', variant='pending-operator-error', args=[variant_text])
        ctx.count(('pending', variant_text), kind='pending-operator-error')
        try:
            comp.evaluate(f'{wbgen.SHEET}!C1')
            ctx.violation(case, "returns a value although a precedent fails")
        except PyCelException:
            pass
        except Exception as exc:      # noqa: BLE001
            ctx.violation(case, f"bare internal exception {type(exc).__name__}")
    name_sweep(ctx, ExcelCompiler, dotted, plain)
    recalculate_stream(ctx, ExcelCompiler, plugin)
    correspondence(ctx, ExcelCompiler, plugin, dotted, plain)
    sys.path.remove(ctx.work)
    shutil.rmtree(ctx.work, ignore_errors=True)


def direct_failure(build, addr):
    """What a fresh compiler raises when the failing cell is the first cell asked for."""
    from pycel.excelutil import PyCelException
    try:
        return ('value', canon(build().evaluate(addr)))
    except PyCelException as exc:
        return (type(exc).__name__, str(exc))
    except RecursionError:
        return None
    except Exception as exc:      # noqa: BLE001
        return ('bare', f'{type(exc).__name__}: {exc}')


def retry_same(ctx, case, kind, mode, seen, built_before, reference=None):
    """'A retry behaves the same', for an unknown / unimplemented function (nothing about the failure depends on
    the attempt), plain mode.  seen = [(error class, message)] of the attempts on one target.
    * a target whose graph was already built: the second evaluate raises the same pycel error class with the same
      message as the first (when the first attempt also has to build the graph the failure may legitimately come
      out of the construction — a new range node is evaluated eagerly — and is wrapped differently);
    * the failing cell itself (reference given): whenever it is asked for — first, or after its dependants — the
      error is the one a fresh compiler raises when the cell is asked for first (the name lookup fails before
      anything is read, so nothing else can differ)."""
    if mode != 'plain' or kind not in ('unknown', 'unknown-name', 'unimplemented'):
        return
    if reference is not None:
        if reference[0] == 'bare':
            ctx.violation(dict(case, phase='retry-same', first=case['target']),
                          f"a fresh model asked for the failing cell first raises the bare internal exception "
                          f"{reference[1]}"[:200])
        elif reference[0] != 'value':
            for n, got in enumerate(seen):
                if got != reference:
                    what = "error class" if got[0] != reference[0] else "error message"
                    ctx.violation(dict(case, phase='retry-same', attempt=n + 1),
                                  f"the failing cell raises another {what} than on a fresh model asked for it first",
                                  impl=[got[0], got[1][-300:]], expected=[reference[0], reference[1][-300:]])
                    break
    if built_before and len(seen) == 2 and seen[0] != seen[1]:
        what = "error class" if seen[0][0] != seen[1][0] else "error message"
        ctx.violation(dict(case, phase='retry-same'),
                      f"the retry raises another {what} than the first attempt",
                      impl=[seen[1][0], seen[1][1][-300:]], expected=[seen[0][0], seen[0][1][-300:]])


def name_sweep(ctx, ExcelCompiler, dotted, plain):
    """Every dotted Excel function pycel lacks (NORM.DIST, MODE.SNGL, F.DIST, …), a sample of the undotted ones and
    the made-up names, each as the failing cell B1 of one fixed small workbook, asked for first directly, through
    a plain dependant (C1 = B1+1), or through a range that is evaluated while the graph is built (D1 =
    SUM(B1:B3)); then every other reach twice, the unrelated cell, the repair."""
    from pycel.excelutil import PyCelException
    import openpyxl
    rng = ctx.rng
    names = [(n, 'unimplemented') for n in dotted] \
        + [(n, 'unimplemented') for n in rng.sample(plain, min(len(plain), ctx.n(40, 400)))] \
        + [(n, 'unknown-name') for n in NON_EXCEL]
    names += [('_xlfn.' + n, 'unimplemented') for n in rng.sample(dotted, min(len(dotted), ctx.n(15, 70)))]
    ctx.extra['rule'] += (
        "; name sweep: every Excel function name with a dot that pycel does not implement (computed from "
        "function_info_data and the default modules), a sample of the undotted ones, _xlfn.-prefixed spellings and "
        "made-up names, as the failing cell of a 9-cell workbook x the cell asked for first (the failing cell, a "
        "plain dependant, a dependant through a range built eagerly)")
    cells = {'A1': 1, 'A2': 2, 'A3': 2, 'B2': 2, 'B3': 3, 'C1': '=B1+1', 'D1': '=SUM(B1:B3)', 'E1': '=SUM(A1:A3)*2'}

    def build(b1):
        owb = openpyxl.Workbook()
        ws = owb.active
        ws.title = wbgen.SHEET
        for a, v in dict(cells, B1=b1).items():
            ws[a] = v
        return ExcelCompiler(excel=owb)
    def build_with(values):
        owb = openpyxl.Workbook()
        ws = owb.active
        ws.title = wbgen.SHEET
        for a, v in dict(cells, **values).items():
            ws[a] = v
        return ExcelCompiler(excel=owb)
    later_want = {}
    want_after = {a: canon(build(7).evaluate(f'{wbgen.SHEET}!{a}')) for a in ('B1', 'C1', 'D1', 'E1')}
    for name, kind in names:
        args = rng.choice(['A1', 'A1,0,1,TRUE', 'A1:A3', 'A1:A3,2', ''])
        text = f'={name}({args})'
        for first in ('B1', 'C1', 'D1'):
            comp = build(text)
            case = dict(call='fault', variant='name-sweep', args=[f'{wbgen.SHEET}!B1', kind, name], formula=text,
                        first=f'{wbgen.SHEET}!{first}', mode='plain')
            ctx.count(('sweep', name, args, first), kind=f'sweep:{kind}:{"dotted" if "." in name.replace("_xlfn.", "") else "undotted"}', sample=case)
            order = [first] + [a for a in ('B1', 'C1', 'D1') if a != first]
            for target in order:
                seen = []
                built_before = f'{wbgen.SHEET}!{target}' in comp.cell_map
                for attempt in (1, 2):
                    tcase = dict(case, phase=f'retry{attempt}', target=f'{wbgen.SHEET}!{target}')
                    try:
                        r = comp.evaluate(f'{wbgen.SHEET}!{target}')
                        ctx.violation(tcase, "a cell that depends on the failing cell returns a value instead of "
                                             "failing", impl=canon(r))
                    except PyCelException as exc:
                        seen.append((type(exc).__name__, str(exc)))
                    except Exception as exc:      # noqa: BLE001
                        ctx.violation(tcase, f"bare internal exception {type(exc).__name__}: {exc}"[:200])
                ref = direct_failure(lambda: build(text), f'{wbgen.SHEET}!B1') if target == 'B1' else None
                retry_same(ctx, dict(case, target=f'{wbgen.SHEET}!{target}'), kind, 'plain', seen, built_before, ref)
            try:
                r = canon(comp.evaluate(f'{wbgen.SHEET}!E1'))
                if r != want_after['E1']:
                    ctx.violation(dict(case, phase='unrelated', target=f'{wbgen.SHEET}!E1'),
                                  "a cell that does not depend on the failing cell has a wrong value",
                                  impl=r, expected=want_after['E1'])
            except Exception as exc:      # noqa: BLE001
                ctx.violation(dict(case, phase='unrelated', target=f'{wbgen.SHEET}!E1'),
                              f"a cell that does not depend on the failing cell raises {type(exc).__name__}")
            try:
                comp.set_value(f'{wbgen.SHEET}!B1', 7)
            except Exception as exc:      # noqa: BLE001
                ctx.violation(dict(case, phase='repair'), f"set_value on the failing cell raises {type(exc).__name__}")
                continue
            for a, want in want_after.items():
                try:
                    r = canon(comp.evaluate(f'{wbgen.SHEET}!{a}'))
                except Exception as exc:      # noqa: BLE001
                    ctx.violation(dict(case, phase='repair', target=f'{wbgen.SHEET}!{a}'),
                                  f"after the repair a dependant still raises {type(exc).__name__}")
                    continue
                if r != want:
                    ctx.violation(dict(case, phase='repair', target=f'{wbgen.SHEET}!{a}'),
                                  "after the repair a dependant differs from a fresh model with the constant",
                                  impl=r, expected=want)
            # the repaired model keeps following its inputs: another precedent of the range reader, the formerly
            # failing cell a second time - every cell against a fresh model  (column A may be above the failing cell:
            # a write there is the subject of C09-repair-undone-by-upstream-write, not of this step)
            current = {'B1': 7}
            for phase, a, v in (('repair-then-other-precedent-write', 'B2', 20), ('repair-second-write', 'B1', 9),
                                ('repair-then-other-precedent-write', 'B3', 30)):
                wcase = dict(case, phase=phase, write=[f'{wbgen.SHEET}!{a}', v])
                current[a] = v
                try:
                    comp.set_value(f'{wbgen.SHEET}!{a}', v)
                except Exception as exc:      # noqa: BLE001
                    ctx.violation(wcase, f"set_value after the repair raises {type(exc).__name__}")
                    break
                key = tuple(sorted(current.items()))
                if key not in later_want:
                    ref_comp = build_with(current)
                    later_want[key] = {t: canon(ref_comp.evaluate(f'{wbgen.SHEET}!{t}')) for t in ('B1', 'C1', 'D1', 'E1')}
                for t, want in later_want[key].items():
                    try:
                        r = canon(comp.evaluate(f'{wbgen.SHEET}!{t}'))
                    except Exception as exc:      # noqa: BLE001
                        ctx.violation(dict(wcase, target=f'{wbgen.SHEET}!{t}'),
                                      f"after the repair and a further write a dependant raises {type(exc).__name__}")
                        continue
                    if r != want:
                        ctx.violation(dict(wcase, target=f'{wbgen.SHEET}!{t}'),
                                      "after the repair and a further write a dependant differs from a fresh model "
                                      "with the same constants", impl=r, expected=want)


# ------------------------------------------------------------------ recalculate()
def recalculate_stream(ctx, ExcelCompiler, plugin):
    """Oracle-only (Model/Fail.v has no recalculate): ExcelCompiler.recalculate() - "recalculate all of the known
    cells": every formula cell and every range node of the cell map is reset and evaluated again - in histories with
    and without a failure.  C01-generator workbooks (often extended by a reader of several ranges); 1-2 formula cells
    become calls of the plugin function BOOMID (returns 7 until armed).
      a. every node (cells and range nodes) is evaluated: the plugin works; values = fresh model (the plugin cells
         hold 7);
      b. failure-free: 0-2 inputs are written, recalculate() must return, every node = fresh model with the
         current inputs;
      c. one plugin cell is armed (raises always, or from its next call on, or from the call after - then the
         first recalculate() still succeeds), recalculate() must raise a pycel error, never a bare exception;
      d. the failing cell and every dependant - plain readers, readers through a range, the range nodes
         themselves - evaluated twice: a pycel error each time, never a value (a range keeping the tuple from
         before the failure would hand SUM(A1:A3) the stale numbers); every node that does not depend on the failing
         cell = fresh model; a second recalculate() raises again;
      e. repair - the plugin is disarmed and recalculate() called, or the failing cell is overwritten with a
         constant -: every node = fresh model."""
    from pycel.excelutil import PyCelException
    rng = ctx.rng
    ctx.extra['rule'] += (
        "; recalculate stream (oracle only): C01-generator workbooks, 1-2 formula cells calling a plugin function; all "
        "nodes evaluated, writes + recalculate() without failure (= fresh model), then a plugin cell starts to raise "
        "(at once / from its k-th call on) and recalculate() is called: it must raise a pycel error, the failing cell and "
        "all its dependants incl. readers through ranges and the range nodes must fail on every later evaluate, "
        "unrelated nodes = fresh model, repair by disarming + recalculate() or by a constant = fresh model")
    stats = ctx.extra.setdefault('recalculate', dict(histories=0, failed_recalculate=0, range_readers_checked=0))

    def fresh_all(wb, inputs, consts):
        owb = wb.to_openpyxl(inputs)
        for i, c in consts.items():
            owb[wbgen.SHEET].cell(row=wb.nodes[i]['row'], column=1, value=c)
        c = ExcelCompiler(excel=owb)
        return {i: canon(c.evaluate(n['addr'])) for i, n in enumerate(wb.nodes)}

    def check_values(case, comp, wb, want, nodes, phase):
        for i in nodes:
            tcase = dict(case, phase=phase, target=wb.nodes[i]['addr'])
            try:
                r = canon(comp.evaluate(wb.nodes[i]['addr']))
            except Exception as exc:      # noqa: BLE001
                ctx.violation(tcase, f"{phase}: evaluate raises {type(exc).__name__}: {exc}"[:200])
                continue
            if r != want[i]:
                ctx.violation(tcase, f"{phase}: a value differs from a fresh model with the current inputs",
                              impl=r, expected=want[i])

    for k in range(ctx.n(110, 1100)):
        wb = wbgen.gen_workbook(rng, ncells=rng.randrange(5, 10), pool=wbgen.CLEAN_POOL + [0, 1])
        if not wb.formulas():
            continue
        forced = extend(wb, rng)
        for f in forced:
            wb.nodes[f]['text'] = '=SUM(' + ','.join(wb.nodes[d]['addr'].split('!')[1] for d in wb.nodes[f]['deps']) + ')'
        # the plugin cells: prefer cells that are members of a range somebody reads
        in_range = [i for i in wb.formulas() if any(n['kind'] == 'range' and i in n['deps'] and
                                                    any(j in x['deps'] for x in wb.nodes) for j, n in enumerate(wb.nodes))]
        cand = [i for i in wb.formulas() if i not in forced]
        if not cand:
            continue
        chosen = [rng.choice([i for i in cand if i in in_range] or cand)]
        if len(cand) > 1 and rng.random() < 0.4:
            chosen.append(rng.choice([i for i in cand if i != chosen[0]]))
        for fcell in chosen:
            refs = [f'A{wb.nodes[d]["row"]}' if wb.nodes[d]['kind'] != 'range' else wb.nodes[d]['addr'].split('!')[1]
                    for d in wb.nodes[fcell]['deps']]
            wb.nodes[fcell]['text'] = f'=BOOMID({fcell}{"".join("," + r for r in refs)})'
        desc = [(x['addr'], x.get('value'), x.get('text')) for x in wb.nodes]
        plugin.FAILING.clear()
        plugin.IDCALLS.clear()
        plugin.FAIL_FROM.clear()
        consts = {i: 7 for i in chosen}
        inputs = {i: wb.nodes[i]['value'] for i in wb.inputs()}
        comp = ExcelCompiler(excel=wb.to_openpyxl(), plugins=('verif_c09_plugin',))
        fcell = chosen[0]
        faddr = wb.nodes[fcell]['addr']
        arm = rng.choice(['always', 'next-call', 'call-after-next'])
        case = dict(call='recalculate', workbook=desc, args=[faddr, arm], mode='plain')
        ctx.count(('recalc', k), kind='recalculate:' + arm, sample=case)
        stats['histories'] += 1
        everything = list(range(len(wb.nodes)))
        order = list(everything)
        rng.shuffle(order)
        # ---- a. first calculation
        check_values(case, comp, wb, fresh_all(wb, inputs, consts), order, 'first calculation')
        # ---- b. failure-free recalculate()
        for rounds in range(rng.randrange(0, 3)):
            for a in rng.sample(wb.inputs(), min(len(wb.inputs()), rng.randrange(0, 3))):
                v = rng.choice([x for x in wbgen.CLEAN_POOL if x != inputs[a] or type(x) is not type(inputs[a])])
                comp.set_value(wb.nodes[a]['addr'], v)
                inputs[a] = v
            try:
                comp.recalculate()
            except Exception as exc:      # noqa: BLE001
                ctx.violation(dict(case, phase='recalculate-without-failure'),
                              f"recalculate() raises {type(exc).__name__} although nothing fails: {exc}"[:200])
                break
            rng.shuffle(order)
            check_values(case, comp, wb, fresh_all(wb, inputs, consts), order, 'after recalculate() without failure')
        # ---- c. the plugin starts to raise
        calls = plugin.IDCALLS.get(fcell, 0)
        if arm == 'always':
            plugin.FAILING.add(fcell)
        else:
            plugin.FAIL_FROM[fcell] = calls + (1 if arm == 'next-call' else 2)
        if arm == 'call-after-next':
            try:
                comp.recalculate()
            except Exception as exc:      # noqa: BLE001
                ctx.violation(dict(case, phase='recalculate-without-failure'),
                              f"recalculate() raises {type(exc).__name__} although nothing fails yet: {exc}"[:200])
            if plugin.IDCALLS.get(fcell, 0) != calls + 1:
                ctx.violation(dict(case, phase='recalculate-recomputes'),
                              "recalculate() did not run the formula of a known cell exactly once",
                              impl=plugin.IDCALLS.get(fcell, 0) - calls, expected=1)
        below = wb.descendants(fcell)
        through_range = sorted(i for i in below if wb.nodes[i]['kind'] == 'formula' and
                               any(wb.nodes[d]['kind'] == 'range' and (d in below) for d in wb.nodes[i]['deps']))
        for attempt in (1, 2):
            try:
                comp.recalculate()
                ctx.violation(dict(case, phase=f'recalculate-with-failure-{attempt}'),
                              "recalculate() returns although a known cell fails")
            except PyCelException:
                stats['failed_recalculate'] += 1
            except RecursionError:
                pass
            except Exception as exc:      # noqa: BLE001
                ctx.violation(dict(case, phase=f'recalculate-with-failure-{attempt}'),
                              f"recalculate() raises the bare internal exception {type(exc).__name__}: {exc}"[:200])
            # ---- d. the failing cell, its dependants (ranges and their readers included): always a pycel error
            targets = [fcell] + sorted(below)
            rng.shuffle(targets)
            for target in targets + targets:
                tcase = dict(case, phase=f'after-failed-recalculate-{attempt}', target=wb.nodes[target]['addr'])
                if target in through_range:
                    stats['range_readers_checked'] += 1
                try:
                    r = comp.evaluate(wb.nodes[target]['addr'])
                    ctx.violation(tcase, "after a failed recalculate() a node that depends on the failing cell returns a "
                                         "value instead of failing", impl=canon(r))
                except PyCelException:
                    pass
                except RecursionError:
                    pass
                except Exception as exc:      # noqa: BLE001
                    ctx.violation(tcase, f"bare internal exception {type(exc).__name__}: {exc}"[:200])
            want = fresh_all(wb, inputs, consts)
            unrelated = [i for i in everything if i != fcell and i not in below]
            check_values(case, comp, wb, want, unrelated, f'unrelated after failed recalculate() {attempt}')
            if rng.random() < 0.5:
                break
        # ---- e. repair
        # (a recalculate() after the repair by a constant would run the formula again - the constant does not detach
        # it: known finding C09-repair-undone-by-upstream-write - so that combination is not part of the stream)
        how = rng.choice(['disarm+recalculate', 'constant'])
        if how == 'disarm+recalculate':
            plugin.FAILING.discard(fcell)
            plugin.FAIL_FROM.pop(fcell, None)
        else:
            consts[fcell] = rng.choice([5, 0, 'fixed', 12])
            try:
                comp.set_value(faddr, consts[fcell])
            except Exception as exc:      # noqa: BLE001
                ctx.violation(dict(case, phase='repair', how=how), f"set_value on the failing cell raises {type(exc).__name__}")
                continue
        if how != 'constant':
            try:
                comp.recalculate()
            except Exception as exc:      # noqa: BLE001
                ctx.violation(dict(case, phase='repair', how=how),
                              f"recalculate() after the repair raises {type(exc).__name__}: {exc}"[:200])
        rng.shuffle(order)
        check_values(dict(case, how=how), comp, wb, fresh_all(wb, inputs, consts), order, 'after the repair')
    plugin.FAILING.clear()
    plugin.IDCALLS.clear()
    plugin.FAIL_FROM.clear()


# ------------------------------------------------------------------ correspondence with coq/Model/Fail.v
def trim(v):
    """evaluate() trims the dimensions of a range result; the model returns the raw tuple."""
    if isinstance(v, tuple) and v and isinstance(v[0], tuple):
        if len(v[0]) == 1:
            v = tuple(r[0] for r in v)
        if len(v) == 1:
            v = v[0]
    return v


def canon_model(v):
    if isinstance(v, list):
        return [canon_model(x) for x in v]
    if isinstance(v, tuple) and not (len(v) == 2 and v[0] == 'float'):
        return tuple(canon_model(x) for x in v)
    return v


STATUS = {0: 'ok', 1: 'UnknownFunction', 2: 'FormulaEvalError'}


def extend(wb, rng):
    """Append a cell that reads two or three ranges (so that one build creates several range nodes and the
    order in which _process_gen_graph evaluates them shows), then up to two dependants of it.
    Returns the node indices that must become fault cells (their text is a placeholder)."""
    rows = list(range(1, len(wb.rows) + 1))
    if len(rows) < 3 or rng.random() < 0.35:
        return []
    deps = []
    if rng.random() < 0.4:
        deps.append(wb.rows[rng.choice(rows) - 1])
    for _ in range(rng.choice([2, 2, 3])):
        r1 = rng.choice(rows[:-1])
        ri = wb.get_range(r1, rng.randrange(r1 + 1, len(rows) + 1))
        if ri not in deps:
            deps.append(ri)
    f = wb.add_formula('=placeholder', deps, [2, [0, 0]])
    row = wb.nodes[f]['row']
    for _ in range(rng.randrange(0, 3)):
        if rng.random() < 0.5:
            wb.add_formula(f'=A{row}+1', [f], [3, 0, [0, 0], [1, 1]])
        else:
            r1 = rng.randrange(1, row)
            ri = wb.get_range(r1, len(wb.rows))
            (name, w) = rng.choice(wbgen.AGGS)
            wb.add_formula(f'={name}(A{r1}:A{len(wb.rows)})', [ri], [5, w, [0, 0]])
    return [f]


def inject(wb, rng, forced=(), names=('NOSUCHFUNC',)):
    """Replace 1-3 formula cells by failing formulas that keep the precedents.
    Returns {node index: fault wire form}."""
    faults = {}
    formulas = [i for i in wb.formulas() if i not in forced]
    chosen = list(forced) + rng.sample(formulas, min(len(formulas), rng.choice([0, 1, 1, 2] if forced else [1, 1, 2, 3])))
    for fcell in chosen:
        node = wb.nodes[fcell]
        refs = [f'A{wb.nodes[d]["row"]}' if wb.nodes[d]['kind'] != 'range' else wb.nodes[d]['addr'].split('!')[1]
                for d in node['deps']]
        kind = rng.choice(['unknown', 'unknown', 'unknown-late', 'plugin', 'plugin', 'plugin'])
        if fcell in forced and kind == 'unknown':
            kind = 'plugin'
        if kind == 'unknown-late' and not (node['deps'] and wb.nodes[node['deps'][0]]['kind'] != 'range'):
            kind = 'unknown' if fcell not in forced else 'plugin'
        fname = 'NOSUCHFUNC' if rng.random() < 0.4 else rng.choice(names)
        if kind == 'unknown':
            # the NameError is raised when the name is looked up: no precedent is read
            node['text'] = f'={fname}({",".join(refs) or "1"})'
            faults[fcell] = [1, 0]
        elif kind == 'unknown-late':
            # the left operand is evaluated first, then the name lookup fails
            node['text'] = f'={refs[0]}+{fname}({",".join(refs[1:]) or "1"})'
            faults[fcell] = [1, 1]
        else:
            node['text'] = f'=BOOMID({fcell}{"".join("," + r for r in refs)})'
            faults[fcell] = [2]
    return faults


def correspondence(ctx, ExcelCompiler, plugin, dotted=(), plain=()):
    from pycel.excelutil import PyCelException
    rng = ctx.rng
    # unknown-function faults are spelled NOSUCHFUNC or as an Excel function pycel lacks (the model's fault is the
    # same: the name lookup raises); names that Python itself resolves (TYPE, COMPLEX, FILTER) are not failures
    names = [n for n in list(dotted) * 3 + list(plain) + ['NOSUCH.FUNC'] if not is_builtin_name(n)] or ['NOSUCHFUNC']
    ctx.extra['rule'] += (
        "; correspondence: C01-generator workbooks of 5-10 cells, often extended by a cell that reads two or three ranges and by dependants of it, with 1-3 formula cells replaced by an unknown "
        "function (whole formula, or right operand of +) or by a plugin function identified by its cell; histories "
        "of 8-14 operations chosen while the implementation runs: evaluate any node (cells and ranges, built or "
        "not), set_value on a built input, set_value of a constant on a built failing cell (repair), switch a "
        "plugin cell between raising and returning, or arm it to raise from its k-th call; distinct = distinct "
        "(workbook, faults, history)")
    nwb = ctx.n(1200, 12000)
    batch = []
    stats = ctx.extra.setdefault('correspondence', dict(histories=0, operations=0, failed_evaluations=0,
                                                        histories_with_a_failure=0))
    for k in range(nwb):
        wb = wbgen.gen_workbook(rng, ncells=rng.randrange(5, 11), pool=wbgen.CLEAN_POOL + [0, 1])
        if not wb.formulas():
            continue
        faults = inject(wb, rng, extend(wb, rng), names)
        plugins = [i for i, f in faults.items() if f == [2]]
        plugin.FAILING.clear()
        plugin.IDCALLS.clear()
        plugin.FAIL_FROM.clear()
        for i in plugins:
            r = rng.random()
            if r < 0.5:
                plugin.FAILING.add(i)
            elif r < 0.8:
                plugin.FAIL_FROM[i] = rng.choice([1, 2, 2, 3])
        flags = {i: False for i in plugins}        # what the model has been told
        ops, impl_trace, hist = [], [], []

        def sync():
            for i in plugins:
                now = i in plugin.FAILING or plugin.IDCALLS.get(i, 0) + 1 >= plugin.FAIL_FROM.get(i, 10 ** 9)
                if now != flags[i]:
                    flags[i] = now
                    ops.append([3, i, 1 if now else 0])
                    impl_trace.append(None)
        sync()
        comp = ExcelCompiler(excel=wb.to_openpyxl(), plugins=('verif_c09_plugin',))
        inputs = {i: wb.nodes[i]['value'] for i in wb.inputs()}
        nfail = 0
        for step in range(rng.randrange(8, 15)):
            built_inputs = [i for i in wb.inputs() if wb.nodes[i]['addr'] in comp.cell_map]
            built_faults = [i for i in faults if wb.nodes[i]['addr'] in comp.cell_map]
            r = rng.random()
            if plugins and r < 0.12:
                i = rng.choice(plugins)
                plugin.FAIL_FROM.pop(i, None)
                if i in plugin.FAILING:
                    plugin.FAILING.discard(i)
                elif rng.random() < 0.5:
                    plugin.FAILING.add(i)
                else:
                    plugin.FAIL_FROM[i] = plugin.IDCALLS.get(i, 0) + rng.choice([1, 2])
                hist.append(['plugin', wb.nodes[i]['addr'], sorted(plugin.FAILING), dict(plugin.FAIL_FROM)])
                sync()
                continue
            if (built_inputs and r < 0.40) or (built_faults and r < 0.48):
                if built_faults and (r >= 0.40 or not built_inputs):
                    a, v = rng.choice(built_faults), rng.choice([5, 5, 'fixed', 0])
                else:
                    a = rng.choice(built_inputs)
                    v = rng.choice([x for x in wbgen.CLEAN_POOL if x != inputs[a] or type(x) is not type(inputs[a])])
                    inputs[a] = v
                try:
                    comp.set_value(wb.nodes[a]['addr'], v)
                except Exception as exc:      # noqa: BLE001
                    ctx.divergence(dict(call='fhistory', k=k, history=hist + [['set', wb.nodes[a]['addr'], v]]),
                                   f'set_value raises {type(exc).__name__}', 'returns',
                                   'Model/Graph.v set_value = ExcelCompiler.set_value')
                    break
                ops.append([1, a, enc_val(v)])
                hist.append(['set', wb.nodes[a]['addr'], v])
                impl_trace.append(('ok', None, wbgen.snapshot(comp, wb)))
            else:
                n = rng.randrange(len(wb.nodes))
                addr = wb.nodes[n]['addr']
                try:
                    res = ('ok', canon(comp.evaluate(addr)))
                except PyCelException as exc:
                    res = (type(exc).__name__, None)
                    nfail += 1
                except Exception as exc:      # noqa: BLE001
                    res = ('bare ' + type(exc).__name__, None)
                    # the property itself, whatever the model says: never a bare Python exception
                    ctx.violation(dict(call='fhistory', k=k, args=[addr],
                                       workbook=[(x['addr'], x.get('value'), x.get('text')) for x in wb.nodes],
                                       history=hist + [['eval', addr]], phase='bare-exception'),
                                  f"evaluate raises the bare internal exception {type(exc).__name__}: {exc}"[:200])
                ops.append([0, n])
                hist.append(['eval', addr])
                impl_trace.append((res[0], res[1], wbgen.snapshot(comp, wb)))
            sync()
        desc = [(x['addr'], x.get('value'), x.get('text')) for x in wb.nodes]
        case = dict(call='fhistory', k=k, workbook=desc, history=hist)
        ctx.count(('corr', k), kind='correspondence:' + ('with-failure' if nfail else 'no-failure'), sample=case)
        stats['histories'] += 1
        stats['operations'] += len(hist)
        stats['failed_evaluations'] += nfail
        stats['histories_with_a_failure'] += 1 if nfail else 0
        nodes = [nd + [faults.get(i, [0])] for i, nd in enumerate(wb.wire())]
        batch.append((case, wb, nodes, ops, impl_trace))
    if not ctx.model:
        return
    answers = ctx.model.batch([('fhistory', [nodes, ops]) for (_, _, nodes, ops, _) in batch])
    for (case, wb, nodes, ops, impl_trace), ans in zip(batch, answers):
        if not isinstance(ans, list) or len(ans) != len(ops) or (ans and not isinstance(ans[0], list)):
            ctx.divergence(case, 'n/a', ans, 'Model/Fail.v fhistory entry rejected the input')
            continue
        for j, (it, m) in enumerate(zip(impl_trace, ans)):
            if it is None:
                continue
            istatus, iv, isnap = it
            mstatus = STATUS.get(m[0], m[0])
            if mstatus != istatus:
                ctx.divergence(dict(case, step=j), istatus, mstatus,
                               'Model/Fail.v step_f raises (and which pycel error) = ExcelCompiler')
                break
            if ops[j][0] == 0 and istatus == 'ok':
                mv = trim(canon_model(dec_val(m[1])))
                if not same(mv, iv):
                    ctx.divergence(dict(case, step=j), iv, mv, 'Model/Fail.v evaluate_f = ExcelCompiler.evaluate')
                    break
            msnap = {i: canon_model(dec_val(x[1])) for i, x in enumerate(m[2]) if x[0] == 1}
            if set(msnap) != set(isnap) or any(not same(msnap[i], isnap[i]) for i in isnap):
                diff = {i: (isnap.get(i, '<unbuilt>'), msnap.get(i, '<unbuilt>'))
                        for i in set(isnap) | set(msnap)
                        if i not in isnap or i not in msnap or not same(msnap[i], isnap[i])}
                ctx.divergence(dict(case, step=j), diff, 'see impl',
                               'Model/Fail.v cache snapshot = ExcelCompiler.cell_map values '
                               + ('after a failed evaluation' if istatus != 'ok' else ''))
                break
