"""C18 — radix conversions: correspondence (generated model vs implementation)
and the property's oracle on the implementation."""
import itertools

from harness.common import canon, dec_res, enc_val, ensure_impl_on_path, run_impl

GEN_MODULES = ['excelutil', 'engineering']

BASES = {2: ('bin', 512, '01'), 8: ('oct', 1 << 29, '01234567'),
         16: ('hex', 1 << 39, '0123456789ABCDEF')}
ILLEGAL = ' +-_.xXbBoOgG\n'
ERRS = ('#NUM!', '#VALUE!')


def gen_ints(ctx, mask, exhaustive):
    vals = set()
    for b in (-mask, mask, 0, -1, 1, mask // 2, -mask // 2):
        for d in range(-3, 4):
            vals.add(b + d)
    if exhaustive:
        vals.update(range(-mask - 2, mask + 2))
    else:
        for _ in range(ctx.n(400, 10000)):
            vals.add(ctx.rng.randrange(-mask - mask // 8, mask + mask // 8))
            vals.add(ctx.rng.randrange(-5000, 5000))
    return sorted(vals)


def gen_strings(ctx, alphabet, base):
    out = []
    chars = alphabet + (alphabet.lower() if base == 16 else '') + ILLEGAL
    maxlen = 3 if ctx.tier == 'thorough' else 2
    small = alphabet[:4] + ('fF' if base == 16 else '') + ' +-_xb\n'
    for n in range(0, maxlen + 1):
        for t in itertools.product(small if n == 3 else chars, repeat=n):
            out.append("".join(t))
    for _ in range(ctx.n(1500, 30000)):
        n = ctx.rng.randrange(1, 12)
        s = [ctx.rng.choice(alphabet) for _ in range(n)]
        if ctx.rng.random() < 0.35:
            s[ctx.rng.randrange(n)] = ctx.rng.choice(ILLEGAL + 'zZ９')
        if ctx.rng.random() < 0.1:
            s = list('0' + ctx.rng.choice('bBoOxX')) + s
        out.append("".join(s)[:ctx.rng.choice((9, 10, 11, 12))])
    return out


def run(ctx):
    ensure_impl_on_path()
    from pycel.lib import engineering as eng
    ctx.extra['rule'] = (
        "calls of the 12 radix functions: every integer of the binary range (and +-2 beyond), "
        "boundary +-3 and PRNG-sampled integers of the octal/hex ranges, places None/0..11, "
        "every digit string up to 2 (thorough: 3) characters over alphabet+illegal characters, "
        "sampled strings up to 12 characters, non-integer/boolean/blank/error/array values; "
        "a case is non-trivial when it is a distinct (function, arguments) pair")
    calls = []          # (fname, pyargs)
    others = [None, True, False, 1.0, 1.5, -1.5, 7.0, '#EMPTY!', '#DIV/0!', '#N/A', '',
              ((1,),), ((1, 0),), [[1]], 3.0e10, 'abc']
    for base, (nm, mask, alpha) in BASES.items():
        ints = gen_ints(ctx, mask, exhaustive=(base == 2))
        for n in ints:
            calls.append((f'dec2{nm}', (n, None)))
        for n in ints[:: max(1, len(ints) // ctx.n(60, 600))] + [-1, -mask, mask - 1, 0, 5]:
            for p in [0, 1, 2, 3, 4, 5, 6, 7, 8, 9, 10, 11, 3.0, -1]:
                calls.append((f'dec2{nm}', (n, p)))
        for s in gen_strings(ctx, alpha, base):
            calls.append((f'{nm}2dec', (s,)))
            if ctx.rng.random() < 0.25:
                for nm2 in ('bin', 'oct', 'hex'):
                    if nm2 != nm:
                        calls.append((f'{nm}2{nm2}', (s, ctx.rng.choice([None, None, 0, 4, 10]))))
        for v in others:
            calls.append((f'{nm}2dec', (v,)))
            calls.append((f'dec2{nm}', (v, None)))
            for nm2 in ('bin', 'oct', 'hex'):
                if nm2 != nm:
                    calls.append((f'{nm}2{nm2}', (v, None)))
        # digits as numbers (BIN2DEC(101))
        for n in (0, 1, 10, 101, 777, 1111111111, 7777777777, 11111111111, -1, 102):
            calls.append((f'{nm}2dec', (n,)))
            calls.append((f'{nm}2dec', (float(n),)))
    # ---- run both sides
    impl = [run_impl(getattr(eng, f), *a) for f, a in calls]
    model = [dec_res(x) for x in ctx.model.batch([(f, [enc_val(v) for v in a]) for f, a in calls])] \
        if ctx.model else [None] * len(calls)
    for (f, a), i, m in zip(calls, impl, model):
        case = dict(call=f, args=list(a))
        kind = f"{f}:{'str' if isinstance(a[0], str) else type(a[0]).__name__}"
        ctx.count((f, repr(a)), kind=kind, sample=dict(call=f, args=list(a), impl=i))
        if m is not None:
            if m[0] == 'raise' and m[1] in ('Unmodelled', 'OutOfFuel'):
                ctx.histogram['unmodelled'] = ctx.histogram.get('unmodelled', 0) + 1
            elif m != i:
                ctx.divergence(case, i, m, 'Gen/engineering.v = pycel.lib.engineering')
        # ---- oracle: never an exception, never a non-text/non-number
        if i[0] == 'raise':
            ctx.violation(case, f"raises {i[1]} instead of returning a value or an error code", impl=i, model=m)
    # ---- oracle: the algebraic statements, on the implementation alone
    for base, (nm, mask, alpha) in BASES.items():
        d2b, b2d = getattr(eng, f'dec2{nm}'), getattr(eng, f'{nm}2dec')
        for n in gen_ints(ctx, mask, exhaustive=(base == 2)):
            case = dict(call=f'dec2{nm}', args=[n, None])
            s = d2b(n)
            ctx.count(('rt', base, n), kind=f'roundtrip{base}')
            if -mask <= n < mask:
                if not isinstance(s, str) or s in ERRS:
                    ctx.violation(case, "in-range number not rendered", impl=s)
                    continue
                if b2d(s) != n:
                    ctx.violation(case, f"round trip gives {b2d(s)!r}", impl=s, expected=n)
                if n < 0 and (len(s) != 10 or int(s, base) != n + 2 * mask):
                    ctx.violation(case, "negative number is not 10-digit two's complement", impl=s)
                if n >= 0 and int(s, base) != n:
                    ctx.violation(case, "wrong digits", impl=s)
                for p in (1, 5, 10, 11):
                    r = d2b(n, p)
                    want = s.zfill(p) if p >= len(s) else '#NUM!'
                    if r != want:
                        ctx.violation(dict(call=f'dec2{nm}', args=[n, p]), "places", impl=r, expected=want)
            elif s != '#NUM!':
                ctx.violation(case, "out-of-range number accepted", impl=s, expected='#NUM!')
        for s in gen_strings(ctx, alpha, base):
            case = dict(call=f'{nm}2dec', args=[s])
            r = run_impl(b2d, s)
            ctx.count(('str', base, s), kind=f'reject{base}')
            legal = 0 < len(s) <= 10 and all(c in alpha + alpha.lower() for c in s)
            if legal:
                v = int(s, base)
                want = v - 2 * mask if v >= mask else v
                if r != ('ok', want):
                    ctx.violation(case, "legal digit string decoded wrongly", impl=r, expected=want)
            elif s != '' and r != ('ok', '#NUM!') and r != ('ok', '#VALUE!'):
                ctx.violation(case, "illegal digit string not rejected", impl=r, expected='#NUM!')
            # base-to-base = composition through decimal
            for nm2, (b2, m2, _) in (('bin', BASES[2]), ('oct', BASES[8]), ('hex', BASES[16])):
                if nm2 != nm and ctx.rng.random() < 0.1:
                    direct = run_impl(getattr(eng, f'{nm}2{nm2}'), s)
                    via = run_impl(lambda t: getattr(eng, f'dec2{nm2}')(b2d(t)), s)
                    if direct != via:
                        ctx.violation(dict(call=f'{nm}2{nm2}', args=[s, None]),
                                      "differs from composition through decimal", impl=direct, expected=via)
