"""C03 — persisted models are observationally equivalent: to_file/from_file
through yml, json and pkl, in the same process, a fresh thread and a fresh
process, iterative or not; deterministic and idempotent saving; settings
survive the trip."""
import hashlib
import json
import os
import shutil
import subprocess
import threading

from harness import wbgen
from harness.common import (PY, Unencodable, canon, dec_val, enc_val, ensure_impl_on_path, impl_env, known_predicate,
                            same)

GEN_MODULES = ['excelutil', 'aggregates', 'stats']

ASSUMPTIONS = [
    "the byte-level output of ruamel.yaml / json / pickle is not modelled; the theorems are about the saved "
    "content map and the model rebuilt from it (coq/Model/Persist.v), the byte claims are judged by the oracle",
    "fresh-process loads run `/venv/bin/python` with PYTHONPATH=/repo/src on a small driver script written "
    "into the check's work directory",
    "trusted oracles of the theorems: parse(print(v)) = v for the yaml/json scalar printers (policed by the content "
    "pool of this harness) and pickle.load(pickle.dump(x)) = x; AddressRange (what is a range, its members, the "
    "sort key) and ExcelFormula (precedents and meaning of python code) are parameters of the model",
    "the model's evaluator is the non-iterative machine of coq/Model/Graph.v: for iterative models only the saved "
    "document is compared with the model, their post-load behaviour is judged by the oracle alone",
    "float arithmetic on the awkward contents (1e-7, 0.1, 1e22 …) is exact in the model: a formula value that "
    "differs from the implementation's only by IEEE rounding (relative 1e-12) is counted as float-inexact, not as "
    "a divergence; the sign of -0.0 is not modelled",
    "the inexact-number stream compares the implementation with itself (original object vs loaded object): it says "
    "nothing about the correctness of the values, only that persistence does not change them or their classes; in "
    "its numpy variant a numpy float counts as the float it holds",
    "the 17-digit stream and the numpy-results stream are implementation against implementation as well; a formula "
    "that raises while the model is built (ROUND(1E+16,15): decimal.InvalidOperation) is data there — the history "
    "compares how it raises on both sides; after trim_graph only the declared inputs are written (writes to other "
    "surviving constants are outside trim_graph's contract: C08, Open)",
    "iterative-settings stream: the original and the loaded iterative model are compared after the same warm-up and "
    "after every formula cell of both has been written to the same start value (the saved document holds no values "
    "of formula cells; first uses of an iterative model are finding C03-iterative-history-dependence, not compared)",
]

CONTENT_POOL = [1e-7, 1e22, -0.0, 0.1, 123456789.125, 'true', 'null', '~', 'yes', '12', '1e3', '=notformula',
                "it's", 'a: b', '- x', '{a}', '[1]', '#hash', 'multi\nline', 'tab\there', 'é漢😀', ' lead', 'trail ',
                '"q"', "'", '', True, False, None, 0, -3, 2 ** 40, 'next\x85line', 'del\x7fc1\x9b']

DRIVER = '''import json, sys
sys.path.insert(0, %(verif)r)
from pycel import ExcelCompiler
from harness.common import canon, jsonable
spec = json.load(open(sys.argv[1]))
comp = ExcelCompiler.from_file(spec["file"])
out = []
for op in spec["ops"]:
    try:
        if op[0] == "eval":
            out.append(["ok", jsonable(canon(comp.evaluate(op[1])))])
        else:
            comp.set_value(op[1], op[2]); out.append(["ok", None])
    except Exception as exc:
        out.append(["raise", type(exc).__name__])
json.dump(dict(trace=out, cycles=jsonable(comp.cycles), filename=comp.filename,
               extra=jsonable({k: v for k, v in (comp.extra_data or {}).items()})), open(sys.argv[2], "w"))
'''


@known_predicate('C03-json-astral-characters')
def _json_astral(case):
    """json format + a text cell with a character beyond U+FFFF"""
    a = case.get('args') or []
    return case.get('call') == 'persist' and a[:1] == ['json'] and any(
        isinstance(v, str) and any(ord(ch) > 0xFFFF for ch in v)
        for (_, v, _) in case.get('workbook', []))


@known_predicate('C03-yaml-nel')
def _yaml_nel(case):
    """yml format (and the pickle, which is built from the yml text) + a text cell containing NEL (U+0085): the
    YAML reader folds it into a blank"""
    a = case.get('args') or []
    return case.get('call') == 'persist' and a[:1] in (['yml'], ['pkl']) and any(
        isinstance(v, str) and '\x85' in v for (_, v, _) in case.get('workbook', []))


@known_predicate('C03-iterative-history-dependence')
def _iterative_history(case):
    a = case.get('args') or []
    return case.get('call') == 'persist' and a[1:2] == ['cycles'] and 'history' in case


@known_predicate('C03-eq-text-input')
def _eq_text_input(case):
    """an input cell holding a text that starts with '=' at the time of the save (inert until the coordinator
    registers the finding): saved verbatim, read back as a formula (coq/Refuted/C03_eq_text.v)"""
    return case.get('call') == 'persist' and case.get('eq_text_input')


@known_predicate('C03-resave-extra-data-key-order')
def _resave_extra(case):
    """byte identity of a second save when extra_data is a dict (inert until registered): _to_text updates the
    user's dict in place, so 'cell_map' moves behind 'filename' (coq/Refuted/C03_resave_extra_data.v)"""
    return case.get('call') == 'persist' and case.get('oracle') == 'bytes' and case.get('extra_data_dict')

# ------------------------------------------------------------------ correspondence with coq/Model/Persist.v
def parse_doc(path, ext):
    """The saved document as an ordered mapping (json: json.load, yml: ruamel.yaml safe load)."""
    if ext == 'json':
        return json.load(open(path))
    from ruamel.yaml import YAML
    return YAML(typ='safe').load(open(path))


def cyc_val(c):
    """cycles setting on the wire: False | (iterations, tolerance)"""
    if isinstance(c, dict):
        return (c.get('iterations'), c.get('tolerance'))
    return c


def corr_capture(orig, wb, ext, cycles, pre=None):
    """What the model needs to know about the object that is saved; None when the case is outside the model.
    pre = the node indices evaluated to build the object (default: every cell, in order)."""
    vals0, codes = {}, []
    for i, n in enumerate(wb.nodes):
        cell = orig.cell_map.get(n['addr'])
        if cell is None and pre is not None:
            codes.append([])         # not in the saved model: never read by the model either
            continue
        if n['kind'] == 'input':
            if cell is None or cell.formula is not None:
                return None          # '=notformula' written through openpyxl IS a formula: not the generated workbook
            vals0[i] = cell.value
            codes.append([])
        elif n['kind'] == 'formula':
            if cell is None or cell.formula is None:
                return None
            codes.append([ord(c) for c in cell.formula.python_code])
        else:
            codes.append([])
    order = []
    for addr in orig.cell_map:
        i = wb.index_of(addr)
        if i is None:
            return None
        order.append(i)
    try:
        nodes = wb.wire(inputs=vals0)
        settings = [enc_val(cyc_val(orig.cycles)), enc_val(orig.filename), enc_val(orig._excel_file_md5_digest), [0]]
    except Unencodable:
        return None
    keys = [n.get('row', n.get('r1', 0)) for n in wb.nodes]
    pre = [[0, i] for i in (wb.cells() if pre is None else pre)]
    return dict(nodes=nodes, codes=codes, keys=keys, order=order, pre=pre, settings=settings, ext=ext, cycles=cycles,
                wb=wb)


def canon_j(v):
    from harness.common import jsonable
    return jsonable(v)


def enc_ops(wb, ops):
    out = []
    for op in ops:
        i = wb.index_of(op[1])
        out.append([0, i] if op[0] == 'eval' else [1, i, enc_val(op[2])])
    return out


def run_ops_snap(comp, wb, ops):
    """values and cell-map snapshots, operation by operation"""
    out = []
    for op in ops:
        if op[0] == 'eval':
            v = canon(comp.evaluate(op[1]))
        else:
            comp.set_value(op[1], op[2])
            v = None
        out.append((v, wbgen.snapshot(comp, wb)))
    return out


def mval(x):
    """model value (wire) -> canonical implementation form"""
    def fix(v):
        if isinstance(v, list):
            return [fix(y) for y in v]
        if isinstance(v, tuple) and not (len(v) == 2 and v[0] == 'float'):
            return tuple(fix(y) for y in v)
        return v
    return fix(dec_val(x))


def val_rel(m, i):
    """'same' | 'float' (differs by IEEE rounding only) | 'diff'"""
    if same(m, i):
        return 'same'
    if isinstance(m, tuple) and isinstance(i, tuple) and len(m) == 2 == len(i) and m[0] == 'float' == i[0]:
        try:
            a, b = float(m[1]), float(i[1])
            if abs(a - b) <= 1e-12 * max(abs(a), abs(b)):
                return 'float'
        except Exception:    # noqa: BLE001
            pass
    return 'diff'


def unjson(v):
    """inverse of jsonable(canon(value)) for the values a history returns"""
    if isinstance(v, dict) and 'frac' in v:
        import fractions
        return fractions.Fraction(v['frac'][0], v['frac'][1])
    if isinstance(v, list):
        if len(v) == 2 and v[0] == 'float':
            return ('float', unjson(v[1]))
        return tuple(unjson(x) for x in v)
    return v


def cmp_doc(ctx, case, what, mdoc, data, wb):
    """model document (wire) against the parsed file: key order, cell map (addresses in order, constants, code)"""
    mkeys = [''.join(chr(c) for c in kv[0]) for kv in mdoc]
    ikeys = list(data.keys())
    if mkeys != ikeys:
        ctx.divergence(dict(case, leg=what), ikeys, mkeys, 'Persist.to_text top-level key order = keys of the saved file')
        return False
    for kv, k in zip(mdoc, mkeys):
        tag, body = kv[1][0], kv[1][1]
        if tag == 1:
            icells = list(data[k].items())
            mcells = [(wb.nodes[x[0]]['addr'], mval(x[1])) for x in body]
            if [a for a, _ in icells] != [a for a, _ in mcells]:
                ctx.divergence(dict(case, leg=what), [a for a, _ in icells], [a for a, _ in mcells],
                               'Persist.saved_cells addresses in order = cell_map of the saved file')
                return False
            for (a, iv), (_, mv) in zip(icells, mcells):
                is_code = isinstance(mv, str) and mv.startswith('=')
                ok = (iv == mv) if is_code or isinstance(iv, str) else same(mv, canon(iv))
                if not ok and isinstance(mv, str) and '\x85' in mv and iv == mv.replace('\x85', ' '):
                    continue        # known finding C03-yaml-nel: the parsed yml file has folded the NEL into a blank
                if not ok:
                    ctx.divergence(dict(case, leg=what, addr=a), iv, mv,
                                   'Persist.cell_value = entry of the saved file (code / constant)')
                    return False
        else:
            iv = data[k]
            iv = cyc_val(dict(iv)) if hasattr(iv, 'keys') else iv
            if not same(mval(body), canon(iv)) and not (mval(body) == canon(iv)):
                ctx.divergence(dict(case, leg=what, key=k), iv, mval(body), 'Persist.to_text settings = saved file')
                return False
    return True


def cmp_trace(ctx, case, what, mtrace, itrace):
    """model trace ((value snapshot) …) against implementation values (jsonable history results)"""
    for j, (m, it) in enumerate(zip(mtrace, itrace)):
        if it[0] != 'ok':
            ctx.divergence(dict(case, leg=what, step=j), it, mval(m[0]), 'Persist/Graph history: the model never raises')
            return 'diff'
        if it[1] is None and mval(m[0]) is None:
            continue
        r = val_rel(mval(m[0]), unjson(it[1]))
        if r == 'float':
            return 'float'
        if r == 'diff':
            if inexact_content(case):
                # the workbook holds numbers outside the float-exact domain (1e22, 0.1, 1e-7 ...): the model's exact
                # arithmetic and IEEE arithmetic may differ by more than a rounding ((1e22 + 12) - 1e22 is 0.0)
                return 'float'
            ctx.divergence(dict(case, leg=what, step=j), it[1], mval(m[0]),
                           'value returned by the model history = value returned by ExcelCompiler')
            return 'diff'
    return 'same'


def inexact_content(case):
    """a numeric constant of the workbook is outside the float-exact domain (DESIGN.md section 4)"""
    def exact(v):
        if isinstance(v, bool) or not isinstance(v, (int, float)):
            return True
        return abs(v) < 2 ** 26 and float(v * 4096).is_integer()
    return any(not exact(row[1]) for row in case.get('workbook', ()) if len(row) > 1)


def cmp_snap(ctx, case, what, msnap_sx, isnap):
    msnap = {i: mval(x[1]) for i, x in enumerate(msnap_sx) if x[0] == 1}
    if set(msnap) != set(isnap):
        ctx.divergence(dict(case, leg=what), sorted(isnap), sorted(msnap), 'built set of the model = keys of cell_map')
        return 'diff'
    rels = {val_rel(msnap[i], isnap[i]) for i in isnap}
    if 'diff' in rels and inexact_content(case):
        return 'float'
    if 'diff' in rels:
        diff = {i: (isnap[i], msnap[i]) for i in isnap if val_rel(msnap[i], isnap[i]) == 'diff'}
        ctx.divergence(dict(case, leg=what), diff, 'see impl', 'cache snapshot of the model = cell_map values')
        return 'diff'
    return 'float' if 'float' in rels else 'same'


MARK = '#MODEL-RAISE'


def unmodelled(*traces):
    """a formula of the case left the operator model (Model/GraphExpr.v answers with a marker value)"""
    def has(v):
        if isinstance(v, str):
            return MARK in v
        if isinstance(v, (tuple, list)):
            return any(has(x) for x in v)
        return False
    return any(has(mval(m[0])) or any(has(mval(x[1])) for x in m[1]) for t in traces for m in t)


def correspondence(ctx, batch):
    if not ctx.model or not batch:
        return
    calls = [('persist', [c['nodes'], c['codes'], c['keys'], c['order'], c['pre'], c['settings'],
                          enc_ops(c['wb'], c['ops']) if not c['cycles'] else []]) for c in batch]
    answers = ctx.model.batch(calls)
    for c, ans in zip(batch, answers):
        case, wb = c['case'], c['wb']
        if not isinstance(ans, list) or len(ans) != 4:
            ctx.divergence(case, 'n/a', ans, 'Extract/C03.v persist entry rejected the input')
            continue
        mdoc, mtrace0, mloaded, mdoc_again = ans
        kind = f"corr:{c['ext']}:{'cycles' if c['cycles'] else 'plain'}"
        ctx.count(('corr', c['k']), kind=kind)
        # ---- the saved document
        if c.get('doc') is not None:
            if cmp_doc(ctx, case, 'saved document', mdoc, c['doc'], wb):
                ctx.count(('corr-doc', c['k']), kind='corr-doc:' + c['ext'])
        if mloaded[0] != 1:
            ctx.divergence(case, 'loads', mloaded, 'Persist.from_text succeeds where from_file succeeds')
            continue
        _, mset, msnap0, mtrace1, mdoc2, mextra = mloaded
        # ---- a second save of the same object / the extra_data of the loaded model (extra_data cases)
        if c.get('doc_again') is not None:
            if cmp_doc(ctx, case, 'second save of the same object', mdoc_again, c['doc_again'], wb):
                ctx.count(('corr-again', c['k']), kind='corr-second-save:' + c['ext'])
        if c.get('extra_keys') is not None:
            mk = [''.join(chr(x) for x in k) for k in mextra]
            if mk != c['extra_keys']:
                ctx.divergence(dict(case, leg='extra_data'), c['extra_keys'], mk,
                               'keys of extra_data of Persist.from_text = loaded ExcelCompiler.extra_data')
            else:
                ctx.count(('corr-extra', c['k']), kind='corr-extra_data:' + c['ext'])
        # ---- settings of the loaded model
        meta = c.get('meta')
        if meta is not None:
            if meta['filename'] != mval(mset[1]) or bool(meta['cycles']) != bool(mval(mset[0])):
                ctx.divergence(dict(case, leg='settings'), meta, [mval(x) for x in mset],
                               'cycles / filename of Persist.from_text = loaded ExcelCompiler')
        # ---- a save of the loaded model
        if c.get('doc2') is not None:
            if cmp_doc(ctx, case, 'document saved by the loaded model', mdoc2, c['doc2'], wb):
                ctx.count(('corr-doc2', c['k']), kind='corr-resave:' + c['ext'])
        if c['cycles']:
            continue
        if unmodelled(mtrace0, mtrace1, [[[0], msnap0]]):
            ctx.count(('corr-unmodelled', c['k']), kind='corr-skip:operator outside the model', nontrivial=False)
            continue
        # ---- histories: the original object, the loaded object (wherever it was loaded), and an extra
        #      in-process load with cache snapshots
        r0 = cmp_trace(ctx, case, 'history on the original', mtrace0, c['want'])
        if r0 != 'same':
            if r0 == 'float':
                ctx.count(('corr-float', c['k']), kind='corr-skip:float-inexact', nontrivial=False)
            continue
        ctx.count(('corr-trace0', c['k']), kind='corr-history:original')
        if c.get('snap_orig') is not None:
            r = 'same'
            for j, ((iv, isn), m) in enumerate(zip(c['snap_orig'], mtrace0)):
                r = cmp_snap(ctx, dict(case, step=j), 'cache of the original along the history', m[1], isn)
                if r != 'same':
                    break
            if r == 'same':
                ctx.count(('corr-snap0', c['k']), kind='corr-snapshots:original')
        if c.get('got') is not None and not c.get('astral'):
            if cmp_trace(ctx, case, 'history on the loaded model (' + c['place'] + ')', mtrace1, c['got']) == 'same':
                ctx.count(('corr-trace1', c['k']), kind='corr-history:loaded:' + c['place'])
        if c.get('snap') is not None and not c.get('astral'):
            isnap0, itrace = c['snap']
            r = cmp_snap(ctx, dict(case, step='after load'), 'cache after from_file', msnap0, isnap0)
            for j, ((iv, isn), m) in enumerate(zip(itrace, mtrace1)):
                if r != 'same':
                    break
                if iv is not None and val_rel(mval(m[0]), iv) != 'same':
                    r = val_rel(mval(m[0]), iv)
                    if r == 'diff':
                        ctx.divergence(dict(case, step=j, leg='post-load history'), iv, mval(m[0]),
                                       'value returned by the loaded model = value returned by the loaded ExcelCompiler')
                    break
                r = cmp_snap(ctx, dict(case, step=j), 'cache along the post-load history', m[1], isn)
            if r == 'same':
                ctx.count(('corr-snap', c['k']), kind='corr-snapshots:loaded')


def file_hash(p):
    return hashlib.md5(open(p, 'rb').read()).hexdigest()


def run_ops(comp, ops):
    from harness.common import jsonable
    out = []
    for op in ops:
        try:
            if op[0] == 'eval':
                out.append(['ok', jsonable(canon(comp.evaluate(op[1])))])
            else:
                comp.set_value(op[1], op[2])
                out.append(['ok', None])
        except Exception as exc:      # noqa: BLE001
            out.append(['raise', type(exc).__name__])
    return out


def run(ctx):
    ensure_impl_on_path()
    from pycel import ExcelCompiler
    from harness.common import jsonable, VERIF
    rng = ctx.rng
    os.makedirs(ctx.work, exist_ok=True)
    driver = os.path.join(ctx.work, 'load_driver.py')
    with open(driver, 'w') as f:
        f.write(DRIVER % dict(verif=VERIF))
    ctx.extra['rule'] = (
        "single-sheet DAG workbooks of 5-9 cells (C01 generator) whose input cells draw from a pool of awkward "
        "contents (1e-7, 1e22, -0.0, text that looks like yaml/json/numbers/booleans/formulas, quotes, unicode, "
        "multi-line) x {yml, json, pkl} x {cycles off, on} x {same process, fresh thread, fresh process (sampled)} "
        "x a post-load history of 6-10 evaluate/set_value operations run on the original and on the loaded model; "
        "plus second-save byte identity, save-of-loaded content identity, survival of cycles/filename/extra_data; "
        "distinct = distinct (workbook, format, cycles, place). Correspondence with coq/Model/Persist.v (extracted): "
        "every such case whose workbook is inside the model is replayed on the extracted model — the parsed saved "
        "file (top-level key order, cell-map addresses in order, constants, code text, settings), the history on "
        "the original, the history on the loaded model wherever it was loaded, the cache snapshot after from_file "
        "and after every post-load operation of an extra in-process load, the settings of the loaded model and the "
        "document written by a save of the loaded model are compared exactly (iterative cases: documents only); a "
        "second stream saves models after evaluating a random subset of the cells in a random order (cell-map key "
        "order differs from the sorted order; unsaved cells read as blank after the load) with histories inside the "
        "saved cells; the extra_data cases compare the key order of a first and a second save of the same object "
        "and the keys of the loaded extra_data. Source-hash stream: models compiled from an .xlsx FILE; the file is "
        "left alone / rewritten with other contents / deleted between compile and save and again (or restored) "
        "between load and re-save: _excel_file_md5_digest, hash_matches and the excel_hash of both documents must "
        "be the hash recorded at compile time and hash_matches must agree with an independent md5 of the file on "
        "disk (also replayed on the model). Inexact-number stream (implementation against implementation, no "
        "model): constants 0.1, 2.5, 1e-7, 1e22, 1/3 ... among text/boolean/blank cells under SUM/AVERAGE/COUNT/"
        "MAX/MIN and cell arithmetic x yml/json/pkl x histories of 6-10 set_value/evaluate: original vs loaded "
        "compared after every operation by repr AND exact class of the returned value and of every cell value; "
        "a variant writes one or two constants as numpy.float64 before the save. 17-digit stream (implementation "
        "against implementation): constants whose shortest repr has 17 digits (x op y of two short constants stored "
        "next to the formula x op y, random floats of any magnitude, their 16-digit neighbours) typed into the "
        "workbook / written with set_value before the save / frozen by trim_graph, under formulas that compare or "
        "branch on them (=, <=, <>, IF(u=v), IF(u=literal), EXACT, MATCH, COUNTIF, MAX(range)=u, ROUND(u,15)=u, "
        "(u-v)*1E+17, SIGN(u-v), u&\"\") x yml/json/pkl x histories: repr and class of every returned value and "
        "every cell. Numpy-results stream: inputs A1:An, B1:Bn; column C formulas returning numpy scalars "
        "(SUMPRODUCT, SLOPE, INTERCEPT, FORECAST, INDEX(LINEST()), FACTDOUBLE, TREND) read by column D through a "
        "range (MAX/MIN/SUM/AVERAGE/COUNT/INDEX of C1:Cm) x yml/json/pkl x post-load histories that BEGIN with "
        "writes to the inputs (nothing evaluated between load and first write) and evaluate mostly downstream "
        "cells; returned values by repr and class after every operation, complete cell maps at the end. "
        "Iterative-settings stream (implementation against implementation): circular workbooks that do not settle "
        "within 100 passes / 0.001 (a counter A2=A2+B1, a slowly converging A1=A1*r+B2, a two-cell cycle) x how the "
        "settings are spelled (cycles=True forced on a plain workbook; iterate on without iterateCount/iterateDelta; "
        "one of the two; both) x in-memory / .xlsx x yml/json/pkl: cycles of the loaded model = the original's "
        "exactly (None entries included), a save of the loaded model (yml and json) writes the same settings, and "
        "after an identical warm-up and the same start values the same history returns the same values. "
        "Awkward-text stream (deterministic): every text of the content pool as a constant, under &, =, LEN and as a "
        "formula text literal, in one workbook per text x yml/json/pkl, every cell evaluated on the original and on "
        "the loaded model. New-nodes stream (implementation against implementation): a complete block of constants, "
        "an index cell and formulas whose evaluation needs a node that exists only at run time (range intersection "
        "of two blocks / with whole rows / a whole column, whole-formula OFFSET, INDIRECT, INDEX(OFFSET())), saved "
        "evaluated or - after a write - unevaluated x yml/json/pkl (pkl also in a fresh process): post-load evaluate "
        "of the formulas, of sub-ranges and 2-D parts of saved ranges, of super-ranges and cells in the blank area "
        "around the block, writes to the block, the index cell and a blank cell; every answer or exception class "
        "equal. Big-range stream: blocks of 60-300 constants (1-4 columns), consumers of the whole block and of "
        "parts of it that are themselves members of another referenced range x yml/json/pkl/pkl in a fresh process: "
        "post-load writes to members (the history begins with a write in half of the cases) and reads of everything")
    nwb = ctx.n(70, 800)
    nproc = 0
    batch = []          # correspondence cases (model = coq/Model/Persist.v)
    for k in range(nwb):
        wb = wbgen.gen_workbook(rng, ncells=rng.randrange(5, 10), pool=wbgen.CLEAN_POOL)
        for i in wb.inputs():
            if rng.random() < 0.5:
                wb.nodes[i]['value'] = rng.choice(CONTENT_POOL)
        desc = [(x['addr'], x.get('value'), x.get('text')) for x in wb.nodes]
        ext = ['yml', 'json', 'pkl'][k % 3]
        cycles = (k // 3) % 4 == 3
        place = ['same', 'thread', 'same', 'process'][(k // 12) % 4] if nproc < ctx.n(12, 80) else \
            ['same', 'thread'][k % 2]
        owb = wb.to_openpyxl()
        if cycles:
            from openpyxl.workbook.properties import CalcProperties
            owb.calculation = CalcProperties(iterate=True, iterateCount=30, iterateDelta=0.001)
        case = dict(call='persist', workbook=desc, args=[ext, 'cycles' if cycles else 'plain', place])
        orig = None
        try:
            orig = ExcelCompiler(excel=owb)
            orig.extra_data = None
            for i in wb.cells():
                orig.evaluate(wb.nodes[i]['addr'])
                if cycles:
                    orig.evaluate(wb.nodes[i]['addr'])
            stem = os.path.join(ctx.work, f'm{k}')
            orig.to_file(stem, file_types=(ext,))
        except Exception as exc:      # noqa: BLE001
            if 'OverflowError' in str(exc) and orig is not None and any(
                    isinstance(c.value, float) and c.value in (float('inf'), float('-inf'))
                    for c in orig.cell_map.values() if not hasattr(c, 'addresses')):
                # the content pool's text '1e3' concatenated with a number ("1e310") is an INFINITE number once it is
                # used in arithmetic; the original model itself raises (coerce_to_number(inf)): outside the property
                ctx.histogram['persist: original raises on an infinite number (skipped)'] = \
                    ctx.histogram.get('persist: original raises on an infinite number (skipped)', 0) + 1
                continue
            ctx.violation(case, f"build/save raises {type(exc).__name__}: {exc}"[:200])
            continue
        fname = stem + '.' + ext
        ctx.count((k, ext, cycles, place), kind=f'{ext}:{"cycles" if cycles else "plain"}:{place}', sample=case)
        # ---- correspondence: what is saved (captured before the history changes the original)
        corr = corr_capture(orig, wb, ext, cycles)
        if corr is None:
            ctx.count(('corr-skip', k), kind='corr-skip:outside the model', nontrivial=False)
        else:
            corr.update(case=case, k=k, place=place, astral=_json_astral(case) or _yaml_nel(case))
            if ext != 'pkl':
                try:
                    corr['doc'] = parse_doc(fname, ext)
                except Exception as exc:      # noqa: BLE001
                    ctx.divergence(case, repr(exc), 'n/a', 'the saved file parses')
        # ---- determinism: a second save of the unchanged model is byte-identical (text formats)
        if ext != 'pkl':
            h1 = file_hash(fname)
            orig.to_file(stem, file_types=(ext,))
            if file_hash(fname) != h1:
                ctx.violation(dict(case, oracle='bytes'), "saving the unchanged model again changes the text file")
        # ---- post-load history, original vs loaded
        ops = []
        inputs = wb.inputs()
        for _ in range(rng.randrange(6, 11)):
            if inputs and rng.random() < 0.4:
                a = rng.choice(inputs)
                ops.append(['set', wb.nodes[a]['addr'], rng.choice(wbgen.CLEAN_POOL)])
            else:
                ops.append(['eval', wb.nodes[rng.choice(wb.cells())]['addr']])
        if cycles:
            # iterative mode: evaluate twice (first use answers the previous pass — C06)
            ops = [o for op in ops for o in ([op, op] if op[0] == 'eval' else [op])]
        want = run_ops(orig, ops)
        got = None
        meta = None
        if place == 'same':
            try:
                loaded = ExcelCompiler.from_file(fname)
                got = run_ops(loaded, ops)
                meta = dict(cycles=jsonable(loaded.cycles), filename=loaded.filename)
            except Exception as exc:      # noqa: BLE001
                ctx.violation(dict(case, leg='load'), f"from_file raises {type(exc).__name__}: {exc}"[:200])
        elif place == 'thread':
            box = {}

            def work():
                try:
                    loaded = ExcelCompiler.from_file(fname)
                    box['got'] = run_ops(loaded, ops)
                    box['meta'] = dict(cycles=jsonable(loaded.cycles), filename=loaded.filename)
                except Exception as exc:      # noqa: BLE001
                    box['exc'] = f"{type(exc).__name__}: {exc}"
            t = threading.Thread(target=work)
            t.start()
            t.join()
            if 'exc' in box:
                ctx.violation(dict(case, leg='load'), f"from_file on a fresh thread raises {box['exc']}"[:200])
            got, meta = box.get('got'), box.get('meta')
        else:
            nproc += 1
            spec = os.path.join(ctx.work, f'spec{k}.json')
            outp = os.path.join(ctx.work, f'out{k}.json')
            json.dump(dict(file=fname, ops=jsonable(ops)), open(spec, 'w'))
            p = subprocess.run([PY, driver, spec, outp], env=impl_env(), capture_output=True, text=True, timeout=120)
            if p.returncode != 0:
                ctx.violation(dict(case, leg='load'), ("from_file in a fresh process fails: " + p.stderr[-300:])[:400])
            else:
                res = json.load(open(outp))
                got, meta = res['trace'], dict(cycles=res['cycles'], filename=res['filename'])
        if corr is not None:
            corr.update(ops=ops, want=jsonable(want), got=jsonable(got) if got is not None else None, meta=meta)
            batch.append(corr)
            if not cycles and not corr['astral']:
                # an extra in-process load, observed with cache snapshots
                try:
                    l3 = ExcelCompiler.from_file(fname)
                    corr['snap'] = (wbgen.snapshot(l3, wb), run_ops_snap(l3, wb, ops))
                except Exception:      # noqa: BLE001  (the oracle legs report load/evaluate failures)
                    pass
        if got is not None and jsonable(got) != jsonable(want):
            first = next(i for i, (a, b) in enumerate(zip(jsonable(got), jsonable(want))) if a != b)
            ctx.violation(dict(case, history=ops[:first + 1]),
                          "the loaded model answers a history differently from the original",
                          impl=got[first], expected=want[first])
        if meta is not None:
            if meta['filename'] != orig.filename:
                ctx.violation(case, "workbook file name does not survive the trip", impl=meta['filename'],
                              expected=orig.filename)
            if bool(meta['cycles']) != bool(orig.cycles) or (cycles and meta['cycles'] != jsonable(orig.cycles)):
                ctx.violation(case, "iteration settings do not survive the trip", impl=meta['cycles'],
                              expected=jsonable(orig.cycles))
        # ---- idempotence: saving a loaded model reproduces the same content
        if ext != 'pkl':
            try:
                l2 = ExcelCompiler.from_file(fname)
                stem2 = os.path.join(ctx.work, f'm{k}_again')
                l2.to_file(stem2, file_types=(ext,))

                def content(p):
                    if ext == 'json':
                        return json.load(open(p))
                    from ruamel.yaml import YAML
                    return json.loads(json.dumps(YAML(typ='safe').load(open(p)), default=str))
                a, b = content(fname), content(stem2 + '.' + ext)
                if a.get('cell_map') != b.get('cell_map') or a.get('cycles') != b.get('cycles') \
                        or a.get('filename') != b.get('filename') or a.get('excel_hash') != b.get('excel_hash'):
                    ctx.violation(dict(case, oracle='content'), "saving a loaded model does not reproduce the same content",
                                  impl=str(b.get('cell_map'))[:200], expected=str(a.get('cell_map'))[:200])
            except Exception as exc:      # noqa: BLE001
                ctx.violation(dict(case, leg='resave'), f"re-saving the loaded model raises {type(exc).__name__}: {exc}"[:200])
            if corr is not None and os.path.exists(os.path.join(ctx.work, f'm{k}_again.{ext}')):
                try:
                    corr['doc2'] = parse_doc(os.path.join(ctx.work, f'm{k}_again.{ext}'), ext)
                except Exception:      # noqa: BLE001
                    pass
        for f in os.listdir(ctx.work):
            if f.startswith(f'm{k}') or f.startswith(f'spec{k}') or f.startswith(f'out{k}'):
                os.remove(os.path.join(ctx.work, f))
    # ---- correspondence only: models saved after evaluating a random SUBSET of the cells in a random ORDER (the
    #      cell map's key order is then not the sorted order, and cells outside the saved model read as blank after
    #      the load); the post-load history stays inside the saved cells
    for k2 in range(ctx.n(45, 500)):
        wb = wbgen.gen_workbook(rng, ncells=rng.randrange(5, 10), pool=wbgen.CLEAN_POOL)
        for i in wb.inputs():
            if rng.random() < 0.4:
                wb.nodes[i]['value'] = rng.choice(CONTENT_POOL)
        ext = ['yml', 'json', 'pkl'][k2 % 3]
        cells = wb.cells()
        rng.shuffle(cells)
        subset = cells[:rng.randrange(1, len(cells) + 1)]
        case = dict(call='persist-partial', workbook=[(x['addr'], x.get('value'), x.get('text')) for x in wb.nodes],
                    args=[ext, 'plain', 'same'], evaluated=[wb.nodes[i]['addr'] for i in subset])
        stem = os.path.join(ctx.work, f'p{k2}')
        try:
            comp = ExcelCompiler(excel=wb.to_openpyxl())
            for i in subset:
                comp.evaluate(wb.nodes[i]['addr'])
            corr = corr_capture(comp, wb, ext, False, pre=subset)
            if corr is None or _json_astral(dict(case, call='persist')) or _yaml_nel(dict(case, call='persist')):
                ctx.count(('corr-skip', 'p', k2), kind='corr-skip:outside the model', nontrivial=False)
                continue
            comp.to_file(stem, file_types=(ext,))
            corr.update(case=case, k=('p', k2), place='same', astral=False, meta=None, got=None)
            if ext != 'pkl':
                corr['doc'] = parse_doc(stem + '.' + ext, ext)
            saved = [i for i in wb.cells() if wb.nodes[i]['addr'] in comp.cell_map]
            saved_inputs = [i for i in saved if wb.nodes[i]['kind'] == 'input']
            ops = []
            for _ in range(rng.randrange(5, 9)):
                if saved_inputs and rng.random() < 0.4:
                    ops.append(['set', wb.nodes[rng.choice(saved_inputs)]['addr'], rng.choice(wbgen.CLEAN_POOL)])
                else:
                    ops.append(['eval', wb.nodes[rng.choice(saved)]['addr']])
            loaded = ExcelCompiler.from_file(stem + '.' + ext)
            snap0 = wbgen.snapshot(loaded, wb)
            if ext != 'pkl':
                loaded.to_file(stem + '_again', file_types=(ext,))
                corr['doc2'] = parse_doc(stem + '_again.' + ext, ext)
            corr['snap'] = (snap0, run_ops_snap(loaded, wb, ops))
            corr['snap_orig'] = run_ops_snap(comp, wb, ops)
            corr.update(ops=ops, want=jsonable([['ok', canon_j(v)] for v, _ in corr['snap_orig']]))
            ctx.count(('partial', k2), kind=f'partial-model:{ext}', sample=case)
            batch.append(corr)
        except Exception as exc:      # noqa: BLE001
            ctx.divergence(case, f'{type(exc).__name__}: {exc}'[:300], 'n/a',
                           'a partially built model is saved, loaded and run without an exception')
        finally:
            for f in os.listdir(ctx.work):
                if f.startswith(f'p{k2}.') or f.startswith(f'p{k2}_again'):
                    os.remove(os.path.join(ctx.work, f))
    # ---- an input text that starts with "=" (written after the build), saved and loaded
    for ext in ('yml', 'json', 'pkl'):
        wbq = wbgen.WB()
        wbq.add_input(2)
        a2 = wbq.add_input('abc')
        wbq.add_formula('=A1+1', [0], [3, 0, [0, 0], [1, 1]])
        f4 = wbq.add_formula('=A2&"x"', [a2], [3, 5, [0, 0], [2, 120]])
        desc = [(x['addr'], x.get('value'), x.get('text')) for x in wbq.nodes]
        case = dict(call='persist', workbook=desc, args=[ext, 'plain', 'same'], eq_text_input=True)
        ctx.count(('eqtext', ext), kind='eq-text-input')
        try:
            comp = ExcelCompiler(excel=wbq.to_openpyxl())
            for i in wbq.cells():
                comp.evaluate(wbq.nodes[i]['addr'])
            comp.set_value('S!A2', '=abc')
            want = canon(comp.evaluate('S!A4'))
            stem = os.path.join(ctx.work, 'eqtext')
            comp.to_file(stem, file_types=(ext,))
            loaded = ExcelCompiler.from_file(stem + '.' + ext)
            try:
                got = ('ok', canon(loaded.evaluate('S!A4')))
            except Exception as exc:      # noqa: BLE001
                got = ('raise', type(exc).__name__)
            if got != ('ok', want):
                ctx.violation(dict(case, history=[['eval', 'S!A4']]),
                              "the loaded model answers a history differently from the original",
                              impl=got, expected=('ok', want))
        except Exception as exc:      # noqa: BLE001
            ctx.violation(case, f"save/load raises {type(exc).__name__}: {exc}"[:200])
    # ---- second save with a user extra_data dict: byte-identical?
    for ext in ('yml', 'json'):
        wbq = wbgen.gen_workbook(rng, ncells=5, pool=wbgen.CLEAN_POOL)
        comp = ExcelCompiler(excel=wbq.to_openpyxl())
        for i in wbq.cells():
            comp.evaluate(wbq.nodes[i]['addr'])
        comp.extra_data = {'note': 1}
        stem = os.path.join(ctx.work, 'twice')
        comp.to_file(stem, file_types=(ext,))
        h1 = file_hash(stem + '.' + ext)
        comp.to_file(stem, file_types=(ext,))
        ctx.count(('twice', ext), kind='resave-extra-data')
        if file_hash(stem + '.' + ext) != h1:
            ctx.violation(dict(call='persist', args=[ext, 'plain', 'same'], oracle='bytes', extra_data_dict=True),
                          "saving the unchanged model again changes the text file")
    # ---- C03_resave_stable / C03_resave_loaded on the implementation: with a user extra_data dict the SECOND and
    #      the THIRD save of the same object are byte-identical, and so are the first two saves of a LOADED model
    #      (whatever format it was loaded from)
    for ext in ('yml', 'json'):
        wbq = wbgen.gen_workbook(rng, ncells=5, pool=wbgen.CLEAN_POOL)
        comp = ExcelCompiler(excel=wbq.to_openpyxl())
        for i in wbq.cells():
            comp.evaluate(wbq.nodes[i]['addr'])
        comp.extra_data = {'note': 1, 'z': 'x: y'}
        stem = os.path.join(ctx.work, 'thrice')
        case = dict(call='persist', args=[ext, 'plain', 'same'], oracle='bytes-stable')
        try:
            comp.to_file(stem, file_types=(ext,))
            comp.to_file(stem, file_types=(ext,))
            h2 = file_hash(stem + '.' + ext)
            comp.to_file(stem, file_types=(ext,))
            ctx.count(('thrice', ext), kind='resave-stable')
            if file_hash(stem + '.' + ext) != h2:
                ctx.violation(dict(case, leg='third save'),
                              "the third save of the unchanged model differs from the second (C03_resave_stable)")
            for src in ('yml', 'json', 'pkl'):
                comp.to_file(stem, file_types=(src,))
                loaded = ExcelCompiler.from_file(stem + '.' + src)
                stem2 = os.path.join(ctx.work, 'thrice_loaded')
                loaded.to_file(stem2, file_types=(ext,))
                g1 = file_hash(stem2 + '.' + ext)
                loaded.to_file(stem2, file_types=(ext,))
                ctx.count(('loaded-twice', src, ext), kind='resave-loaded')
                if file_hash(stem2 + '.' + ext) != g1:
                    ctx.violation(dict(case, leg='loaded twice', source=src),
                                  "saving a loaded model twice gives different files (C03_resave_loaded)")
        except Exception as exc:      # noqa: BLE001
            ctx.violation(case, f"repeated save raises {type(exc).__name__}: {exc}"[:200])
    # ---- extra_data survives
    wb = wbgen.gen_workbook(rng, ncells=6, pool=wbgen.CLEAN_POOL)
    for ext in ('yml', 'json', 'pkl'):
        comp = ExcelCompiler(excel=wb.to_openpyxl())
        for i in wb.cells():
            comp.evaluate(wb.nodes[i]['addr'])
        comp.extra_data = {'note': 'x: y', 'n': 3, 'l': [1, 'a']}
        stem = os.path.join(ctx.work, 'extra')
        comp.to_file(stem, file_types=(ext,))
        loaded = ExcelCompiler.from_file(stem + '.' + ext)
        ctx.count(('extra', ext), kind='extra_data')
        ed = {k: v for k, v in (loaded.extra_data or {}).items() if k in ('note', 'n', 'l')}
        if json.loads(json.dumps(ed, default=list)) != {'note': 'x: y', 'n': 3, 'l': [1, 'a']}:
            ctx.violation(dict(call='persist', args=[ext, 'extra_data']), "extra_data does not survive the trip",
                          impl=str(ed), expected="{'note': 'x: y', 'n': 3, 'l': [1, 'a']}")
        # ---- correspondence only: with a user dictionary the model predicts the key order of the first save, of a
        #      second save of the same object (cell_map moves last: coq/Refuted/C03_resave_extra_data.v) and the keys
        #      of the loaded extra_data (the user's keys + 'filename')
        if ext != 'pkl':
            corr = corr_capture(comp, wb, ext, False)
            if corr is not None:
                corr['settings'][3] = [1, [[[ord(ch) for ch in kk], enc_val(vv)]
                                           for kk, vv in (('note', 'x: y'), ('n', 3), ('l', [1, 'a']))]]
                corr.update(case=dict(call='persist', args=[ext, 'extra_data']), k=('extra', ext), place='same',
                            astral=False, ops=[], want=[], got=[], meta=None,
                            extra_keys=[str(kk) for kk in loaded.extra_data])
                corr['doc'] = parse_doc(stem + '.' + ext, ext)
                comp.to_file(stem, file_types=(ext,))
                corr['doc_again'] = parse_doc(stem + '.' + ext, ext)
                batch.append(corr)
    hash_stream(ctx, ExcelCompiler, batch)
    inexact_stream(ctx, ExcelCompiler)
    inexact_stream(ctx, ExcelCompiler, numpy_constants=True)
    digits17_stream(ctx, ExcelCompiler)
    numpy_results_stream(ctx, ExcelCompiler)
    for stream in (iterative_settings_stream, awkward_text_stream, new_nodes_stream, stale_operand_cases, big_range_stream):
        try:
            stream(ctx, ExcelCompiler)
        except Exception:      # noqa: BLE001
            import traceback
            ctx.broke(f"harness: {stream.__name__} failed", traceback.format_exc())
    correspondence(ctx, batch)
    shutil.rmtree(ctx.work, ignore_errors=True)


# ------------------------------------------------------------------ settings: the source hash
def hash_stream(ctx, ExcelCompiler, batch):
    """Models compiled from an .xlsx FILE (so that a source hash exists); between compiling and saving, and again
    between loading and re-saving, the workbook file is left alone / rewritten with other contents / deleted /
    restored.  The hash recorded at compile time is what must travel: `_excel_file_md5_digest` and `hash_matches`
    of the loaded model (and of a model loaded from a save of the loaded model) equal the original's, the text
    documents carry that hash, and `hash_matches` says what an independent md5 of the file on disk says."""
    from harness.common import jsonable
    rng = ctx.rng
    acts1 = ['untouched', 'modified', 'deleted']
    acts2 = ['untouched', 'modified', 'deleted', 'restored']

    def disk_hash(p):
        return file_hash(p) if os.path.exists(p) else None

    for k in range(ctx.n(18, 150)):
        wb = wbgen.gen_workbook(rng, ncells=rng.randrange(4, 8), pool=wbgen.CLEAN_POOL)
        desc = [(x['addr'], x.get('value'), x.get('text')) for x in wb.nodes]
        ext = ['yml', 'json', 'pkl'][k % 3]
        act1 = acts1[(k // 3) % 3] if k < 9 else rng.choice(acts1)
        act2 = rng.choice(acts2)
        case = dict(call='persist-hash', workbook=desc, args=[ext, act1, act2])
        xlsx = os.path.join(ctx.work, f'hbook{k}.xlsx')
        stem = os.path.join(ctx.work, f'h{k}')
        ctx.count(('hash', k), kind=f'source-hash:{ext}:{act1}:{act2}', sample=case)

        def rewrite(other):
            """the workbook file with another value in its first input cell (or with the original contents)"""
            i0 = wb.inputs()[0]
            v = wb.nodes[i0]['value']
            wb.to_openpyxl(inputs={i0: (v + 1000) if isinstance(v, int) and not isinstance(v, bool)
                                   else 4242} if other else None).save(xlsx)

        def apply(act, original_bytes):
            if act == 'modified':
                rewrite(True)
            elif act == 'deleted':
                if os.path.exists(xlsx):
                    os.remove(xlsx)
            elif act == 'restored':
                with open(xlsx, 'wb') as f:
                    f.write(original_bytes)

        try:
            rewrite(False)
            original_bytes = open(xlsx, 'rb').read()
            h0 = hashlib.md5(original_bytes).hexdigest()
            orig = ExcelCompiler(filename=xlsx)
            for i in wb.cells():
                orig.evaluate(wb.nodes[i]['addr'])
            if orig._excel_file_md5_digest != h0:
                ctx.violation(dict(case, leg='compile'), "the hash recorded at compile time is not the md5 of the workbook file",
                              impl=orig._excel_file_md5_digest, expected=h0)
            apply(act1, original_bytes)
            want_match = disk_hash(xlsx) == h0
            if orig.hash_matches != want_match:
                ctx.violation(dict(case, leg='original'), "hash_matches of the original disagrees with the file on disk",
                              impl=orig.hash_matches, expected=want_match)
            corr = corr_capture(orig, wb, ext, False)
            orig.to_file(stem, file_types=(ext,))
            fname = stem + '.' + ext
            if ext != 'pkl':
                doc = parse_doc(fname, ext)
                if doc.get('excel_hash') != h0:
                    ctx.violation(dict(case, leg='saved document'),
                                  "the saved excel_hash is not the hash recorded when the model was compiled",
                                  impl=doc.get('excel_hash'), expected=h0)
            loaded = ExcelCompiler.from_file(fname)
            if loaded._excel_file_md5_digest != orig._excel_file_md5_digest:
                ctx.violation(dict(case, leg='loaded'), "the source hash does not survive the trip",
                              impl=loaded._excel_file_md5_digest, expected=orig._excel_file_md5_digest)
            if loaded.hash_matches != orig.hash_matches:
                ctx.violation(dict(case, leg='loaded'), "hash_matches of the loaded model differs from the original's",
                              impl=loaded.hash_matches, expected=orig.hash_matches)
            if loaded.filename != orig.filename:
                ctx.violation(dict(case, leg='loaded'), "workbook file name does not survive the trip",
                              impl=loaded.filename, expected=orig.filename)
            ops = [['eval', wb.nodes[i]['addr']] for i in wb.cells()]
            want, got = run_ops(orig, ops), run_ops(loaded, ops)
            if jsonable(want) != jsonable(got):
                first = next(i for i, (a, b) in enumerate(zip(jsonable(got), jsonable(want))) if a != b)
                ctx.violation(dict(case, history=ops[:first + 1]),
                              "the loaded model answers a history differently from the original",
                              impl=got[first], expected=want[first])
            # ---- a save of the loaded model, wherever the workbook file is by then
            apply(act2, original_bytes)
            want_match = disk_hash(xlsx) == h0
            loaded.to_file(stem + '_again', file_types=(ext,))
            doc2 = None
            if ext != 'pkl':
                doc2 = parse_doc(stem + '_again.' + ext, ext)
                if doc2.get('excel_hash') != h0:
                    ctx.violation(dict(case, leg='document saved by the loaded model'),
                                  "re-saving a loaded model does not keep the source hash",
                                  impl=doc2.get('excel_hash'), expected=h0)
            l2 = ExcelCompiler.from_file(stem + '_again.' + ext)
            if l2._excel_file_md5_digest != h0:
                ctx.violation(dict(case, leg='reloaded (saved by the loaded model)'),
                              "re-saving a loaded model does not keep the source hash",
                              impl=l2._excel_file_md5_digest, expected=h0)
            for name, m in (('original', orig), ('loaded', loaded), ('reloaded (saved by the loaded model)', l2)):
                if m.hash_matches != want_match:
                    ctx.violation(dict(case, leg=name, after=act2),
                                  f"hash_matches of the {name} model disagrees with the file on disk",
                                  impl=m.hash_matches, expected=want_match)
            if corr is not None:
                corr.update(case=case, k=('hash', k), place='same', astral=False, ops=ops, want=jsonable(want),
                            got=jsonable(got), meta=dict(cycles=jsonable(loaded.cycles), filename=loaded.filename))
                if ext != 'pkl':
                    corr['doc'], corr['doc2'] = doc, doc2
                batch.append(corr)
        except Exception as exc:      # noqa: BLE001
            ctx.violation(dict(case, leg='exception'), f"compile/save/load raises {type(exc).__name__}: {exc}"[:200])
        finally:
            for f in os.listdir(ctx.work):
                if f.startswith(f'h{k}.') or f.startswith(f'h{k}_again') or f == f'hbook{k}.xlsx':
                    os.remove(os.path.join(ctx.work, f))


# ------------------------------------------------------------------ numbers outside the float-exact domain
INEXACT_POOL = [0.1, 0.2, 0.3, 0.7, 1.1, 2.5, 7.25, 1e-7, 1e-3, 1e16, 1e22, 1 / 3, 2 / 3, 123456789.125, 3, 7, -4,
                4, 100, -0.1, 1e-7, 0.1, 2.5]
INEXACT_OTHER = ['text', '12', True, False, None, '']
INEXACT_AGGS = ['SUM', 'SUM', 'AVERAGE', 'COUNT', 'MAX', 'MIN']


def typed(v, numpy_as_float=False):
    """a value with the exact class of every scalar in it: ('builtins.float', '0.1') — a float subclass (ruamel's
    ScalarFloat), a numpy scalar or a plain float holding the same number are three different things here.
    numpy_as_float: a numpy float counts as the float it holds (streams that WRITE numpy constants: to_file saves
    them as floats on purpose)."""
    if isinstance(v, (tuple, list)):
        return [type(v).__name__] + [typed(x, numpy_as_float) for x in v]
    if numpy_as_float:
        import numpy as np
        if isinstance(v, np.floating):
            v = float(v)
    return [type(v).__module__ + '.' + type(v).__name__, repr(v)]


def last_bits(a, b):
    """two different observations (typed values / ['ok', typed value]) that are the same up to the rounding of the
    floats in them (relative 1e-13)"""
    def close(x, y):
        if x == y:
            return True
        if not (isinstance(x, list) and isinstance(y, list) and len(x) == len(y) and x):
            return False
        if x[0] == y[0] and x[0] in ('tuple', 'list', 'ok'):
            return all(close(p, q) for p, q in zip(x[1:], y[1:]))
        numeric = ('builtins.float', 'builtins.int')
        if x[0] in numeric and y[0] in numeric:
            # a float result that is integral is handed out as an int: beyond 2**53 that int is a rounded float too
            try:
                if x[0] == 'builtins.int' == y[0] and max(abs(int(x[1])), abs(int(y[1]))) < 2 ** 53:
                    return False
                u, v = float(x[1]), float(y[1])
                return abs(u - v) <= 1e-13 * max(abs(u), abs(v))
            except Exception:      # noqa: BLE001
                return False
        return False
    return a != b and close(a, b)


@known_predicate('C03-numpy-float-constant')
def _numpy_constant(case):
    """a constant written as numpy.float64 before the save (to_file stores it as a float, so the loaded model holds
    a plain float where the original holds the numpy scalar) and an observed float that differs from the
    original's by rounding only; any other difference in this stream is NOT matched"""
    return case.get('call') == 'persist-inexact' and bool(case.get('numpy_constants')) and \
        case.get('diff') == 'float-last-bits'


def inexact_stream(ctx, ExcelCompiler, numpy_constants=False):
    """Implementation against implementation (no Coq model: the numbers are outside the float-exact domain): a
    column of constants such as 0.1, 2.5, 1e-7, 1e22, 1/3 (some text / boolean / blank cells among them) under
    SUM / AVERAGE / COUNT / MAX / MIN of ranges and cell arithmetic; the same history of set_value/evaluate on the
    original and on the model loaded from yml, json and pkl; compared after every operation: repr AND exact class
    of the returned value and of the value of every cell of the cell map.
    numpy_constants: before the save one or two constants are overwritten with numpy.float64 values (what a caller
    working with numpy passes to set_value; _to_text stores them as floats); numbers are non-negative there, so a
    difference in rounding stays a difference in the last bits."""
    rng = ctx.rng
    pool = [v for v in INEXACT_POOL if v >= 0] if numpy_constants else INEXACT_POOL
    tag = 'numpy-constants' if numpy_constants else 'inexact-numbers'
    for k in range(ctx.n(24 if numpy_constants else 36, 400)):
        nconst = rng.randrange(3, 8)
        consts = [rng.choice(pool) if rng.random() < 0.85 else rng.choice(INEXACT_OTHER) for _ in range(nconst)]
        if k % 4 == 0:          # the reported shape: a few floats of very different magnitude and an int under SUM
            consts = rng.sample([2.5, 3, 1e-7, 0.1, 1e22, 1 / 3, 0.7], min(nconst, 7))
        texts = []
        nrows = nconst
        for _ in range(rng.randrange(2, 5)):
            r1 = rng.randrange(1, nrows)
            r2 = rng.randrange(r1 + 1, nrows + 1)
            agg = rng.choice(INEXACT_AGGS)
            shape = rng.random()
            if shape < 0.55:
                t = f'={agg}(A{r1}:A{r2})'
            elif shape < 0.7:
                t = f'={agg}(A{r1}:A{r2})+A{rng.randrange(1, nrows + 1)}'
            elif shape < 0.8:
                t = f'={agg}(A{r1},A{r2},A{rng.randrange(1, nrows + 1)})'
            elif shape < 0.9:
                t = f'=A{r1}*A{r2}'
            else:
                t = f'=IF(COUNT(A{r1})=1,A{r1}+A{r2},"no")'
            texts.append(t)
            nrows += 1
        if k % 4 == 0:
            texts[0] = f'=SUM(A1:A{nconst})'
        written = [[wbgen.cell_addr(r), rng.choice([v for v in pool if isinstance(v, float)])]
                   for r in rng.sample(range(1, nconst + 1), rng.randrange(1, 3))] if numpy_constants else []

        def build():
            import openpyxl
            owb = openpyxl.Workbook()
            ws = owb.active
            ws.title = wbgen.SHEET
            for r, v in enumerate(consts, 1):
                if v is not None:
                    ws.cell(row=r, column=1, value=v)
            for r, t in enumerate(texts, nconst + 1):
                ws.cell(row=r, column=1, value=t)
            return owb
        addrs = [wbgen.cell_addr(r) for r in range(1, nrows + 1)]
        desc = [(a, v, None) for a, v in zip(addrs, consts)] + [(a, None, t) for a, t in zip(addrs[nconst:], texts)]
        ops = []
        for _ in range(rng.randrange(6, 11)):
            if rng.random() < 0.45:
                ops.append(['set', addrs[rng.randrange(nconst)],
                            rng.choice(pool) if rng.random() < 0.9 else rng.choice(INEXACT_OTHER)])
            else:
                ops.append(['eval', addrs[rng.randrange(nconst, nrows)]])
        ops.append(['eval', addrs[nconst]])
        if numpy_constants:      # look at every formula before the history overwrites the numpy constants
            ops = [['eval', a] for a in addrs[nconst:]] + ops
        for ext in ('yml', 'json', 'pkl'):
            case = dict(call='persist-inexact', workbook=desc, args=[ext, 'plain', 'same'])
            if numpy_constants:
                case['numpy_constants'] = written      # set_value(addr, numpy.float64(value)) before the save
            ctx.count((tag, k, ext), kind=f'{tag}:{ext}', sample=case if ext == 'yml' else None)
            stem = os.path.join(ctx.work, f'x{k}')
            try:
                orig = ExcelCompiler(excel=build())
                for a in addrs:
                    orig.evaluate(a)
                if written:
                    import numpy as np
                    for a, v in written:
                        orig.set_value(a, np.float64(v))
                    for a in addrs:
                        orig.evaluate(a)
                orig.to_file(stem, file_types=(ext,))
                loaded = ExcelCompiler.from_file(stem + '.' + ext)
                for a in addrs:           # both caches complete: the cell maps are comparable cell by cell
                    loaded.evaluate(a)
            except Exception as exc:      # noqa: BLE001
                ctx.violation(dict(case, leg='save/load'), f"build/save/load raises {type(exc).__name__}: {exc}"[:200])
                continue
            finally:
                for f in os.listdir(ctx.work):
                    if f.startswith(f'x{k}.'):
                        os.remove(os.path.join(ctx.work, f))

            def snap(comp):
                if numpy_constants:
                    # writing the float a numpy constant holds changes the class of the value on the original only
                    # (its dependants are reset there, not in the loaded model): compare complete caches
                    for a in addrs:
                        try:
                            comp.evaluate(a)
                        except Exception:      # noqa: BLE001  (the history leg reports it)
                            pass
                return {a: typed(c.value, numpy_constants) for a, c in comp.cell_map.items()}

            def observe(comp, op):
                try:
                    if op[0] == 'eval':
                        r = ['ok', typed(comp.evaluate(op[1]), numpy_constants)]
                    else:
                        comp.set_value(op[1], op[2])
                        r = ['ok', None]
                except Exception as exc:      # noqa: BLE001
                    r = ['raise', type(exc).__name__]
                return r, snap(comp)
            for j in range(-1, len(ops)):
                if j < 0:       # right after the load
                    rw = rg = None
                    sw, sg = snap(orig), snap(loaded)
                else:
                    (rw, sw), (rg, sg) = observe(orig, ops[j]), observe(loaded, ops[j])
                hist = ops[:j + 1]
                if rw != rg:
                    rounding = numpy_constants and last_bits(rw, rg)
                    ctx.violation(dict(case, history=hist, diff='float-last-bits' if rounding else 'other'),
                                  "the loaded model answers a history differently from the original (repr / class of the value)",
                                  impl=rg, expected=rw)
                    if not rounding:
                        break
                if sw != sg:
                    bad = sorted(set(sw) ^ set(sg)) or [a for a in sw if sw[a] != sg[a]]
                    other = [a for a in bad if not (numpy_constants and last_bits(sw.get(a), sg.get(a)))]
                    for a, kind in ([(other[0], 'other')] if other else [(bad[0], 'float-last-bits')]):
                        ctx.violation(dict(case, history=hist, cell=a, diff=kind),
                                      "a cell of the loaded model holds another value (repr / class) than the same cell of the original",
                                      impl=sg.get(a), expected=sw.get(a))
                    if other:
                        break


# ------------------------------------------------------------------ doubles whose shortest repr needs 17 digits
def needs17(x):
    """a finite double that 16 significant digits do not identify (its shortest repr has 17: 0.1+0.2, 1.1*1.1,
    about half of all computed values)"""
    return isinstance(x, float) and x == x and abs(x) != float('inf') and float(format(x, '.16g')) != x


SHORT_OPERANDS = [0.1, 0.2, 0.3, 0.7, 1.1, 2.5, 1.15, 4.35, 1e-7, 1 / 3, 2 / 3, 3, 7, 100, 0.9, 1e16]
ARITH = [('+', lambda a, b: a + b), ('-', lambda a, b: a - b), ('*', lambda a, b: a * b), ('/', lambda a, b: a / b)]


def computed17(rng):
    """(x, op, y, x op y) with short operands and a result that needs 17 digits"""
    while True:
        x, y = rng.choice(SHORT_OPERANDS), rng.choice(SHORT_OPERANDS)
        op, fn = rng.choice(ARITH)
        v = fn(x, y)
        if needs17(v):
            return x, op, y, v


def long_float(rng):
    """a double with a 17-digit repr: computed from short operands, or random (any magnitude, either sign)"""
    while True:
        c = rng.random()
        if c < 0.3:
            v = computed17(rng)[3]
        elif c < 0.6:
            v = rng.random()
        elif c < 0.8:
            v = rng.uniform(-1, 1) * 10 ** rng.randrange(-9, 12)
        else:
            v = rng.randrange(1, 1000) / rng.choice([3, 7, 9, 11, 13, 17, 19, 0.3, 0.7])
        if needs17(v):
            return v


def digits17_stream(ctx, ExcelCompiler):
    """Implementation against implementation.  Column A: constants, most of them doubles whose shortest repr has 17
    digits (x op y of two short constants stored as a value next to its operands, random floats of any magnitude,
    the 16-digit neighbour of such a number); column B: arithmetic/aggregates over A (among them the FORMULA x op y
    whose value is the stored constant); column C: formulas that COMPARE or BRANCH on these values (=, <=, IF(u=v),
    IF(u=<literal>), EXACT, MATCH/COUNTIF of the value in the column, MAX(range)=u, ROUND(u,15)=u, (u-v)*1E+17,
    SIGN(u-v), u&"").  Three ways for such a number to be a constant of the saved model: typed into the workbook /
    written with set_value before the save / a formula cell frozen by trim_graph.  Saved and loaded as yml, json
    and pkl; the same history of set_value/evaluate on both objects; compared after every operation by repr and
    exact class: the returned value and every cell of the cell map."""
    rng = ctx.rng
    S = wbgen.SHEET
    for k in range(ctx.n(27, 300)):
        variant = ['typed', 'written', 'trimmed'][k % 3]
        x, op, y, xy = computed17(rng)
        consts = [x, y, xy]
        for _ in range(rng.randrange(1, 4)):
            c = rng.random()
            consts.append(float(format(rng.choice([v for v in consts if needs17(v)]), '.16g')) if c < 0.25
                          else long_float(rng) if c < 0.8 else rng.choice(SHORT_OPERANDS + [0]))
        nc = len(consts)
        A = [f'A{r}' for r in range(1, nc + 1)]
        derived = [f'=A1{op}A2']
        for _ in range(rng.randrange(1, 4)):
            c = rng.random()
            u, v = rng.choice(A), rng.choice(A)
            derived.append(f'={u}{rng.choice("+-*")}{v}' if c < 0.5 else f'=SUM(A{rng.randrange(1, 3)}:A{nc})' if c < 0.7
                           else f'={u}/{rng.choice([3, 7, 10])}' if c < 0.85 else f'=AVERAGE(A1:A{nc})')
        B = [f'B{r}' for r in range(1, len(derived) + 1)]
        values = A[2:] + B                      # cells that hold the interesting numbers
        twins = [('A3', 'B1')] + [(a, b) for a in A[2:] for b in A[2:] if a < b]
        tests = []
        for _ in range(rng.randrange(3, 7)):
            u, v = rng.choice(twins) if rng.random() < 0.6 else (rng.choice(values), rng.choice(values))
            while u == v:
                u, v = rng.choice(values), rng.choice(values)
            if rng.random() < 0.5:
                u, v = v, u
            w = rng.choice(values)
            lit = rng.choice([c for c in consts if isinstance(c, float)])
            if rng.random() < 0.4:
                lit = float(format(lit, '.16g'))
            c = rng.randrange(14)
            tests.append([f'={u}={v}', f'=IF({u}={v},"eq","ne")', f'=IF({u}={lit!r},{w},{w}*2)', f'={u}<={v}',
                          f'=({u}-{v})*1E+17', f'=EXACT({u},{v})', f'={u}&""', f'=MATCH({u},A1:A{nc},0)',
                          f'=COUNTIF(A1:A{nc},{u})', f'=MAX(A1:A{nc})={u}', f'=ROUND({u},15)={u}', f'=SIGN({u}-{v})',
                          f'=IF({u}<{v},{u},{v})={w}', f'={u}<>{lit!r}'][c])
        C = [f'C{r}' for r in range(1, len(tests) + 1)]
        cells = [(a, v, None) for a, v in zip(A, consts)] + [(b, None, t) for b, t in zip(B, derived)] + \
            [(c, None, t) for c, t in zip(C, tests)]
        desc = [(f'{S}!{a}', v, t) for a, v, t in cells]
        written = [[f'{S}!{a}', long_float(rng)] for a in rng.sample(A, rng.randrange(1, 3))] \
            if variant == 'written' else []
        trim = None
        if variant == 'trimmed':      # one or two constants stay inputs; what does not depend on them is frozen
            trim = ([f'{S}!{a}' for a in rng.sample(A, rng.randrange(1, 3))], [f'{S}!{c}' for c in C])

        def build():
            import openpyxl
            owb = openpyxl.Workbook()
            ws = owb.active
            ws.title = S
            for a, v, t in cells:
                ws[a] = v if t is None else t
            return owb
        plan = []        # the history, drawn once: (kind, position, value)
        for _ in range(rng.randrange(6, 11)):
            if rng.random() < 0.4:
                c = rng.random()
                plan.append(('set', rng.random(), long_float(rng) if c < 0.6 else rng.choice(SHORT_OPERANDS)
                             if c < 0.9 else rng.choice(INEXACT_OTHER)))
            else:
                plan.append(('eval', rng.random(), None))
        for ext in ('yml', 'json', 'pkl'):
            case = dict(call='persist-digits17', workbook=desc, args=[ext, 'plain', 'same'], variant=variant)
            if written:
                case['written'] = written        # set_value(addr, value) before the save
            if trim:
                case['trim_graph'] = trim
            ctx.count(('digits17', k, ext), kind=f'digits17:{variant}:{ext}', sample=case if ext == 'yml' else None)
            stem = os.path.join(ctx.work, f'd{k}')
            orig = ExcelCompiler(excel=build())
            if trim:
                try:
                    orig.trim_graph(*trim)
                except Exception:      # noqa: BLE001  (a formula that raises while it is frozen: C08's business)
                    ctx.count(('digits17-skip', k, ext), kind='digits17:skip:trim_graph raises', nontrivial=False)
                    continue
            else:
                for a, _, _ in desc:
                    quiet_evaluate(orig, a)
            for a, v in written:
                orig.set_value(a, v)
            addrs = [a for a in orig.cell_map if ':' not in a]
            for a in addrs:
                quiet_evaluate(orig, a)
            try:
                orig.to_file(stem, file_types=(ext,))
                loaded = ExcelCompiler.from_file(stem + '.' + ext)
            except Exception as exc:      # noqa: BLE001
                ctx.violation(dict(case, leg='save/load'), f"save/load raises {type(exc).__name__}: {exc}"[:200])
                continue
            finally:
                for f in os.listdir(ctx.work):
                    if f.startswith(f'd{k}.'):
                        os.remove(os.path.join(ctx.work, f))
            for a in addrs:           # both caches complete: the cell maps are comparable cell by cell
                quiet_evaluate(loaded, a)
            # after trim_graph only the declared inputs are written: a write to another surviving constant is outside
            # trim_graph's contract (C08, Open: the original still has the edge constant -> frozen cell and wipes the
            # frozen value, the loaded model has no such edge)
            writable = [a for a in addrs if orig.cell_map[a].formula is None and (trim is None or a in trim[0])]
            readable = [a for a in addrs if orig.cell_map[a].formula is not None] or addrs
            ops = [['set', writable[int(p * len(writable))], v] if kind == 'set' and writable else
                   ['eval', readable[int(p * len(readable))]] for kind, p, v in plan]
            ops += [['eval', a] for a in readable]
            compare_histories(ctx, case, orig, loaded, ops)


SCALARINT0 = ['ruamel.yaml.scalarint.ScalarInt', '0']


def plain_zero(t):
    """a typed observation in which ruamel's ScalarInt 0 reads as the int 0"""
    if isinstance(t, list):
        return ['builtins.int', '0'] if t == SCALARINT0 else [plain_zero(x) for x in t]
    if isinstance(t, dict):
        return {k: plain_zero(v) for k, v in t.items()}
    return t


def zero_constants(comp):
    """addresses of the constant cells of a model that hold the integer 0"""
    return sorted(a for a, c in comp.cell_map.items() if ':' not in a and getattr(c, 'formula', None) is None
                  and type(c.value) is int and c.value == 0)


# repaired in /repo 4c83fb8: no longer a registered predicate (a recurrence is reported)
def _scalarint_zero(case):
    """the saved model has a constant cell holding the integer 0, and the only difference between the observations
    is that the loaded model shows ruamel.yaml's ScalarInt 0 where the original shows the int 0 (decided by the
    stream: diff == 'scalarint-zero' only when the observations are equal once ScalarInt 0 is read as int 0); any
    other difference is NOT matched"""
    return str(case.get('call', '')).startswith('persist-') and case.get('diff') == 'scalarint-zero' and \
        bool(case.get('zero_constants'))


def quiet_evaluate(comp, addr):
    """evaluate for its effect on the cache; a formula that raises (ROUND(1E+16,15) ...) is data here: the history
    compares how it raises on both sides"""
    try:
        comp.evaluate(addr)
    except Exception:      # noqa: BLE001
        pass


def compare_histories(ctx, case, orig, loaded, ops, snapshots=True, numpy_as_float=False, final_snapshot=False):
    """the same history on the original and on the loaded model; after every operation (and before the first):
    repr and exact class of the returned value and (snapshots) of the value of every cell of both cell maps
    (final_snapshot: of the cell maps after the last operation only).  Reports the first difference with the
    history that leads to it.  Call it right after the load: the integer-0 constants of the original are read
    then (finding C03-scalarint-zero: a difference that is only ScalarInt 0 for int 0 is reported under that
    finding and the comparison goes on)."""
    zeros = zero_constants(orig)

    def snap(comp, on=snapshots):
        return {a: typed(c.value, numpy_as_float) for a, c in comp.cell_map.items()} if on else {}

    def observe(comp, op):
        try:
            if op[0] == 'eval':
                r = ['ok', typed(comp.evaluate(op[1]), numpy_as_float)]
            else:
                comp.set_value(op[1], op[2])
                r = ['ok', None]
        except Exception as exc:      # noqa: BLE001
            r = ['raise', type(exc).__name__]
        return r, snap(comp)
    for j in range(-1, len(ops)):
        if j < 0:       # right after the load
            rw = rg = None
            sw, sg = snap(orig), snap(loaded)
        else:
            (rw, sw), (rg, sg) = observe(orig, ops[j]), observe(loaded, ops[j])
        if final_snapshot and j == len(ops) - 1:
            sw, sg = snap(orig, True), snap(loaded, True)
        hist = ops[:j + 1]
        if rw != rg:
            if zeros and plain_zero(rg) == rw:
                ctx.violation(dict(case, history=hist, diff='scalarint-zero', zero_constants=zeros),
                              "the loaded model answers a history differently from the original (class of the value)",
                              impl=rg, expected=rw)
            else:
                ctx.violation(dict(case, history=hist),
                              "the loaded model answers a history differently from the original (repr / class of the value)",
                              impl=rg, expected=rw)
                return False
        if sw != sg:
            bad = sorted(set(sw) ^ set(sg)) or [a for a in sw if sw[a] != sg[a]]
            other = [a for a in bad if not (zeros and a in sw and plain_zero(sg.get(a)) == sw[a])]
            if not other:
                ctx.violation(dict(case, history=hist, cell=bad[0], diff='scalarint-zero', zero_constants=zeros),
                              "a cell of the loaded model holds another value (class) than the same cell of the original",
                              impl=sg.get(bad[0]), expected=sw.get(bad[0]))
            else:
                ctx.violation(dict(case, history=hist, cell=other[0]),
                              "a cell of the loaded model holds another value (repr / class) than the same cell of the original",
                              impl=sg.get(other[0]), expected=sw.get(other[0]))
                return False
    return True


# ------------------------------------------------------------------ formula results that are numpy scalars
NUMPY_FORMS = [
    lambda n, i, r1, r2: f'=SUMPRODUCT(A{r1}:A{r2},B{r1}:B{r2})',
    lambda n, i, r1, r2: f'=SUMPRODUCT(A{r1}:A{r2},A{r1}:A{r2})',
    lambda n, i, r1, r2: f'=SLOPE(B1:B{n},A1:A{n})',
    lambda n, i, r1, r2: f'=INTERCEPT(B1:B{n},A1:A{n})',
    lambda n, i, r1, r2: f'=FORECAST(A{i},B1:B{n},A1:A{n})',
    lambda n, i, r1, r2: f'=FORECAST({i + 4},B1:B{n},A1:A{n})',
    lambda n, i, r1, r2: f'=INDEX(LINEST(B1:B{n},A1:A{n}),{1 + i % 2})',
    lambda n, i, r1, r2: f'=FACTDOUBLE(A{i})',
    lambda n, i, r1, r2: f'=TREND(B1:B{n},A1:A{n})',
]
PLAIN_FORMS = [
    lambda n, i, r1, r2: f'=A{i}*2',
    lambda n, i, r1, r2: f'=A{i}+B{r1}',
    lambda n, i, r1, r2: f'=SUM(B{r1}:B{r2})',
]


def numpy_results_stream(ctx, ExcelCompiler):
    """Implementation against implementation.  A1:An / B1:Bn inputs (quantities, prices); C1:Cm formulas, most of
    them returning NUMPY scalars (SUMPRODUCT, SLOPE, INTERCEPT, FORECAST, INDEX(LINEST()), FACTDOUBLE, TREND); column
    D reads column C THROUGH A RANGE (MAX/MIN/SUM/AVERAGE/COUNT/INDEX of C1:Cm or a part of it) or directly, E1
    adds two of them.  Everything is evaluated, saved as yml, json and pkl, loaded; the post-load history BEGINS
    WITH WRITES to the inputs and then evaluates mostly the downstream cells (D, E) — nothing is evaluated between
    load and the first write, so what from_file left in the cache is what the writes have to invalidate.  Compared
    after every operation: repr and exact class of the returned value; at the end every cell is evaluated on both
    sides and the complete cell maps are compared."""
    rng = ctx.rng
    S = wbgen.SHEET
    numbers = [1, 2, 3, 4, 5, 7, 10, 0, 0.25, 0.5, 1.5, 2.5, 4, 0.1, 12, -2]
    for k in range(ctx.n(24, 300)):
        n = rng.randrange(3, 6)
        qty = [rng.choice([1, 2, 3, 4, 5, 7, 10]) for _ in range(n)]
        price = [rng.choice(numbers) for _ in range(n)]
        m = rng.randrange(3, 6)
        mid = []
        for r in range(m):
            r1 = rng.randrange(1, n)
            r2 = rng.randrange(r1 + 1, n + 1)
            forms = NUMPY_FORMS if (r == 0 or rng.random() < 0.65) else PLAIN_FORMS
            mid.append(rng.choice(forms)(n, rng.randrange(1, n + 1), r1, r2))
        rng.shuffle(mid)
        down = []
        for _ in range(rng.randrange(2, 5)):
            r1 = rng.randrange(1, m)
            r2 = rng.randrange(r1 + 1, m + 1)
            if rng.random() < 0.5:
                r1, r2 = 1, m
            c = rng.randrange(8)
            down.append([f'=MAX(C{r1}:C{r2})', f'=SUM(C{r1}:C{r2})/2', f'=MIN(C{r1}:C{r2})', f'=AVERAGE(C{r1}:C{r2})',
                         f'=COUNT(C{r1}:C{r2})', f'=INDEX(C{r1}:C{r2},{rng.randrange(1, r2 - r1 + 2)})',
                         f'=C{r1}+C{r2}', f'=IF(MAX(C{r1}:C{r2})>10,C{r1},C{r2})'][c])
        down[0] = rng.choice([f'=MAX(C1:C{m})', f'=SUM(C1:C{m})/2', f'=MIN(C1:C{m})'])
        last = [f'=D1+D{len(down)}']
        cells = [(f'A{r}', v, None) for r, v in enumerate(qty, 1)] + [(f'B{r}', v, None) for r, v in enumerate(price, 1)] + \
            [(f'C{r}', None, t) for r, t in enumerate(mid, 1)] + [(f'D{r}', None, t) for r, t in enumerate(down, 1)] + \
            [('E1', None, last[0])]
        desc = [(f'{S}!{a}', v, t) for a, v, t in cells]
        inputs = [a for a, _, t in desc if t is None]
        middle = [a for a, _, t in desc if a.startswith(f'{S}!C')]
        outputs = [a for a, _, t in desc if t is not None and a not in middle]

        def build():
            import openpyxl
            owb = openpyxl.Workbook()
            ws = owb.active
            ws.title = S
            for a, v, t in cells:
                ws[a] = v if t is None else t
            return owb
        ops = []
        for step in range(rng.randrange(8, 13)):
            head = step < 2 or (step == 2 and rng.random() < 0.5)      # the history begins with writes
            if head or rng.random() < 0.4:
                ops.append(['set', rng.choice(inputs), rng.choice(numbers)])
            else:
                ops.append(['eval', rng.choice(outputs) if rng.random() < 0.8 else rng.choice(middle)])
            if step == 2:
                ops.append(['eval', outputs[0]])
        ops += [['eval', a] for a in outputs + middle]
        for ext in ('yml', 'json', 'pkl'):
            case = dict(call='persist-numpy-results', workbook=desc, args=[ext, 'plain', 'same'])
            ctx.count(('numpy-results', k, ext), kind=f'numpy-results:{ext}', sample=case if ext == 'pkl' else None)
            stem = os.path.join(ctx.work, f'n{k}')
            orig = ExcelCompiler(excel=build())
            for a, _, _ in desc:
                quiet_evaluate(orig, a)
            import numpy as np
            if ext == 'yml' and not any(isinstance(c.value, np.generic) for c in orig.cell_map.values()):
                ctx.count(('numpy-results-none', k), kind='numpy-results:no numpy scalar among the results',
                          nontrivial=False)
            try:
                orig.to_file(stem, file_types=(ext,))
                loaded = ExcelCompiler.from_file(stem + '.' + ext)
            except Exception as exc:      # noqa: BLE001
                ctx.violation(dict(case, leg='save/load'), f"save/load raises {type(exc).__name__}: {exc}"[:200])
                continue
            finally:
                for f in os.listdir(ctx.work):
                    if f.startswith(f'n{k}.'):
                        os.remove(os.path.join(ctx.work, f))
            compare_histories(ctx, case, orig, loaded, ops, snapshots=False, final_snapshot=True)


# ------------------------------------------------------------------ iterative-calculation settings
# (iterateCount, iterateDelta) spelled out in the workbook: None = left out (what Excel writes for its defaults; what
# a workbook that does not mention iterative calculation has when cycles=True is forced on it)
ITER_SETTINGS = [('forced', None, None), ('iterate-only', None, None), ('count-only', 300, None),
                 ('delta-only', None, 0.5), ('explicit', 100, 0.001), ('explicit', 150, 0.125), ('explicit', 7, 0.01),
                 ('delta-only', None, 0.0001), ('count-only', 20000, None), ('explicit', 30, 0.001)]


def _gen_iterative(rng):
    """Sheet S: inputs B1 (step), B2; circular formulas that do NOT settle within 100 passes / a change of 0.001 - a
    counter A2 = A2+B1 (never converges), a slowly converging cell A1 = A1*r+B2, a two-cell cycle A3 = A4*r+B1,
    A4 = A3+1 - and an ordinary dependant A5 (no ranges: C06-range-cached-forever).  {coord: content}"""
    r = rng.choice([0.5, 0.75, 0.875, 0.9375])
    cells = {'B1': rng.choice([1, 2, 3, 0.5]), 'B2': rng.choice([1, 2, 5, 10])}
    cells['A1'] = f'=A1*{r}+B2'
    cells['A2'] = rng.choice(['=A2+B1', '=A2+B1', '=A2+B1*2', '=B1+A2+1'])
    if rng.random() < 0.4:
        cells['A3'] = f'=A4*{rng.choice([0.5, 0.75])}+B1'
        cells['A4'] = '=A3+1'
    if rng.random() < 0.5:
        cells['A5'] = rng.choice(['=A1+1', '=A1*2', '=A1+B2'])
    return cells


def iterative_settings_stream(ctx, ExcelCompiler):
    """Iterative models x how the workbook spells the iteration settings (cycles=True forced on a plain workbook;
    iterate on without iterateCount / iterateDelta; one of the two; both) x in-memory workbook / .xlsx file x yml,
    json, pkl.  Oracle: (1) `cycles` of the loaded model equals the original's EXACTLY, None entries included (a
    missing setting is not replaced by a default: evaluation falls back to 10000 passes / 0.01 only when asked);
    (2) a save of the loaded model writes the settings the original wrote; (3) behaviour, like with like: the original
    (before the save) and the loaded model get the same warm-up (every formula cell evaluated twice, not compared:
    finding C03-iterative-history-dependence is about first uses), every formula cell of both is then written to
    the same start value, and the same history of set_value on the inputs and evaluate of the circular cells is run
    on both - every returned value equal (a counter shows the number of passes, a slowly converging cell the
    tolerance)."""
    import openpyxl
    from openpyxl.workbook.properties import CalcProperties
    from harness.common import jsonable
    rng = ctx.rng
    variants = list(ITER_SETTINGS)
    n = ctx.n(15, 90)
    for k in range(n):
        # every spelling once, then mostly the left-out settings
        name, count, delta = variants[k] if k < len(variants) else rng.choice(variants[:2] + variants[:4])
        ext = ['yml', 'json', 'pkl'][(k + k // 3) % 3]
        source = 'file' if k % 4 == 3 else 'memory'
        cells = _gen_iterative(rng)
        formulas = sorted(a for a, v in cells.items() if isinstance(v, str))
        desc = [(f'S!{a}', None, v) if a in formulas else (f'S!{a}', v, None) for a, v in sorted(cells.items())]
        case = dict(call='persist-iterative', workbook=desc, args=[ext, name, source],
                    settings=dict(iterateCount=count, iterateDelta=delta))
        ctx.count(('iterative', k), kind=f'iterative-settings:{name}:{ext}', sample=case)
        stem = os.path.join(ctx.work, f'it{k}_m')

        def compile_():
            owb = openpyxl.Workbook()
            ws = owb.active
            ws.title = wbgen.SHEET
            for a, v in cells.items():
                ws[a] = v
            if name != 'forced':
                owb.calculation = CalcProperties(iterate=True, iterateCount=count, iterateDelta=delta)
            kw = dict(cycles=True) if name == 'forced' else {}
            if source == 'file':
                owb.save(stem + '.xlsx')
                return ExcelCompiler(filename=stem + '.xlsx', **kw)
            return ExcelCompiler(excel=owb, **kw)

        def warm(comp):
            for a in formulas:
                for _ in range(2):
                    quiet_evaluate(comp, f'S!{a}')
        try:
            orig = compile_()
            want_cycles = dict(iterations=count, tolerance=delta)
            if orig.cycles != want_cycles:
                ctx.violation(dict(case, leg='compile'), "the compiled model does not carry the iteration settings the "
                              "workbook spells out (None where it leaves one out)", impl=jsonable(orig.cycles),
                              expected=want_cycles)
            warm(orig)
            orig.to_file(stem, file_types=(ext,))
            doc0 = None
            if ext != 'pkl':
                doc0 = parse_doc(stem + '.' + ext, ext)
            loaded = ExcelCompiler.from_file(stem + '.' + ext)
        except Exception as exc:      # noqa: BLE001
            ctx.violation(dict(case, leg='save/load'), f"compile/save/load raises {type(exc).__name__}: {exc}"[:200])
            continue
        try:
            # (1) the settings object
            same_settings = isinstance(loaded.cycles, dict) and dict(loaded.cycles) == dict(orig.cycles) and all(
                type(loaded.cycles[key]) is type(orig.cycles[key]) or isinstance(loaded.cycles[key], (int, float))
                and not isinstance(loaded.cycles[key], bool) and orig.cycles[key] is not None
                for key in ('iterations', 'tolerance'))
            if not same_settings:
                ctx.violation(dict(case, leg='settings'), "iteration settings do not survive the trip",
                              impl=jsonable(loaded.cycles), expected=jsonable(orig.cycles))
            # (2) what a save of the loaded model writes (both text formats)
            for ext2 in ('yml', 'json'):
                loaded.to_file(stem + '_again', file_types=(ext2,))
                doc2 = parse_doc(stem + '_again.' + ext2, ext2)
                got = dict(doc2['cycles']) if hasattr(doc2.get('cycles'), 'keys') else doc2.get('cycles')
                if got != dict(orig.cycles) or (doc0 is not None and ext2 == ext and dict(doc0['cycles']) != got):
                    ctx.violation(dict(case, leg='resave', format=ext2),
                                  "a save of the loaded model does not write the iteration settings of the original",
                                  impl=jsonable(got), expected=jsonable(orig.cycles))
            # (3) behaviour, like with like: the saved document holds no values of formula cells, so the loaded model
            # starts where a fresh compile starts; it gets the warm-up the original had before the save (first uses
            # are behind both), then every formula cell of both models is written to the same start value
            warm(loaded)
            ops = [['set', f'S!{a}', rng.choice([0, 1, 2, -3, 0.5])] for a in formulas]
            for _ in range(rng.randrange(2, 4)):
                ops.append(['set', 'S!B1', rng.choice([1, 2, 3, 0.5, -1, 4])])
                if rng.random() < 0.6:
                    ops.append(['set', 'S!B2', rng.choice([1, 2, 5, 10, -3])])
                for a in rng.sample(formulas, min(len(formulas), rng.randrange(1, 3))):
                    ops += [['eval', f'S!{a}'], ['eval', f'S!{a}']]
            want, got = run_ops(orig, ops), run_ops(loaded, ops)
            if jsonable(want) != jsonable(got):
                first = next(i for i, (a, b) in enumerate(zip(jsonable(got), jsonable(want))) if a != b)
                ctx.violation(dict(case, leg='behaviour', ops=ops[:first + 1]),
                              "after an identical warm-up the loaded iterative model answers the same operations "
                              "differently from the original", impl=got[first], expected=want[first])
        except Exception as exc:      # noqa: BLE001
            ctx.violation(dict(case, leg='exception'), f"{type(exc).__name__}: {exc}"[:200])
        finally:
            for f in os.listdir(ctx.work):
                if f.startswith(f'it{k}_m'):
                    os.remove(os.path.join(ctx.work, f))


# ------------------------------------------------------------------ every awkward text of the pool, every format
def awkward_text_stream(ctx, ExcelCompiler):
    """Deterministic: for every text of CONTENT_POOL one workbook holding it as a constant (A1), read by =A1&"x",
    =LEN(A1), =A1=A3 against a second copy (A3) and - where the format has no known finding for the text - a formula
    whose TEXT LITERAL is that text; saved in yml, json and pkl, loaded, every cell evaluated on both."""
    from harness.common import jsonable
    texts = [v for v in CONTENT_POOL if isinstance(v, str) and v != '' and not v.startswith('=')]
    for ti, text in enumerate(texts):
        for ext in ('yml', 'json', 'pkl'):
            wb = wbgen.WB()
            a1 = wb.add_input(text)
            wb.add_formula('=A1&"x"', [a1], [3, 5, [0, 0], [2, 120]])
            a3 = wb.add_input(text)
            wb.add_formula('=A1=A3', [a1, a3], [3, 7, [0, 0], [0, 1]])
            wb.add_formula('=LEN(A1)', [a1], [0])
            known = ('\\x85' in text and ext in ('yml', 'pkl')) or (ext == 'json' and any(ord(ch) > 0xFFFF for ch in text))
            if not known:
                lit = text.replace('"', '""')
                wb.add_formula(f'="{lit}"&A1', [a1], [0])
            desc = [(x['addr'], x.get('value'), x.get('text')) for x in wb.nodes]
            case = dict(call='persist', workbook=desc, args=[ext, 'plain', 'same'], stream='awkward-text')
            ctx.count(('awkward', ti, ext), kind=f'awkward-text:{ext}')
            stem = os.path.join(ctx.work, f'awk{ti}_m')
            try:
                orig = ExcelCompiler(excel=wb.to_openpyxl())
                ops = [['eval', wb.nodes[i]['addr']] for i in wb.cells()]
                want = run_ops(orig, ops)
                orig.to_file(stem, file_types=(ext,))
                try:
                    loaded = ExcelCompiler.from_file(stem + '.' + ext)
                except Exception as exc:      # noqa: BLE001
                    ctx.violation(dict(case, leg='load'), f"from_file raises {type(exc).__name__}: {exc}"[:200])
                    continue
                got = run_ops(loaded, ops)
                if jsonable(got) != jsonable(want):
                    first = next(i for i, (a, b) in enumerate(zip(jsonable(got), jsonable(want))) if a != b)
                    ctx.violation(dict(case, history=ops[:first + 1]),
                                  "the loaded model answers a history differently from the original",
                                  impl=got[first], expected=want[first])
            except Exception as exc:      # noqa: BLE001
                ctx.violation(dict(case, leg='save'), f"build/save raises {type(exc).__name__}: {exc}"[:200])
            finally:
                for f in os.listdir(ctx.work):
                    if f.startswith(f'awk{ti}_m'):
                        os.remove(os.path.join(ctx.work, f))


# ------------------------------------------------------------------ post-load histories that BUILD new nodes
def _save_load(ctx, ExcelCompiler, orig, stem, ext):
    """to_file + from_file through one format; the files are removed (a stale .yml/.pkl pair of the same stem would
    make to_file skip the pickle)"""
    try:
        orig.to_file(stem, file_types=(ext,))
        return ExcelCompiler.from_file(stem + '.' + ext)
    finally:
        base = os.path.basename(stem)
        for f in os.listdir(ctx.work):
            if f.startswith(base + '.'):
                os.remove(os.path.join(ctx.work, f))


def _fresh_process(ctx, ExcelCompiler, orig, stem, ext, ops):
    """the history run by load_driver.py in a new interpreter on the saved file: (trace | None, error text)"""
    from harness.common import jsonable
    spec, outp = stem + '_spec.json', stem + '_out.json'
    try:
        orig.to_file(stem, file_types=(ext,))
        json.dump(dict(file=stem + '.' + ext, ops=jsonable(ops)), open(spec, 'w'))
        p = subprocess.run([PY, os.path.join(ctx.work, 'load_driver.py'), spec, outp], env=impl_env(),
                           capture_output=True, text=True, timeout=120)
        if p.returncode != 0:
            return None, p.stderr[-300:]
        return json.load(open(outp))['trace'], ''
    finally:
        base = os.path.basename(stem)
        for f in os.listdir(ctx.work):
            if f.startswith(base + '.') or f.startswith(base + '_spec') or f.startswith(base + '_out'):
                os.remove(os.path.join(ctx.work, f))


def _first_diff(ctx, case, ops, got, want, what):
    from harness.common import jsonable
    g, w = jsonable(got), jsonable(want)
    if g == w:
        return True
    first = next((i for i, (a, b) in enumerate(zip(g, w)) if a != b), min(len(g), len(w)))
    ctx.violation(dict(case, history=ops[:first + 1]), what,
                  impl=g[first] if first < len(g) else None, expected=w[first] if first < len(w) else None)
    return False


def new_nodes_stream(ctx, ExcelCompiler):
    """Implementation against implementation.  A block of constants A1:B(n) or A1:C(n) (complete: every cell of it is
    in the saved model), an index cell E1, and formula cells in column G below the block whose evaluation needs a
    node that exists only at RUN TIME: the range intersection operator (bounded x bounded, x whole rows, x a whole
    column: `=SUM(A1:A4 A2:B3)`, `=MAX(A1:B6 3:4)`, `=A1:A6 3:3`), whole-formula OFFSET / INDIRECT and
    INDEX(OFFSET(...)) steered by E1, next to ordinary range consumers and cells chained on them.  Before the save
    everything is evaluated; in half of the cases a constant is then written WITHOUT evaluating anything again (the
    formula cells below it are saved unevaluated).  Post-load history on the original and on the model loaded from
    yml, json and pkl (pkl also in a fresh process, sampled): evaluate of the formula cells, of SUB-ranges of saved
    ranges (`S!A3:A4`, 2-D parts of the block), of SUPER-ranges reaching into the blank cells around the block, of
    blank cells that were never part of the model, writes to block cells, to E1 (the computed references move) and
    to a blank cell outside the saved model.  Every answer (value or exception class) equal."""
    import openpyxl
    rng = ctx.rng
    S = wbgen.SHEET
    nproc = 0
    for k in range(ctx.n(18, 200)):
        n = rng.randrange(4, 8)
        width = rng.choice([2, 2, 3])
        cols = 'ABC'[:width]
        last = cols[-1]
        block = {f'{c}{r}': rng.choice([1, 2, 3, 5, 7, 10, 12, 100, -4, 20, 0.5]) for c in cols for r in range(1, n + 1)}
        e1 = rng.randrange(1, n)

        def two_rows():
            r1 = rng.randrange(1, n)
            return r1, rng.randrange(r1 + 1, n + 1)

        operands = []                   # the operand ranges of every intersection of the workbook

        def intersect():
            """two ranges of the block with a common part, the common part is not one of the two"""
            r1, r2 = two_rows()
            r3 = rng.randrange(1, r2 + 1)
            r4 = rng.randrange(max(r1, r3), n + 1)
            c = rng.choice(cols)
            return both(f'{c}{r1}:{c}{r2}', f'A{r3}:{last}{r4}')

        def both(u, v):
            operands.extend(x for x in (f'{S}!{u}', f'{S}!{v}') if x not in operands)
            return f'{u} {v}'
        forms = []
        for _ in range(rng.randrange(3, 6)):
            r1, r2 = two_rows()
            c = rng.choice(cols)
            tc = rng.randrange(1, width)            # computed references point into the columns right of A
            agg = rng.choice(['SUM', 'SUM', 'MAX', 'MIN', 'COUNT', 'AVERAGE'])
            forms.append(rng.choice([
                lambda: f'={agg}({intersect()})',
                lambda: f'={agg}({intersect()})',
                lambda: f'={agg}({both(f"A1:{last}{n}", f"{r1}:{r2}")})',
                lambda: f'={agg}({both(f"A{r1}:{last}{r2}", f"{c}:{c}")})',
                lambda: f'={both(f"{c}1:{c}{n}", f"{r1}:{r1}")}',
                lambda: f'=OFFSET(A1,E1,{tc})',
                lambda: f'=INDIRECT("{cols[tc]}"&E1)',
                lambda: f'=INDEX(OFFSET(A1,{rng.randrange(0, 2)},1,{n - 1},{width - 1}),E1,{rng.randrange(1, width)})',
                lambda: f'=IF(E1>{rng.randrange(1, n)},{agg}({intersect()}),{c}{r1})',
                lambda: f'={agg}({c}{r1}:{c}{r2})',
            ])())
        if not operands:
            forms[0] = f'=SUM({intersect()})'
        g0 = n + 2                      # formulas live below the block: no whole row of the block contains its reader
        cells = dict(block)
        cells['E1'] = e1
        for j, t in enumerate(forms):
            cells[f'G{g0 + j}'] = t
        for j in range(rng.randrange(1, 3)):         # cells chained on the run-time cells
            a, b = rng.randrange(len(forms)), rng.randrange(len(forms))
            cells[f'H{g0 + j}'] = rng.choice([f'=G{g0 + a}*2', f'=G{g0 + a}+G{g0 + b}', f'=SUM(G{g0}:G{g0 + len(forms) - 1})'])
        formulas = [f'{S}!{a}' for a, v in cells.items() if isinstance(v, str)]
        desc = [(f'{S}!{a}', None, v) if isinstance(v, str) else (f'{S}!{a}', v, None) for a, v in cells.items()]
        whole = f'{S}!A1:{last}{n}'
        unevaluated = [f'{S}!A{rng.randrange(1, n + 1)}', rng.choice([3, 8, 11, 40])] if k % 2 else None

        def build():
            owb = openpyxl.Workbook()
            ws = owb.active
            ws.title = S
            for a, v in cells.items():
                ws[a] = v
            return owb

        def original():
            comp = ExcelCompiler(excel=build())
            quiet_evaluate(comp, whole)
            for a in formulas:
                quiet_evaluate(comp, a)
            if unevaluated:
                comp.set_value(*unevaluated)
                for a in operands:
                    quiet_evaluate(comp, a)
            return comp
        blank_col = 'ABCD'[width]
        ops = []
        for _ in range(rng.randrange(8, 13)):
            c = rng.random()
            r1, r2 = two_rows()
            col = rng.choice(cols)
            if c < 0.3:
                ops.append(['eval', rng.choice(formulas)])
            elif c < 0.45:
                ops.append(['eval', f'{S}!{col}{r1}:{col}{r2}'])                       # part of a saved column
            elif c < 0.55:
                ops.append(['eval', f'{S}!A{r1}:{last}{r2}'])                         # 2-D part of the block
            elif c < 0.65:
                ops.append(['eval', f'{S}!A{r1}:{blank_col}{n + 1}'])                  # reaches into blank cells
            elif c < 0.7:
                ops.append(['eval', f'{S}!{blank_col}{rng.randrange(1, n + 2)}'])       # a blank cell, never in the model
            elif c < 0.85:
                # writes go to column A (no computed reference points there: C03-reference-target-stale) and are
                # followed by a look at every operand range of an intersection (C03-intersection-operand-stale)
                ops.append(['set', f'{S}!A{rng.randrange(1, n + 1)}', rng.choice([1, 4, 6, 9, 30, 2.5])])
                ops += [['eval', a] for a in operands]
            elif c < 0.95:
                ops.append(['set', f'{S}!E1', rng.randrange(1, n)])
            else:
                ops.append(['set', f'{S}!{blank_col}{rng.randrange(1, n + 1)}', rng.choice([5, 'x'])])
        ops += [['eval', a] for a in formulas] + [['eval', f'{S}!A2:A3'], ['eval', f'{S}!A1:{blank_col}{n + 1}']]
        for ext in ('yml', 'json', 'pkl'):
            places = ['same']
            if ext == 'pkl' and nproc < ctx.n(4, 30):
                nproc += 1
                places.append('process')
            for place in places:
                case = dict(call='persist-new-nodes', workbook=desc, args=[ext, 'plain', place])
                if unevaluated:
                    case['written_before_save'] = unevaluated
                ctx.count(('new-nodes', k, ext, place), kind=f'new-nodes:{ext}:{place}',
                          sample=case if ext == 'pkl' else None)
                stem = os.path.join(ctx.work, f'nn{k}_{ext}_m')
                try:
                    orig = original()
                    if place == 'same':
                        got = run_ops(_save_load(ctx, ExcelCompiler, orig, stem, ext), ops)
                    else:
                        got, err = _fresh_process(ctx, ExcelCompiler, orig, stem, ext, ops)
                        if got is None:
                            ctx.violation(dict(case, leg='load'), ("from_file in a fresh process fails: " + err)[:400])
                            continue
                except Exception as exc:      # noqa: BLE001
                    ctx.violation(dict(case, leg='save/load'), f"build/save/load raises {type(exc).__name__}: {exc}"[:200])
                    continue
                _first_diff(ctx, case, ops, got, run_ops(orig, ops),
                            "the loaded model answers a history that builds new nodes differently from the original")


# ------------------------------------------------------------------ ranges of more than 100 cells
def big_range_stream(ctx, ExcelCompiler):
    """Implementation against implementation.  A block of 60-300 constants (one column, or 2-4 columns; most blocks
    have more than 100 cells, some stay just below), consumers F1.. = SUM/MAX/MIN/COUNT/AVERAGE of the whole block
    and of parts of it (a part of more than 100 cells too when the block allows), a cell H1 that reads the
    consumers THROUGH A RANGE (=SUM(F1:F3): the consumers are members of another referenced range, so they are
    computed while the file is loaded) and H2 that reads one directly.  Everything is evaluated, saved as yml, json
    and pkl, loaded in the same process (pkl also in a fresh process); the post-load history writes members of the
    big ranges and reads H1, H2, the consumers and now and then the block itself - in half of the cases it BEGINS
    with a write (nothing evaluated between load and first write).  Every answer equal to the original's."""
    import openpyxl
    rng = ctx.rng
    S = wbgen.SHEET
    for k in range(ctx.n(6, 80)):
        width = rng.choice([1, 1, 2, 3, 4]) if k % 4 else 1
        cells_wanted = rng.randrange(101, 301 if ctx.tier == 'thorough' else 241) if k % 4 != 3 else rng.randrange(60, 101)
        height = max(2, -(-cells_wanted // width))
        cols = 'ABCD'[:width]
        last = cols[-1]
        block = {f'{c}{r}': rng.randrange(1, 50) for c in cols for r in range(1, height + 1)}
        consumers = [f'={rng.choice(["SUM", "SUM", "MAX", "AVERAGE"])}(A1:{last}{height})']
        for _ in range(rng.randrange(1, 4)):
            r1 = rng.randrange(1, max(2, height // 3))
            r2 = rng.randrange(max(r1 + 1, height // 2), height + 1)
            c1 = rng.choice(cols)
            c2 = rng.choice([c for c in cols if c >= c1])
            consumers.append(f'={rng.choice(["SUM", "SUM", "MAX", "MIN", "COUNT", "AVERAGE"])}({c1}{r1}:{c2}{r2})')
        m = len(consumers)
        cells = dict(block)
        for j, t in enumerate(consumers, 1):
            cells[f'F{j}'] = t
        cells['H1'] = f'={rng.choice(["SUM", "MAX", "SUM"])}(F1:F{m})'
        cells['H2'] = f'=F{rng.randrange(1, m + 1)}*2+F1'
        outputs = [f'{S}!H1', f'{S}!H2'] + [f'{S}!F{j}' for j in range(1, m + 1)]
        desc = dict(block=f'{S}!A1:{last}{height}', cells=height * width,
                    formulas={a: v for a, v in cells.items() if isinstance(v, str)})

        def original():
            owb = openpyxl.Workbook()
            ws = owb.active
            ws.title = S
            for a, v in cells.items():
                ws[a] = v
            comp = ExcelCompiler(excel=owb)
            for a in outputs:
                comp.evaluate(a)
            return comp
        ops = [] if k % 2 else [['eval', rng.choice(outputs)]]
        for step in range(rng.randrange(3, 6)):
            for _ in range(rng.randrange(1, 3)):
                ops.append(['set', f'{S}!{rng.choice(cols)}{rng.randrange(1, height + 1)}', rng.randrange(100, 2000)])
            ops.append(['eval', f'{S}!H1'])
            c = rng.random()
            if c < 0.5:
                ops.append(['eval', rng.choice(outputs)])
            elif c < 0.65:
                ops.append(['eval', f'{S}!A1:{last}{height}'])
            elif c < 0.8:
                r1 = rng.randrange(1, height)
                ops.append(['eval', f'{S}!A{r1}:A{min(height, r1 + 3)}'])
        ops += [['eval', a] for a in outputs]
        for ext, place in (('yml', 'same'), ('json', 'same'), ('pkl', 'same'), ('pkl', 'process')):
            case = dict(call='persist-big-range', workbook=desc, args=[ext, 'plain', place])
            ctx.count(('big-range', k, ext, place), kind=f'big-range:{ext}:{place}:' +
                      ('more than 100 cells' if height * width > 100 else 'up to 100 cells'),
                      sample=case if ext == 'pkl' else None)
            stem = os.path.join(ctx.work, f'br{k}_{ext}_m')
            try:
                orig = original()
                if place == 'same':
                    got = run_ops(_save_load(ctx, ExcelCompiler, orig, stem, ext), ops)
                else:
                    got, err = _fresh_process(ctx, ExcelCompiler, orig, stem, ext, ops)
                    if got is None:
                        ctx.violation(dict(case, leg='load'), ("from_file in a fresh process fails: " + err)[:400])
                        continue
            except Exception as exc:      # noqa: BLE001
                ctx.violation(dict(case, leg='save/load'), f"build/save/load raises {type(exc).__name__}: {exc}"[:200])
                continue
            _first_diff(ctx, case, ops, got, run_ops(orig, ops),
                        "the loaded model answers a history of writes to members of a big range differently from the original")


# ------------------------------------------------------------------ two defects of the unchanged tree the stream above steps around
@known_predicate('C03-intersection-operand-stale')
def _intersection_operand_stale(case):
    """the deterministic cases of stale_operand_cases with an intersection formula (nothing else is matched)"""
    return case.get('call') == 'persist-intersection-operand-stale'


@known_predicate('C03-reference-target-stale')
def _reference_target_stale(case):
    """the deterministic cases of stale_operand_cases with a whole-formula OFFSET / INDIRECT (nothing else)"""
    return case.get('call') == 'persist-reference-target-stale'


def stale_operand_cases(ctx, ExcelCompiler):
    """Deterministic.  Two ways in which set_value is not propagated on the unchanged tree, each of which makes the
    original and the loaded model answer the same history differently (what is cached differs between them):
    (1) the operand ranges of an intersection are read through _REF_ only, so after a first write they stay None and
    _reset stops there: the next write to a member does not reach the formula; (2) a whole-formula OFFSET / INDIRECT
    has no edge from the cell it points to.  new_nodes_stream keeps its histories clear of both (writes to column A
    are followed by a look at every operand range; computed references point right of column A); these cases run
    into them on purpose, in every format."""
    import openpyxl
    S = wbgen.SHEET
    shapes = [
        ('persist-intersection-operand-stale', '=SUM(A1:A4 A2:B3)', [f'{S}!A2', 20],
         [['eval', f'{S}!D1'], ['set', f'{S}!A3', 30], ['eval', f'{S}!D1']]),
        ('persist-reference-target-stale', '=OFFSET(A1,E1,1)', None, [['set', f'{S}!B3', 7], ['eval', f'{S}!D1']]),
        ('persist-reference-target-stale', '=INDIRECT("B"&E1)', None, [['set', f'{S}!B2', 7], ['eval', f'{S}!D1']]),
    ]
    for call, text, before, ops in shapes:
        cells = {f'{c}{r}': r * (1 if c == 'A' else 100) for c in 'AB' for r in range(1, 5)}
        cells.update(E1=2, D1=text)
        desc = [(f'{S}!{a}', None, v) if isinstance(v, str) else (f'{S}!{a}', v, None) for a, v in cells.items()]
        for ext in ('yml', 'json', 'pkl'):
            case = dict(call=call, workbook=desc, args=[ext, 'plain', 'same'])
            if before:
                case['written_before_save'] = before
            ctx.count((call, text, ext), kind=f'{call}:{ext}')
            owb = openpyxl.Workbook()
            ws = owb.active
            ws.title = S
            for a, v in cells.items():
                ws[a] = v
            try:
                orig = ExcelCompiler(excel=owb)
                orig.evaluate(f'{S}!A1:B4')
                orig.evaluate(f'{S}!D1')
                if before:
                    orig.set_value(*before)
                loaded = _save_load(ctx, ExcelCompiler, orig, os.path.join(ctx.work, f'stale_{ext}_m'), ext)
            except Exception as exc:      # noqa: BLE001
                ctx.violation(dict(case, leg='save/load'), f"build/save/load raises {type(exc).__name__}: {exc}"[:200])
                continue
            _first_diff(ctx, case, ops, run_ops(loaded, ops), run_ops(orig, ops),
                        "the loaded model answers a history differently from the original")
