"""C03 — persisted models are observationally equivalent: to_file/from_file
through yml, json and pkl, in the same process, a fresh thread and a fresh
process, iterative or not; deterministic and idempotent saving; settings
survive the trip."""
import hashlib
import json
import os
import shutil
import subprocess
import threading

from harness import wbgen
from harness.common import PY, canon, ensure_impl_on_path, impl_env, known_predicate

GEN_MODULES = ['excelutil', 'aggregates', 'stats']

ASSUMPTIONS = [
    "the byte-level output of ruamel.yaml / json / pickle is not modelled; the theorems are about the saved "
    "content map and the model rebuilt from it (coq/Model/Persist.v), the byte claims are judged by the oracle",
    "fresh-process loads run `/venv/bin/python` with PYTHONPATH=/repo/src on a small driver script written "
    "into the check's work directory",
]

CONTENT_POOL = [1e-7, 1e22, -0.0, 0.1, 123456789.125, 'true', 'null', '~', 'yes', '12', '1e3', '=notformula',
                "it's", 'a: b', '- x', '{a}', '[1]', '#hash', 'multi\nline', 'tab\there', 'é漢😀', ' lead', 'trail ',
                '"q"', "'", '', True, False, None, 0, -3, 2 ** 40]

DRIVER = '''import json, sys
sys.path.insert(0, %(verif)r)
from pycel import ExcelCompiler
from harness.common import canon, jsonable
spec = json.load(open(sys.argv[1]))
comp = ExcelCompiler.from_file(spec["file"])
out = []
for op in spec["ops"]:
    try:
        if op[0] == "eval":
            out.append(["ok", jsonable(canon(comp.evaluate(op[1])))])
        else:
            comp.set_value(op[1], op[2]); out.append(["ok", None])
    except Exception as exc:
        out.append(["raise", type(exc).__name__])
json.dump(dict(trace=out, cycles=jsonable(comp.cycles), filename=comp.filename,
               extra=jsonable({k: v for k, v in (comp.extra_data or {}).items()})), open(sys.argv[2], "w"))
'''


@known_predicate('C03-json-astral-characters')
def _json_astral(case):
    """json format + a text cell with a character beyond U+FFFF"""
    a = case.get('args') or []
    return case.get('call') == 'persist' and a[:1] == ['json'] and any(
        isinstance(v, str) and any(ord(ch) > 0xFFFF for ch in v)
        for (_, v, _) in case.get('workbook', []))


@known_predicate('C03-iterative-history-dependence')
def _iterative_history(case):
    a = case.get('args') or []
    return case.get('call') == 'persist' and a[1:2] == ['cycles'] and 'history' in case


def file_hash(p):
    return hashlib.md5(open(p, 'rb').read()).hexdigest()


def run_ops(comp, ops):
    from harness.common import jsonable
    out = []
    for op in ops:
        try:
            if op[0] == 'eval':
                out.append(['ok', jsonable(canon(comp.evaluate(op[1])))])
            else:
                comp.set_value(op[1], op[2])
                out.append(['ok', None])
        except Exception as exc:      # noqa: BLE001
            out.append(['raise', type(exc).__name__])
    return out


def run(ctx):
    ensure_impl_on_path()
    from pycel import ExcelCompiler
    from harness.common import jsonable, VERIF
    rng = ctx.rng
    os.makedirs(ctx.work, exist_ok=True)
    driver = os.path.join(ctx.work, 'load_driver.py')
    with open(driver, 'w') as f:
        f.write(DRIVER % dict(verif=VERIF))
    ctx.extra['rule'] = (
        "single-sheet DAG workbooks of 5-9 cells (C01 generator) whose input cells draw from a pool of awkward "
        "contents (1e-7, 1e22, -0.0, text that looks like yaml/json/numbers/booleans/formulas, quotes, unicode, "
        "multi-line) x {yml, json, pkl} x {cycles off, on} x {same process, fresh thread, fresh process (sampled)} "
        "x a post-load history of 6-10 evaluate/set_value operations run on the original and on the loaded model; "
        "plus second-save byte identity, save-of-loaded content identity, survival of cycles/filename/extra_data; "
        "distinct = distinct (workbook, format, cycles, place)")
    nwb = ctx.n(70, 800)
    nproc = 0
    for k in range(nwb):
        wb = wbgen.gen_workbook(rng, ncells=rng.randrange(5, 10), pool=wbgen.CLEAN_POOL)
        for i in wb.inputs():
            if rng.random() < 0.5:
                wb.nodes[i]['value'] = rng.choice(CONTENT_POOL)
        desc = [(x['addr'], x.get('value'), x.get('text')) for x in wb.nodes]
        ext = ['yml', 'json', 'pkl'][k % 3]
        cycles = (k // 3) % 4 == 3
        place = ['same', 'thread', 'same', 'process'][(k // 12) % 4] if nproc < ctx.n(12, 80) else \
            ['same', 'thread'][k % 2]
        owb = wb.to_openpyxl()
        if cycles:
            from openpyxl.workbook.properties import CalcProperties
            owb.calculation = CalcProperties(iterate=True, iterateCount=30, iterateDelta=0.001)
        case = dict(call='persist', workbook=desc, args=[ext, 'cycles' if cycles else 'plain', place])
        try:
            orig = ExcelCompiler(excel=owb)
            orig.extra_data = None
            for i in wb.cells():
                orig.evaluate(wb.nodes[i]['addr'])
                if cycles:
                    orig.evaluate(wb.nodes[i]['addr'])
            stem = os.path.join(ctx.work, f'm{k}')
            orig.to_file(stem, file_types=(ext,))
        except Exception as exc:      # noqa: BLE001
            ctx.violation(case, f"build/save raises {type(exc).__name__}: {exc}"[:200])
            continue
        fname = stem + '.' + ext
        ctx.count((k, ext, cycles, place), kind=f'{ext}:{"cycles" if cycles else "plain"}:{place}', sample=case)
        # ---- determinism: a second save of the unchanged model is byte-identical (text formats)
        if ext != 'pkl':
            h1 = file_hash(fname)
            orig.to_file(stem, file_types=(ext,))
            if file_hash(fname) != h1:
                ctx.violation(dict(case, oracle='bytes'), "saving the unchanged model again changes the text file")
        # ---- post-load history, original vs loaded
        ops = []
        inputs = wb.inputs()
        for _ in range(rng.randrange(6, 11)):
            if inputs and rng.random() < 0.4:
                a = rng.choice(inputs)
                ops.append(['set', wb.nodes[a]['addr'], rng.choice(wbgen.CLEAN_POOL)])
            else:
                ops.append(['eval', wb.nodes[rng.choice(wb.cells())]['addr']])
        if cycles:
            # iterative mode: evaluate twice (first use answers the previous pass — C06)
            ops = [o for op in ops for o in ([op, op] if op[0] == 'eval' else [op])]
        want = run_ops(orig, ops)
        got = None
        meta = None
        if place == 'same':
            try:
                loaded = ExcelCompiler.from_file(fname)
                got = run_ops(loaded, ops)
                meta = dict(cycles=jsonable(loaded.cycles), filename=loaded.filename)
            except Exception as exc:      # noqa: BLE001
                ctx.violation(dict(case, leg='load'), f"from_file raises {type(exc).__name__}: {exc}"[:200])
        elif place == 'thread':
            box = {}

            def work():
                try:
                    loaded = ExcelCompiler.from_file(fname)
                    box['got'] = run_ops(loaded, ops)
                    box['meta'] = dict(cycles=jsonable(loaded.cycles), filename=loaded.filename)
                except Exception as exc:      # noqa: BLE001
                    box['exc'] = f"{type(exc).__name__}: {exc}"
            t = threading.Thread(target=work)
            t.start()
            t.join()
            if 'exc' in box:
                ctx.violation(dict(case, leg='load'), f"from_file on a fresh thread raises {box['exc']}"[:200])
            got, meta = box.get('got'), box.get('meta')
        else:
            nproc += 1
            spec = os.path.join(ctx.work, f'spec{k}.json')
            outp = os.path.join(ctx.work, f'out{k}.json')
            json.dump(dict(file=fname, ops=jsonable(ops)), open(spec, 'w'))
            p = subprocess.run([PY, driver, spec, outp], env=impl_env(), capture_output=True, text=True, timeout=120)
            if p.returncode != 0:
                ctx.violation(dict(case, leg='load'), ("from_file in a fresh process fails: " + p.stderr[-300:])[:400])
            else:
                res = json.load(open(outp))
                got, meta = res['trace'], dict(cycles=res['cycles'], filename=res['filename'])
        if got is not None and jsonable(got) != jsonable(want):
            first = next(i for i, (a, b) in enumerate(zip(jsonable(got), jsonable(want))) if a != b)
            ctx.violation(dict(case, history=ops[:first + 1]),
                          "the loaded model answers a history differently from the original",
                          impl=got[first], expected=want[first])
        if meta is not None:
            if meta['filename'] != orig.filename:
                ctx.violation(case, "workbook file name does not survive the trip", impl=meta['filename'],
                              expected=orig.filename)
            if bool(meta['cycles']) != bool(orig.cycles) or (cycles and meta['cycles'] != jsonable(orig.cycles)):
                ctx.violation(case, "iteration settings do not survive the trip", impl=meta['cycles'],
                              expected=jsonable(orig.cycles))
        # ---- idempotence: saving a loaded model reproduces the same content
        if ext != 'pkl':
            try:
                l2 = ExcelCompiler.from_file(fname)
                stem2 = os.path.join(ctx.work, f'm{k}_again')
                l2.to_file(stem2, file_types=(ext,))

                def content(p):
                    if ext == 'json':
                        return json.load(open(p))
                    from ruamel.yaml import YAML
                    return json.loads(json.dumps(YAML(typ='safe').load(open(p)), default=str))
                a, b = content(fname), content(stem2 + '.' + ext)
                if a.get('cell_map') != b.get('cell_map') or a.get('cycles') != b.get('cycles') \
                        or a.get('filename') != b.get('filename') or a.get('excel_hash') != b.get('excel_hash'):
                    ctx.violation(dict(case, oracle='content'), "saving a loaded model does not reproduce the same content",
                                  impl=str(b.get('cell_map'))[:200], expected=str(a.get('cell_map'))[:200])
            except Exception as exc:      # noqa: BLE001
                ctx.violation(dict(case, leg='resave'), f"re-saving the loaded model raises {type(exc).__name__}: {exc}"[:200])
        for f in os.listdir(ctx.work):
            if f.startswith(f'm{k}') or f.startswith(f'spec{k}') or f.startswith(f'out{k}'):
                os.remove(os.path.join(ctx.work, f))
    # ---- extra_data survives
    wb = wbgen.gen_workbook(rng, ncells=6, pool=wbgen.CLEAN_POOL)
    for ext in ('yml', 'json', 'pkl'):
        comp = ExcelCompiler(excel=wb.to_openpyxl())
        for i in wb.cells():
            comp.evaluate(wb.nodes[i]['addr'])
        comp.extra_data = {'note': 'x: y', 'n': 3, 'l': [1, 'a']}
        stem = os.path.join(ctx.work, 'extra')
        comp.to_file(stem, file_types=(ext,))
        loaded = ExcelCompiler.from_file(stem + '.' + ext)
        ctx.count(('extra', ext), kind='extra_data')
        ed = {k: v for k, v in (loaded.extra_data or {}).items() if k in ('note', 'n', 'l')}
        if json.loads(json.dumps(ed, default=list)) != {'note': 'x: y', 'n': 3, 'l': [1, 'a']}:
            ctx.violation(dict(call='persist', args=[ext, 'extra_data']), "extra_data does not survive the trip",
                          impl=str(ed), expected="{'note': 'x: y', 'n': 3, 'l': [1, 'a']}")
    shutil.rmtree(ctx.work, ignore_errors=True)
