"""C02 — formula translation is meaning-preserving.

Correspondence (exact strings): generated well-formed formula trees (exhaustive for
small depth, sampled beyond) x renderings (redundant parentheses, white space,
unary +, function-name case) are parsed and compiled by the REAL
ExcelFormula (tokenizer, _parse_to_rpn, _build_ast, emit) and by the extracted
model (Model/Syntax.v sy/build on flat c, Model/Emit.v code): the RPN node list
(value, num_args) and python_code must be equal.  The model's reading of
Python's grammar (PyWF / pyabs) is compared with CPython itself (ast.parse) on
random Python trees and on every emitted code string.  Literals: emit_text /
py_string_literal / py_decint against the implementation and CPython.

Evaluation correspondence (theorem C02_eval): on the same (formula, environment)
pairs as the oracle, the extracted Model/FormulaEval.v evaluates the Python tree of
the emitted code the way the compiled lambda does (pyeval: the OperatorWrapper
rewrites to excel_operator_operand_fixup calls, Model/Arrays.v op_fixup) and the
Excel tree by Excel's reading (xleval); cell values come from the environment, the
meaning of a library function at an argument tuple is asked from the
implementation's own function when the model first needs it (the theorem
quantifies over every function meaning).  py_value is compared with
ExcelFormula's eval context, xl_value with the reference evaluator, and for trees
in the theorem's fragment (evalb) both model values must be equal.  Number
literals with decimals / exponents: py_number against CPython, xl_numval against
decimal.Decimal.

Oracle (independent of the model): a reference evaluator evaluates the intended
tree (Excel's grammar) with the implementation's OWN operator function and
library functions applied per node, so that only grouping and literals are
judged, against ExcelFormula.build_eval_context()(ExcelFormula(text)) on
environments of cell values."""
import ast
import decimal
import fractions
import importlib
import itertools
import logging
import warnings

from harness.common import (EXN_NAMES, Unencodable, canon, dec_res, dec_val, enc_val, ensure_impl_on_path,
                            known_predicate, same)

GEN_MODULES = ['excelformula', 'excelutil']
EXTRA_TARGETS = ('Proofs/C02.vo', 'Refuted/C02_literals.vo')
ASSUMPTIONS = [
    "the openpyxl tokenizer and Tokenizer._items are not modelled: the model parses the token string "
    "flat(c) of a concrete tree, the implementation the rendered text (tie: exact RPN / code strings)",
    "that pyflat(t) parses to pyabs(t) for PyWF t (uniqueness of Python's parse) is checked against "
    "CPython's ast.parse, not proved",
    "C02_eval: Model/FormulaEval.v pyeval is a hand transcription of what the code object built by "
    "_compile_python_ast computes (OperatorWrapper: BinOp/Compare/UnaryOp -> excel_operator_operand_fixup calls, "
    "Python's evaluation order, literal decoding); tie: py_value = ExcelFormula's eval context on every "
    "(formula, environment) pair of the oracle stream",
]

OPS = ['=', '<>', '<', '<=', '>', '>=', '&', '+', '-', '*', '/', '^', ' ', ':', ',']
OPCODE = {o: i for i, o in enumerate(OPS)}
PREC = {'=': 1, '<>': 1, '<': 1, '<=': 1, '>': 1, '>=': 1, '&': 2, '+': 3, '-': 3, '*': 4, '/': 4,
        '^': 5, ' ': 8, ':': 8, ',': 8}
OPNAME = {'+': 'Add', '-': 'Sub', '*': 'Mult', '/': 'Div', '^': 'Pow', '&': 'BitAnd', '=': 'Eq',
          '<>': 'NotEq', '<': 'Lt', '<=': 'LtE', '>': 'Gt', '>=': 'GtE'}
KIND = {'num': 0, 'text': 1, 'bool': 2, 'err': 3, 'ref': 4}
ERRORS = ['#DIV/0!', '#N/A', '#VALUE!', '#REF!', '#NAME?', '#NUM!', '#NULL!']


# ------------------------------------------------------- known-finding predicates (inert until listed)
@known_predicate('C02-number-leading-zeros')
def _kp_leading_zero(case):
    """A number with superfluous leading zeros (007) is not a Python literal."""
    return case.get('clause') == 'number-leading-zero'


@known_predicate('C02-number-exponent-sign')
def _kp_exponent_sign(case):
    """openpyxl's tokenizer keeps the sign of an exponent inside the number only after a mantissa of the form
    d or d.ddd with d in 1-9 (SN_RE): =12.5E-1, =0.5E+1, =.15e-19, =750.e+2 are split at the sign into a name and a
    number and evaluate to #NAME? (Excel: 1.25, 5, 1.5E-20, 75000).  The witnesses are only put into the stream
    once the finding is listed in known_findings.json."""
    return case.get('clause') == 'number-exponent-sign'


@known_predicate('C02-logical-lowercase')
def _kp_logical_lower(case):
    """true / false in lower case are tokenised as names: #NAME?."""
    return case.get('clause') == 'logical-lowercase'


# ------------------------------------------------------------------ trees
# abstract tree e:  ('num', txt) ('text', chars) ('bool', txt) ('err', txt) ('ref', txt)
#                   ('neg', e) ('pct', e) ('bin', op, l, r) ('call', NAME, [e | None])
#                   ('array', [[leaf]])
def level(e):
    k = e[0]
    return 7 if k == 'neg' else 6 if k == 'pct' else PREC[e[1]] if k == 'bin' else 9


def excel_quote(s):
    return '"' + s.replace('"', '""') + '"'


def to_cst(e, rng, extra):
    """concrete tree with the parentheses the grammar needs plus redundant ones (prob. extra)"""
    def sub(c, need):
        t = to_cst(c, rng, extra)
        if level(c) < need:
            t = ('P', t)
        return t
    k = e[0]
    if k in KIND:
        t = ('A', KIND[k], excel_quote(e[1]) if k == 'text' else e[1])
    elif k == 'neg':
        t = ('N', sub(e[1], 7))
    elif k == 'pct':
        t = ('C', sub(e[1], 6))
    elif k == 'bin':
        p = PREC[e[1]]
        t = ('B', OPCODE[e[1]], sub(e[2], p), sub(e[3], p + 1))
    elif k == 'call':
        t = ('F', e[1] + '(', [('E',) if a is None else to_cst(a, rng, extra) for a in e[2]])
    elif k == 'array':
        t = ('Y', [('R', [to_cst(x, rng, 0) for x in row]) for row in e[1]])
    else:
        raise ValueError(e)
    while extra and rng.random() < extra:
        t = ('P', t)
    return t


def enc_cst(t):
    k = t[0]
    s = lambda x: [ord(c) for c in x]      # noqa: E731
    if k == 'A':
        return [0, t[1], s(t[2])]
    if k in 'PNC':
        return [{'P': 1, 'N': 2, 'C': 3}[k], enc_cst(t[1])]
    if k == 'B':
        return [4, t[1], enc_cst(t[2]), enc_cst(t[3])]
    if k == 'F':
        return [5, s(t[1]), [enc_cst(a) for a in t[2]]]
    if k == 'Y':
        return [6, [enc_cst(a) for a in t[1]]]
    if k == 'R':
        return [7, [enc_cst(a) for a in t[1]]]
    return [8]


def render(t, rng, ws):
    """formula text of a concrete tree; ws = probability of optional white space"""
    def sp():
        if ws and rng.random() < ws:
            return rng.choice((' ', ' ', '  ', '\n'))
        return ''
    k = t[0]
    if k == 'A':
        return t[2]
    if k == 'P':
        return '(' + sp() + render(t[1], rng, ws) + sp() + ')'
    if k == 'N':
        plus = '+' if ws and rng.random() < 0.05 else ''
        return plus + '-' + sp() + render(t[1], rng, ws)
    if k == 'C':
        return render(t[1], rng, ws) + sp() + '%'
    if k == 'B':
        op = OPS[t[1]]
        if op == ' ':
            return render(t[2], rng, 0) + ' ' + render(t[3], rng, 0)
        return render(t[2], rng, ws) + sp() + op + sp() + render(t[3], rng, ws)
    if k == 'F':
        name = t[1]
        return name + sp() + (sp() + ',' + sp()).join(render(a, rng, ws) for a in t[2]) + sp() + ')'
    if k == 'Y':
        return '{' + ';'.join(','.join(render(x, rng, 0) for x in r[1]) for r in t[1]) + '}'
    return ''


def features(e, out=None):
    out = set() if out is None else out
    k = e[0]
    if k == 'text':
        if '\\' in e[1]:
            out.add('text-backslash')
        if '\n' in e[1] or '\r' in e[1]:
            out.add('text-newline')
    elif k == 'num':
        if len(e[1]) > 1 and e[1][0] == '0' and e[1][1].isdigit():
            out.add('number-leading-zero')
    elif k == 'bool':
        if e[1] != e[1].upper():
            out.add('logical-lowercase')
    elif k in ('neg', 'pct'):
        features(e[1], out)
    elif k == 'bin':
        if e[1] == '^' and e[2][0] == 'neg':
            out.add('neg-pow-left')
        features(e[2], out)
        features(e[3], out)
    elif k == 'call':
        for a in e[2]:
            if a is not None:
                features(a, out)
    return out


# causes that are known findings; everything else (incl. the fixed ones: a negated operand of ^, backslash /
# line break in a text literal) is judged under the clause 'grouping'
def arith_tree(e):
    """the fragment of theorem C02_emit, for trees of the generators"""
    k = e[0]
    if k in ('neg', 'pct'):
        return arith_tree(e[1])
    if k == 'bin':
        return arith_tree(e[2]) and arith_tree(e[3])
    if k == 'call':
        return e[1].lower() not in ('row', 'column', 'offset', 'indirect', 'subtotal', 'map') and \
            all(a is None or arith_tree(a) for a in e[2])
    if k == 'ref':
        return ':' not in e[1] or e[1].count(':') == 1
    return k != 'array'


CLAUSE_ORDER = ['number-leading-zero', 'logical-lowercase']


def clause_of(e):
    f = features(e)
    for c in CLAUSE_ORDER:
        if c in f:
            return c
    return 'grouping'


# ------------------------------------------------------------------ generators
LEAVES3 = [('num', '2'), ('ref', 'A1'), ('num', '3')]
OPS10 = ['=', '<', '>=', '<>', '&', '+', '-', '*', '/', '^']
EVAL_FUNCS = ['SUM', 'MAX', 'MIN', 'IF', 'ABS', 'AND', 'OR', 'NOT', 'AVERAGE']
CODE_FUNCS = EVAL_FUNCS + ['ROUND', 'INT', 'LEN', 'CONCATENATE', 'ISERROR', 'INDEX', 'STDEV.S',
                           '_xlfn.CONCAT', 'ATAN2', 'XOR', 'MID', 'Sum', 'sum', 'iF', 'Max']
TEXTS = ['', 'a', 'b', 'abc', 'a"b', '"', '""', '{x}', '}', 'a b', '12', '1e3', 'TRUE', 'é', 'A1',
         '_C_("A1")', "it's", '#N/A', '(', ',', ';', ' ']
NUMS = ['0', '1', '2', '3', '7', '10', '0.5', '1.5', '.25', '2.', '2.5E-1', '12.125', '100', '1E+3', '1e2',
        '33554431']


def exhaustive(depth):
    """all abstract trees of the given depth over LEAVES3 / OPS10 / prefix - / postfix %"""
    cur = list(LEAVES3)
    for _ in range(depth - 1):
        nxt = list(LEAVES3)
        nxt += [('neg', x) for x in cur] + [('pct', x) for x in cur]
        nxt += [('bin', o, a, b) for o in OPS10 for a in cur for b in cur]
        cur = nxt
    return cur


def rand_leaf(rng, evalable, bad_literals=False):
    r = rng.random()
    if r < 0.4:
        return ('num', rng.choice(NUMS[:12] if evalable else NUMS))
    if r < 0.65:
        return ('ref', rng.choice(['A1', 'B2', 'C3'] if evalable else
                                  ['A1', 'B2', 'C3', '$A$1', 'b2', 'Sheet2!C3', 'Sheet2!$C$3', 'AA10',
                                   'A1:B2', '$A$1:C3', 'Sheet2!A1:B2']))
    if r < 0.85:
        return ('text', rng.choice(TEXTS))
    if r < 0.93:
        return ('bool', rng.choice(['TRUE', 'FALSE']))
    return ('err', rng.choice(ERRORS))


def rand_tree(rng, depth, evalable):
    if depth <= 1 or rng.random() < 0.12:
        return rand_leaf(rng, evalable)
    r = rng.random()
    if r < 0.12:
        return ('neg', rand_tree(rng, depth - 1, evalable))
    if r < 0.2:
        return ('pct', rand_tree(rng, depth - 1, evalable))
    if r < 0.35:
        names = EVAL_FUNCS if evalable else CODE_FUNCS
        n = rng.choice([0, 1, 1, 2, 2, 3, 4])
        args = [None if rng.random() < 0.12 else rand_tree(rng, depth - 1, evalable) for _ in range(n)]
        if args == [None]:
            args = []
        name = rng.choice(names)
        if not evalable and rng.random() < 0.1:
            name = rng.choice(['PI', 'TRUE', 'FALSE', 'Pi', 'true'])
            args = []
        return ('call', name, args)
    if r < 0.39 and not evalable:
        rows = rng.randrange(1, 4)
        cols = rng.randrange(1, 4)
        return ('array', [[rand_leaf(rng, True) for _ in range(cols)] for _ in range(rows)])
    op = rng.choice(OPS[:12])
    if op == '^' and evalable:
        # keep integer powers small (int ** int is exact and unbounded in Python): the exponent is a
        # small literal, possibly negated
        r = ('num', rng.choice(['2', '3', '0.5', '1', '0']))
        if rng.random() < 0.2:
            r = ('neg', r)
        return ('bin', op, rand_tree(rng, depth - 1, evalable), r)
    return ('bin', op, rand_tree(rng, depth - 1, evalable), rand_tree(rng, depth - 1, evalable))


# ------------------------------------------------------------------ implementation side
class Impl:
    def __init__(self):
        ensure_impl_on_path()
        logging.getLogger('pycel').setLevel(logging.CRITICAL)
        warnings.filterwarnings('ignore', category=SyntaxWarning)     # '\\z' in a compiled literal
        from pycel import excelformula as xf
        from pycel.excelutil import EMPTY, build_operator_operand_fixup
        from pycel.lib.function_helpers import load_functions
        self.xf = xf
        self.EMPTY = EMPTY
        self.fixup = build_operator_operand_fixup(lambda *a: None)
        self.env = {}
        self.ev = xf.ExcelFormula.build_eval_context(self.read_cell, self.read_range)
        modules = tuple(importlib.import_module(m) for m in xf.ExcelFormula.default_modules)
        self.ns = {}
        names = {xf.FunctionNode.func_map.get(f.lower(), f.lower()) for f in EVAL_FUNCS}
        missing = load_functions(names, self.ns, modules)
        assert not missing, missing

    def read_cell(self, addr):
        return self.env[str(addr)]

    def read_range(self, addr):
        raise KeyError(addr)

    def parse(self, text):
        """(rpn [(value, nargs)], python_code) or ('raise', class)"""
        try:
            f = self.xf.ExcelFormula(text)
            rpn = [(n.value, n.num_args if isinstance(n, self.xf.FunctionNode) else -1) for n in f.rpn]
            return rpn, f.python_code
        except Exception as exc:       # noqa: BLE001
            return ('raise', type(exc).__name__)

    def evaluate(self, text, env):
        self.env = env
        try:
            return ('ok', self.ev(self.xf.ExcelFormula(text)))
        except Exception as exc:       # noqa: BLE001
            return ('raise', type(exc).__name__)

    # the intended meaning, with the implementation's own operators / functions per node
    def ref(self, e, env):
        k = e[0]
        if k == 'num':
            t = e[1]
            return int(t) if t.isdigit() else float(t)
        if k == 'text':
            return e[1]
        if k == 'bool':
            return e[1].upper() == 'TRUE'
        if k == 'err':
            return e[1]
        if k == 'ref':
            return env[e[1]]
        if k == 'neg':
            return self.fixup(self.EMPTY, 'USub', self.ref(e[1], env))
        if k == 'pct':
            return self.fixup(self.ref(e[1], env), 'Div', 100)
        if k == 'bin':
            return self.fixup(self.ref(e[2], env), OPNAME[e[1]], self.ref(e[3], env))
        if k == 'call':
            f = self.ns[self.xf.FunctionNode.func_map.get(e[1].lower(), e[1].lower())]
            return f(*[None if a is None else self.ref(a, env) for a in e[2]])
        raise ValueError(e)

    # ---- exactness of the implementation's float arithmetic on this case (the model computes in Q)
    def ref_exact(self, e, env):
        """True when every + - * / ^ node of the intended tree, evaluated with the implementation's fixup, yields
        exactly the rational result of its (coerced) operands: then model and implementation must agree bit for
        bit; otherwise IEEE rounding happened somewhere and numbers are compared with a tolerance"""
        from pycel.excelutil import coerce_to_number
        F = fractions.Fraction
        flag = [True]

        def numeric(x):
            return isinstance(x, (int, float)) and not (isinstance(x, float) and (x != x or x in (float('inf'), float('-inf'))))

        def chk(op, a, b, r):
            try:
                a0, b0 = a, b
                a = coerce_to_number(a, convert_all=True)
                b = coerce_to_number(b, convert_all=True)
                for x0, x in ((a0, a), (b0, b)):      # text -> float conversion rounds too ("7.252")
                    if isinstance(x0, str) and numeric(x) and F(decimal.Decimal(x0.strip())) != F(x):
                        flag[0] = False
            except Exception:      # noqa: BLE001
                return
            if not (numeric(a) and numeric(b)) or isinstance(r, str):
                return
            if not numeric(r):
                flag[0] = False
                return
            try:
                if op == 'Add':
                    x = F(a) + F(b)
                elif op == 'Sub':
                    x = F(a) - F(b)
                elif op == 'Mult':
                    x = F(a) * F(b)
                elif op == 'Div':
                    x = F(a) / F(b)
                elif op == 'Pow':
                    if b != int(b) or abs(b) > 64:
                        flag[0] = False
                        return
                    x = F(a) ** int(b)
                else:
                    return
            except ZeroDivisionError:
                return
            if F(r) != x:
                flag[0] = False

        def go(e):
            k = e[0]
            if k in ('num', 'text', 'bool', 'err', 'ref'):
                return self.ref(e, env)
            if k == 'neg':
                return self.fixup(self.EMPTY, 'USub', go(e[1]))
            if k == 'pct':
                a = go(e[1])
                r = self.fixup(a, 'Div', 100)
                chk('Div', a, 100, r)
                return r
            if k == 'bin':
                a, b = go(e[2]), go(e[3])
                r = self.fixup(a, OPNAME[e[1]], b)
                chk(OPNAME[e[1]], a, b, r)
                return r
            if k == 'call':
                f = self.ns[self.xf.FunctionNode.func_map.get(e[1].lower(), e[1].lower())]
                return f(*[None if a is None else go(a) for a in e[2]])
            raise ValueError(e)
        try:
            go(e)
        except Exception:          # noqa: BLE001
            pass
        return flag[0]

    def lib_call(self, name, args):
        """the implementation's library function `name` (python name) at the model's argument values, as a wire
        result (0 value) | (1 exception code)"""
        def py(v):
            if isinstance(v, tuple) and len(v) == 2 and v[0] == 'float':
                return float(v[1])
            if isinstance(v, tuple):
                return tuple(py(x) for x in v)
            return v
        codes = {n: c for c, n in EXN_NAMES.items()}
        try:
            r = self.ns[name](*[py(a) for a in args])
        except Exception as exc:       # noqa: BLE001
            return [1, codes.get(type(exc).__name__, 98)]
        try:
            return [0, enc_val(r)]
        except Unencodable:
            return [1, 98]

    def ref_value(self, e, env):
        try:
            v = self.ref(e, env)
        except Exception as exc:       # noqa: BLE001
            return ('raise', type(exc).__name__)
        return ('ok', v if v not in (None, self.EMPTY) else 0)


def same_value(a, b):
    if a[0] != b[0]:
        return False
    if a[0] == 'raise':
        return True
    x, y = a[1], b[1]
    tx = 'b' if isinstance(x, bool) else 'n' if isinstance(x, (int, float)) else type(x).__name__
    ty = 'b' if isinstance(y, bool) else 'n' if isinstance(y, (int, float)) else type(y).__name__
    if tx != ty:
        return False
    if tx == 'n' and x != x and y != y:
        return True
    return x == y


CELL_POOL = [0, 1, 2, 3, -2, 5, 0.5, -1.5, 10, 7.25, 'abc', '12', '', 'B', True, False, None, '#DIV/0!', '#N/A']


def rand_env(rng):
    return {a: rng.choice(CELL_POOL) for a in ('A1', 'B2', 'C3')}


# ------------------------------------------------------------------ python trees (grammar cross-check)
PYOPS = ['+', '-', '*', '/', '**', '&', '==', '!=', '<', '<=', '>', '>=']


def rand_pytree(rng, depth):
    if depth <= 1 or rng.random() < 0.2:
        return [0, [ord(c) for c in rng.choice(['a', 'b', '2', 'x1', '"s"', '1.5', 'None', 'True'])]]
    r = rng.random()
    if r < 0.15:
        return [1, rand_pytree(rng, depth - 1)]
    if r < 0.35:
        return [2, rand_pytree(rng, depth - 1)]
    if r < 0.45:
        return [4, [ord(c) for c in rng.choice(['f', 'sum_'])],
                [rand_pytree(rng, depth - 1) for _ in range(rng.randrange(0, 3))]]
    return [3, rng.randrange(12), rand_pytree(rng, depth - 1), rand_pytree(rng, depth - 1)]


def py_dump(src):
    try:
        return ast.dump(ast.parse(src, mode='eval'))
    except SyntaxError:
        return 'SyntaxError'
    except ValueError:
        return 'ValueError'


def txt(cs):
    return ''.join(chr(c) for c in cs)


# ------------------------------------------------------------------ evaluation correspondence (C02_eval)
def close_num(a, b):
    """two canonical values equal up to float rounding"""
    if isinstance(a, tuple) and isinstance(b, tuple) and a[:1] == ('float',) and b[:1] == ('float',) \
            and isinstance(a[1], fractions.Fraction) and isinstance(b[1], fractions.Fraction):
        return abs(a[1] - b[1]) <= fractions.Fraction(1, 10 ** 9) * max(1, abs(a[1]), abs(b[1]))
    return False


def model_eval_stream(ctx, impl, evals):
    """evals: dicts (e, t, text, env, got, want, clause).  Runs the model's pyeval / xleval on every pair."""
    n = len(evals)
    cst_sx = [enc_cst(ev['t']) for ev in evals]
    cells_sx = [[[[ord(c) for c in a], enc_val(v)] for a, v in sorted(ev['env'].items())] for ev in evals]
    tables = [dict() for _ in range(n)]
    answers = [None] * n
    pending = list(range(n))
    rounds = 0
    while pending and rounds < 200:
        rounds += 1
        res = ctx.model.batch([('eval', [cst_sx[i], cells_sx[i], list(tables[i].values())]) for i in pending])
        nxt = []
        for i, a in zip(pending, res):
            if a[0] == 4:
                key = repr(a[1:3])
                if key in tables[i]:
                    answers[i] = ('stuck', a)
                    continue
                name = txt(a[1])
                if name not in impl.ns:
                    answers[i] = ('stuck', a)
                    continue
                tables[i][key] = [a[1], a[2], impl.lib_call(name, [dec_val(x) for x in a[2]])]
                ctx.histogram['eval-model:library-call-asked'] = ctx.histogram.get('eval-model:library-call-asked', 0) + 1
                nxt.append(i)
            else:
                answers[i] = a
        pending = nxt
    ctx.extra['eval_model_rounds'] = rounds

    def bump(k):
        ctx.histogram[k] = ctx.histogram.get(k, 0) + 1

    for ev, a in zip(evals, answers):
        case = dict(call='eval-model', args=[ev['text'], ev['env']], clause=ev['clause'])
        if a is None or a[0] == 'stuck' or a[0] not in (0, 1):
            ctx.divergence(case, ev['got'], a, 'Extract/C02.v eval: the library-call protocol did not terminate')
            continue
        if a[0] == 1:
            ctx.divergence(case, ev['got'], a, 'Model/Syntax.v parse (flat c) for an evaluated formula')
            continue
        py, xl, in_fragment = dec_res(a[1]), dec_res(a[2]), bool(a[3])
        ctx.count(('eval-model', ev['text'], tuple(sorted((k, repr(v)) for k, v in ev['env'].items()))),
                  kind='eval-model:' + ('fragment' if in_fragment else 'outside-fragment'))
        if ev['clause'] != 'grouping':
            bump('eval-model:known-finding-clause-skipped')
            continue
        if in_fragment and a[1] != a[2]:
            ctx.divergence(case, xl, py, 'model: pyeval E (emit e) = xleval E e on the fragment (theorem C02_eval)')
        exact = impl.ref_exact(ev['e'], ev['env'])
        for which, m, i, rel in (
                ('py', py, ev['got'], 'Model/FormulaEval.v py_value = ExcelFormula.build_eval_context()(ExcelFormula(text))'),
                ('xl', xl, ev['want'], 'Model/FormulaEval.v xl_value = reference evaluator (fixup per node of the intended tree)')):
            if m[0] == 'raise' and m[1] in ('Unmodelled', 'OutOfFuel'):
                bump(f'eval-model:{which}-unmodelled')
                continue
            if m[0] == 'raise':
                if i[0] != 'raise':
                    ctx.divergence(case, i, m, rel)
                else:
                    bump(f'eval-model:{which}-both-raise')
                    if len(ctx.extra.setdefault('eval_model_raise_samples', [])) < 5:
                        ctx.extra['eval_model_raise_samples'].append([ev['text'], repr(ev['env']), m[1], i[1]])
                continue
            try:
                iv = ('ok', canon(i[1])) if i[0] == 'ok' else i
            except Exception:      # noqa: BLE001
                iv = i
            if iv[0] == 'ok' and same(m[1], iv[1]):
                bump(f'eval-model:{which}-equal')
            elif not exact and iv[0] == 'ok' and close_num(m[1], iv[1]):
                bump(f'eval-model:{which}-equal-up-to-float-rounding')
            elif not exact and iv[0] == 'ok':
                bump(f'eval-model:{which}-inexact-arithmetic-skipped')
            else:
                ctx.divergence(case, iv, m, rel)


# ------------------------------------------------------------------ the run
def run(ctx):
    impl = Impl()
    rng = ctx.rng
    ctx.extra['rule'] = (
        "formula trees: every tree of depth <= 2 (thorough: 3) over 10 binary operators, prefix -, postfix % and "
        "3 leaves, PRNG-sampled trees of depth 3 and of depth <= 8 over all 12 operators, literals of every kind, "
        "references, calls with omitted arguments and array constants; each rendered minimally and with random "
        "redundant parentheses / white space / unary + / function-name case; a case is non-trivial when it is a "
        "distinct formula text (correspondence) or a distinct (text, environment) pair (oracle)")

    # ---------------------------------------------------------------- case streams
    trees = []           # (abstract tree, evalable)
    small = exhaustive(2)       # depth 3 exhaustively is 98 211 trees x renderings: 20+ GB in the thorough tier
    trees += [(e, True) for e in small]
    if True:
        e2 = small
        for _ in range(ctx.n(2500, 12000)):
            r = rng.random()
            if r < 0.15:
                trees.append(((rng.choice(['neg', 'pct']), rng.choice(e2)), True))
            else:
                op = rng.choice(OPS10)
                # an exponent is a leaf: (A1^A1)^(A1^A1) with A1 = 10 is 10^(10^11) - Python's exact integer power
                # never returns (the property speaks of numbers of moderate magnitude)
                right = rng.choice(LEAVES3) if op == '^' else rng.choice(e2)
                trees.append((('bin', op, rng.choice(e2), right), True))
    for _ in range(ctx.n(4000, 12000)):
        trees.append((rand_tree(rng, rng.randrange(2, 9), True), True))
    for _ in range(ctx.n(4000, 12000)):
        trees.append((rand_tree(rng, rng.randrange(2, 9), False), False))
    # the witnesses of the design round (and relatives) are always in the stream
    two = ('num', '2')
    trees += [(('bin', '^', ('neg', two), two), True),
              (('bin', '^', ('neg', ('ref', 'A1')), two), True),
              (('neg', ('bin', '^', two, two)), True),
              (('bin', '^', two, ('neg', two)), True),
              (('bin', '-', ('bin', '-', ('num', '7'), two), ('num', '3')), True),
              (('bin', '/', ('bin', '/', ('num', '7'), two), ('num', '3')), True),
              (('bin', '^', ('bin', '^', two, ('num', '3')), two), True),
              (('pct', ('neg', two)), True),
              (('text', 'a\\nb'), True), (('text', 'a\\'), True), (('text', 'a\nb'), True),
              (('text', 'tab\\there'), True), (('text', 'c:\\new'), True), (('text', 'a\rb'), True),
              (('num', '007'), True), (('num', '00'), True), (('num', '010'), True), (('num', '007.5'), True),
              (('bool', 'true'), True), (('bool', 'False'), True)]

    cases = []           # (abstract, cst, text, evalable)
    for e, evalable in trees:
        t0 = to_cst(e, rng, 0)
        cases.append((e, t0, '=' + render(t0, rng, 0), evalable))
        if rng.random() < 0.6:
            t1 = to_cst(e, rng, 0.15)
            cases.append((e, t1, '=' + render(t1, rng, 0.3), evalable))

    # ---------------------------------------------------------------- correspondence
    answers = ctx.model.batch([('parse', [enc_cst(t)]) for (_, t, _, _) in cases]) if ctx.model else None
    seen = set()
    for idx, (e, t, text, evalable) in enumerate(cases):
        clause = clause_of(e)
        got = impl.parse(text)
        key = ('parse', text)
        ctx.count(key, nontrivial=key not in seen, kind='parse:' + e[0],
                  sample=dict(formula=text, impl=got if got[0] == 'raise' else got[1]))
        seen.add(key)
        case = dict(call='parse', args=[text], clause=clause)
        if clause == 'logical-lowercase':
            continue            # tokenised as a name: judged by the oracle below, not part of the tie
        if got[0] == 'raise':
            ctx.violation(case, f"well-formed formula does not parse: {got[1]}", impl=got)
            continue
        rpn, code = got
        if answers is None:
            continue
        a = answers[idx]
        if a[0] != 0:
            ctx.divergence(case, [rpn, code], a, 'Model/Syntax.v sy/build = ExcelFormula._parse_to_rpn/_build_ast')
            continue
        m_rpn = [(txt(v), n) for v, n in a[1]]
        m_code, m_x, modelled, same_tree, wf = txt(a[2]), txt(a[3]), a[4], a[5], a[6]
        if m_rpn != rpn:
            ctx.divergence(case, rpn, m_rpn, 'Model/Syntax.v sy (flat c) = ExcelFormula(text).rpn')
        if not same_tree:
            ctx.divergence(case, rpn, m_rpn, 'model: parse (flat c) = abs c (theorem C02_parse / arrays)')
        if modelled:
            if m_code != code:
                ctx.divergence(case, code, m_code, 'Model/Emit.v code = ExcelFormula.python_code')
            # the model's reading of the emitted text against CPython
            if not wf and arith_tree(e):
                ctx.divergence(case, code, m_code, 'model: PyWF (emit e) for the arithmetic fragment (theorem C02_emit)')
            if wf and 'number-leading-zero' not in features(e):
                ctx.count(('pygrammar', m_code), kind='pygrammar:emitted')
                d1, d2 = py_dump(m_code), py_dump(m_x)
                if d1 != d2:
                    ctx.divergence(case, d1, d2, 'Model/Emit.v PyWF/pyabs(translate) = CPython ast.parse of the code')
        else:
            ctx.histogram['emit-unmodelled'] = ctx.histogram.get('emit-unmodelled', 0) + 1

    # ---------------------------------------------------------------- Python grammar cross-check
    pts = [rand_pytree(rng, rng.randrange(2, 6)) for _ in range(ctx.n(6000, 60000))]
    if ctx.model:
        for pt, a in zip(pts, ctx.model.batch([('pytree', [p]) for p in pts])):
            wf, flat, xf = a[0], txt(a[1]), txt(a[2])
            ctx.count(('pytree', flat, xf), kind='pygrammar:wf' if wf else 'pygrammar:not-wf')
            eq = py_dump(flat) == py_dump(xf)
            if bool(wf) != eq:
                ctx.divergence(dict(call='pytree', args=[flat]), dict(cpython_same_tree=eq, text=flat, full=xf),
                               dict(pywf=wf), 'Model/Emit.v PyWF t <-> CPython parses pyflat t to pyabs t')

    # ---------------------------------------------------------------- literals
    strs = list(TEXTS) + ['a\\nb', 'a\\', '\\', 'a\nb', '\n', 'x\\"y', '\\\\', 'a\\tb', "\\'", 'q"\\', '\r']
    alphabet = 'ab"\\\n{} n\'é'
    for n in range(0, 4 if ctx.tier == 'thorough' else 3):
        strs += [''.join(p) for p in itertools.product(alphabet, repeat=n)]
    for _ in range(ctx.n(1500, 20000)):
        strs.append(''.join(rng.choice(alphabet + 'xyz01') for _ in range(rng.randrange(1, 9))))
    ans = ctx.model.batch([('text', [[ord(c) for c in s]]) for s in strs]) if ctx.model else [None] * len(strs)
    for s, a in zip(strs, ans):
        text = '=' + excel_quote(s)
        e = ('text', s)
        clause = clause_of(e)
        case = dict(call='literal', args=[text], clause=clause)
        ctx.count(('text', s), kind='literal:text')
        got = impl.parse(text)
        if got[0] == 'raise':
            ctx.violation(case, f"text literal does not parse: {got[1]}", impl=got)
            continue
        code = got[1]
        if a is not None:
            if txt(a[0]) != text[1:] or txt(a[1]) != code:
                ctx.divergence(case, code, txt(a[1]), 'Model/Emit.v emit_text = OperandNode.emit')
            try:
                py = ('ok', ast.literal_eval(code))
                if not isinstance(py[1], str):
                    py = ('raise', 'not-a-string')
            except (SyntaxError, ValueError) as exc:
                py = ('raise', type(exc).__name__)
            m = ('ok', txt(a[2][1])) if a[2][0] == 0 else ('none',)
            if m != py:
                ctx.divergence(case, py, m, 'Model/Emit.v py_string_literal = CPython literal decoding')
        # the property: a text literal yields exactly its characters
        v = impl.evaluate(text, {})
        if v != ('ok', s):
            ctx.violation(dict(call='eval', args=[text, {}], clause=clause),
                          "text literal does not denote its characters", impl=v, expected=s)
    nums = ['0', '00', '000', '7', '07', '007', '10', '010', '0010', '123', '0123', '90', '09', '1', '01']
    nums += [str(rng.randrange(0, 10 ** rng.randrange(1, 8))).zfill(rng.randrange(1, 9)) for _ in range(ctx.n(300, 3000))]
    ans = ctx.model.batch([('decint', [[ord(c) for c in s]]) for s in nums]) if ctx.model else [None] * len(nums)
    for s, a in zip(nums, ans):
        e = ('num', s)
        clause = clause_of(e)
        ctx.count(('num', s), kind='literal:number')
        try:
            py = ('ok', ast.literal_eval(s))
        except SyntaxError:
            py = ('none',)
        if a is not None:
            m = ('ok', a[1]) if a[0] == 0 else ('none',)
            if m != py:
                ctx.divergence(dict(call='literal', args=[s]), py, m, 'Model/Emit.v py_decint = CPython integer literal')
        v = impl.evaluate('=' + s, {})
        if v != ('ok', int(s)):
            ctx.violation(dict(call='eval', args=['=' + s, {}], clause=clause),
                          "number literal does not denote its value", impl=v, expected=int(s))

    # decimals and exponents (theorem C02_number): Python's reading of the text (py_number) against CPython, Excel's
    # reading (xl_numval) against decimal.Decimal, and the property on the implementation
    decs = list(NUMS) + ['12.5', '.25', '2.', '1E+3', '2.5E-1', '007.5', '007E1', '0.0', '00.5', '1e0', '5E-3', '1.e2',
                         '.5e1', '0E0', '1E300', '1E-300', '1E', '1.2.3', '.', 'E5', '1E+', '.E1', '1E1.5', '007', '00',
                         '0', '123456789.123456789', '0.1', '0.30000000000000004', '1e-05', '9007199254740993']
    for _ in range(ctx.n(400, 4000)):
        ip = ''.join(rng.choice('0123456789') for _ in range(rng.randrange(0, 5)))
        fp = ''.join(rng.choice('0123456789') for _ in range(rng.randrange(0, 5)))
        t = ip + (('.' + fp) if rng.random() < 0.7 else '')
        if rng.random() < 0.4:
            # a signed exponent only after a normalised mantissa (see _kp_exponent_sign)
            normalised = len(ip) == 1 and ip != '0' and (t == ip or fp)
            t += rng.choice('eE') + rng.choice(['', '+', '-'] if normalised else ['']) + \
                str(rng.randrange(0, rng.choice([3, 20, 300])))
        if rng.random() < 0.03:
            t += rng.choice(['.', 'E', '5.'])
        decs.append(t)
    exp_sign = ['12.5E-1', '0.5E+1', '.15e-19', '750.e+2', '10E+2']
    if any(f.get('id') == 'C02-number-exponent-sign' and f.get('kind') == 'known' for f in ctx.findings):
        decs += exp_sign
    ans = ctx.model.batch([('number', [[ord(c) for c in t]]) for t in decs]) if ctx.model else [None] * len(decs)
    for t, a in zip(decs, ans):
        ctx.count(('num', t), kind='literal:number-decimal')
        try:
            v = ast.literal_eval(t)
            py = ('ok', canon(v)) if type(v) in (int, float) else ('none',)
        except (SyntaxError, ValueError):
            py = ('none',)
        try:
            xl = ('ok', fractions.Fraction(decimal.Decimal(t))) if t and t[0] in '0123456789.' else ('none',)
        except (decimal.InvalidOperation, ValueError):
            xl = ('none',)
        if a is not None:
            m_py = ('ok', dec_val(a[0][1])) if a[0][0] == 0 else ('none',)
            m_xl = ('ok', dec_val(a[1][1])) if a[1][0] == 0 else ('none',)
            zeros_ok = bool(a[2])
            if not (m_py == py or (m_py[0] == py[0] == 'ok' and same(m_py[1], py[1]))):
                ctx.divergence(dict(call='literal', args=[t]), py, m_py, 'Model/FormulaEval.v py_number = CPython number literal')
            want_xl = xl if xl[0] == 'none' else ('ok', int(xl[1]) if t.isdigit() else ('float', xl[1]))
            if m_xl != want_xl:
                ctx.divergence(dict(call='literal', args=[t]), want_xl, m_xl,
                               'Model/FormulaEval.v xl_numval = the rational the text writes (decimal.Decimal)')
            if xl[0] == 'ok' and zeros_ok and m_py != m_xl:
                ctx.divergence(dict(call='literal', args=[t]), m_xl, m_py, 'model: py_number = xl_numval (theorem C02_number)')
        if xl[0] == 'ok':
            want = int(t) if t.isdigit() else float(t)
            v = impl.evaluate('=' + t, {})
            if not (v[0] == 'ok' and type(v[1]) is type(want) and v[1] == want):
                ctx.violation(dict(call='eval', args=['=' + t, {}],
                                   clause='number-exponent-sign' if t in exp_sign else clause_of(('num', t))),
                              "number literal does not denote its value", impl=v, expected=want)

    # ---------------------------------------------------------------- oracle: grouping and literals
    seen = set()
    evals = []
    for e, t, text, evalable in cases:
        if not evalable:
            continue
        clause = clause_of(e)
        for _ in range(2):
            env = rand_env(rng)
            key = ('eval', text, tuple(sorted((k, repr(v)) for k, v in env.items())))
            if key in seen:
                continue
            seen.add(key)
            want = impl.ref_value(e, env)
            got = impl.evaluate(text, env)
            ctx.count(key, kind='eval:' + e[0], sample=dict(formula=text, env=env, impl=got, expected=want))
            evals.append(dict(e=e, t=t, text=text, env=env, got=got, want=want, clause=clause))
            if not same_value(got, want):
                ctx.violation(dict(call='eval', args=[text, env], clause=clause),
                              "compiled formula differs from the value of Excel's parse "
                              "(implementation's own operators applied per node of the intended tree)",
                              impl=got, expected=want)

    # ---------------------------------------------------------------- evaluation correspondence (theorem C02_eval)
    if ctx.model:
        model_eval_stream(ctx, impl, evals)
