"""C08 — trim_graph preserves the outputs as a function of the inputs: the
trimmed model (directly and after a save/load round trip) against the
untrimmed one under every assignment of the inputs, on generated workbooks x
input/output choices; plus the trim model of coq/Model/Trim.v."""
import itertools
import os
import shutil

from harness import wbgen
from harness.common import canon, dec_val, enc_val, ensure_impl_on_path, known_predicate, same

GEN_MODULES = ['excelutil', 'aggregates', 'stats']

ASSUMPTIONS = [
    "inputs are chosen among cells that have a dependant leading to a chosen output (trim_graph raises "
    "ValueError for the others by design); values written to the inputs come from the clean pool",
    "the save/load leg goes through yml, json or pkl files in the check's work directory",
    "unbounded row/column ranges are outside coq/Model/Trim.v: that stream is judged by the oracle alone",
    "the spelling of an address (quoted sheet, $, lower case, address objects) and multi-sheet workbooks are outside "
    "coq/Model/Trim.v (nodes are indices there): the spelling stream is judged by the oracle alone",
    "the trim-colb stream (whole-column reference S!B:B as a node of range kind, alias of the bounded range "
    "node) is model-backed including the survival of the reference node (Model/TrimKeep.v trim_keepref = trim + "
    "repair 17855a0; C08_keepref_same / C08_keepref_outputs_weak tie it to trim)",
]


# New finding, reported to the coordinator; INERT until it is entered in known_findings.json (no case with
# call='trim-range-input' is generated): an input given as a range protects only the dependants of the range
# node, a formula reading a member cell directly is frozen and goes stale (coq/Refuted/C08_range_input.v).
#   A1=1, A2=2, A3==A1+10, A4==SUM(A1:A2)+A3; trim_graph(['S!A1:A2'], ['S!A4']); set_value('S!A1:A2', (5, 7));
#   evaluate('S!A4') -> 12, untrimmed 27
@known_predicate('C08-range-input')
def _range_input(case):
    return case.get('call') == 'trim-range-input'


# Found by the unbounded-range stream on the tree with repair 17855a0: trim_graph BEFORE the first evaluation keeps
# the reference cell S!B:B (value not computed yet) but deletes the bounded range S!B1:B4 it stands for when no input
# is below that range; _evaluate_range then reads `.value` of a missing cell.  The loaded legs are fine (from_file
# rebuilds the range), a trim after the first evaluation is fine (S!B:B holds its value).
#   A1=1, B1=2, B2=5, D4==SUM(B:B)+A1; ExcelCompiler(...).trim_graph(['S!A1'], ['S!D4']); evaluate('S!D4')
#   -> FormulaEvalError (AttributeError: 'NoneType' object has no attribute 'value'), untrimmed 8
# (repaired in /repo 460e342: no predicate; the stream reports it again if it returns)


def ancestors(wb, n):
    out = set()
    stack = list(wb.nodes[n]['deps'])
    while stack:
        d = stack.pop()
        if d not in out:
            out.add(d)
            stack.extend(wb.nodes[d]['deps'])
    return out


def gen_chained(rng):
    """A small random workbook (C01 generator) extended by a chain  x -> O1 -> m.. -> O2 [-> m.. -> O3]:
    every O is a requested output, every m (one or two per link) is an ordinary formula cell that reads ONLY
    the cell before it (and a literal), so the inputs - cells at or above x - reach the later outputs through
    the earlier outputs and the cells between them, by no other path.  An output may read a second, unrelated
    cell as well.  Returns (wb, [(inputs, outputs)]): 2-4 choices of 1-2 inputs, all chain outputs requested
    (in any order) or the first and the last only."""
    wb = wbgen.gen_workbook(rng, ncells=rng.randrange(3, 6), pool=wbgen.CLEAN_POOL + [0, 1])
    base = wb.cells()

    def row(i):
        return wb.nodes[i]['row']

    def unary(src):
        sym, code = rng.choice([('+', 0), ('-', 1), ('*', 2), ('+', 0), ('*', 2), ('&', 5)])
        z = rng.choice([1, 2, 3, 10])
        if rng.random() < 0.6:
            return wb.add_formula(f'=A{row(src)}{sym}{z}', [src], [3, code, [0, 0], [1, z]])
        return wb.add_formula(f'={z}{sym}A{row(src)}', [src], [3, code, [1, z], [0, 0]])

    def binary(src, other):
        sym, code = rng.choice([('+', 0), ('-', 1), ('*', 2), ('&', 5)])
        return wb.add_formula(f'=A{row(src)}{sym}A{row(other)}', [src, other], [3, code, [0, 0], [0, 1]])
    x = rng.choice(base)
    outs, cur = [], x
    for link in range(rng.choice([2, 2, 3])):
        if link:
            for _ in range(rng.randrange(1, 3)):
                cur = unary(cur)
        other = rng.choice(base)
        cur = unary(cur) if rng.random() < 0.65 or other == cur else binary(cur, other)
        outs.append(cur)
    above = [a for a in ancestors(wb, outs[0]) if wb.nodes[a]['kind'] != 'range']
    choices = []
    for _ in range(rng.randrange(2, 5)):
        ins = tuple(rng.sample(above, 1 if len(above) < 2 or rng.random() < 0.6 else 2))
        want = list(outs) if rng.random() < 0.75 else [outs[0], outs[-1]]
        rng.shuffle(want)
        if (ins, tuple(want)) not in choices:
            choices.append((ins, tuple(want)))
    return wb, choices


def run(ctx):
    ensure_impl_on_path()
    from pycel import ExcelCompiler
    rng = ctx.rng
    os.makedirs(ctx.work, exist_ok=True)
    ctx.extra['rule'] = (
        "single-sheet DAG workbooks of 5-8 cells (C01 generator) x choices of output set (1-2 formula cells or a "
        "range) and input set (1-3 cells among the outputs' ancestors: leaf inputs and buried formula cells) — "
        "exhaustive over single inputs/outputs for small workbooks, sampled beyond — x 3 rounds of re-assignment "
        "of every input from the value pool; compared: untrimmed, trimmed, trimmed+saved+loaded (yml/json/pkl), "
        "trimmed before vs after the first evaluate; distinct = distinct (workbook, inputs, outputs). "
        "Chained-outputs stream (same legs, oracle and model): a small workbook extended by a chain x -> O1 -> m.. -> "
        "O2 [-> m.. -> O3] where every O is requested and the cells m between them read only their predecessor, so "
        "that the inputs (at or above x) reach the later outputs only THROUGH the earlier ones; 2-3 outputs per trim. "
        "Unbounded-range stream (oracle only): sheets with columns A, B (constants; B also formulas over A / the B "
        "cell above) and outputs in column D reading whole columns or rows (=SUM(B:B)+A1, A:B, 2:3, chained "
        "outputs), inputs among the constants the outputs read, so that the unbounded range is independent of the "
        "inputs or contains one; untrimmed vs trimmed vs trimmed+saved+loaded through yml, json AND pkl, 3 "
        "assignment rounds; the untrimmed model is also compared with a fresh compile of the workbook holding the "
        "values written so far. Spelling stream (oracle only): two sheets named from a pool with names that need "
        "quotes ('Rates 2024', it's here, 2024 Q1) and plain ones - constants and formulas on a data sheet, formulas "
        "reading it on a calculation sheet; trim_graph called with the input and output addresses in every valid "
        "spelling (canonical text, quoted sheet name, absolute $A$1 / $A1 / A$1, lower-case column, AddressCell / "
        "AddressRange objects), later set_value / evaluate through a spelling too; same legs (yml, json and pkl) and "
        "oracle. Numpy-frozen stream (oracle only, bit for bit): columns A (x) and B (y = three-digit numbers times "
        "10^e, e in -15..-3 and 3..15, a few cases of magnitude 1 and a few all-integer ones) read by input-independent "
        "formulas that return NUMPY scalars (SUMPRODUCT, SLOPE, INTERCEPT, FORECAST, TREND, INDEX(LINEST()), arithmetic "
        "on those), which trim_graph therefore freezes; the outputs combine them with the input E1 (products that "
        "multiply the small constants up, quotients, EXP, LN, a SUM over the frozen cells, the text of one); "
        "untrimmed vs trimmed vs trimmed+saved+loaded through yml, json and pkl, 3 assignment rounds of E1 over "
        "1e-3..1e12: class and every bit of every output (float.hex)")
    nwb = ctx.n(200, 2000)
    nchain = ctx.n(70, 700)
    model_batch = []
    refused_batch = []
    for k in range(nwb + nchain):
        if k >= nwb:
            # chained outputs: one requested output feeds a later requested output through cells that are not outputs
            wb, chain_choices = gen_chained(rng)
        else:
            wb, chain_choices = wbgen.gen_workbook(rng, ncells=rng.randrange(5, 9),
                                                   pool=wbgen.CLEAN_POOL + [0, 1, None]), None
        desc = [(x['addr'], x.get('value'), x.get('text')) for x in wb.nodes]
        formulas = wb.formulas()
        if not formulas:
            continue
        choices = []
        if chain_choices is not None:
            choices, formulas = chain_choices, []
        for o in formulas:
            anc = [a for a in ancestors(wb, o) if wb.nodes[a]['kind'] != 'range']
            for a in anc:
                choices.append(((a,), (o,)))
            if len(anc) >= 2:
                choices.append((tuple(rng.sample(anc, 2)), (o,)))
        if len(formulas) >= 2:
            o2 = tuple(rng.sample(formulas, 2))
            anc = [a for a in set(ancestors(wb, o2[0])) | set(ancestors(wb, o2[1]))
                   if wb.nodes[a]['kind'] != 'range']
            if anc:
                choices.append((tuple(rng.sample(anc, min(len(anc), rng.randrange(1, 4)))), o2))
        if len(choices) > 10:
            choices = rng.sample(choices, 10)
        for ci, (ins, outs) in enumerate(choices):
            in_addrs = [wb.nodes[i]['addr'] for i in ins]
            out_addrs = [wb.nodes[o]['addr'] for o in outs]
            case = dict(call='trim', workbook=desc, args=[in_addrs, out_addrs])
            early = rng.random() < 0.5          # trim before anything was evaluated
            try:
                full = ExcelCompiler(excel=wb.to_openpyxl())
                trimmed = ExcelCompiler(excel=wb.to_openpyxl())
                if not early:
                    for o in outs:
                        trimmed.evaluate(wb.nodes[o]['addr'])
                trimmed.trim_graph(in_addrs, out_addrs)
            except ValueError as exc:
                # an input without a path to the outputs: documented refusal
                ctx.histogram['refused'] = ctx.histogram.get('refused', 0) + 1
                refused_batch.append((case, wb, ins, outs, early))
                continue
            except Exception as exc:      # noqa: BLE001
                ctx.violation(case, f"trim_graph raises {type(exc).__name__}: {exc}"[:200])
                continue
            # what the trim left behind (for the correspondence with Model/Trim.v)
            after = dict(
                kept=sorted(i for i, x in enumerate(wb.nodes) if x['addr'] in trimmed.cell_map),
                frozen=sorted(i for i in wb.formulas() if wb.nodes[i]['addr'] in trimmed.cell_map
                              and not trimmed.cell_map[wb.nodes[i]['addr']].formula),
                snap=wbgen.snapshot(trimmed, wb), extra=sorted(a for a in trimmed.cell_map
                                                               if wb.index_of(a) is None))
            full_ops, per_round = [], []
            ext = rng.choice(['yml', 'json', 'pkl'])
            stem = os.path.join(ctx.work, f'trim{k}_{ci}')
            try:
                trimmed.to_file(stem, file_types=(ext,))
                loaded = ExcelCompiler.from_file(stem + '.' + ext)
            except Exception as exc:      # noqa: BLE001
                ctx.violation(dict(case, leg='save/load'), f"save/load of the trimmed model raises {type(exc).__name__}: {exc}"[:200])
                loaded = None
            for f in os.listdir(ctx.work):
                if f.startswith(f'trim{k}_{ci}'):
                    os.remove(os.path.join(ctx.work, f))
            ctx.count((k, ci), kind=('trim-early' if early else 'trim-late') + (':chained-outputs' if k >= nwb else ''),
                      sample=dict(case, early=early))
            rounds = []
            for rnd in range(3):
                assign = {i: rng.choice(wbgen.CLEAN_POOL) for i in ins} if rnd else {}
                rounds.append(assign)
                for comp_name, comp in (('untrimmed', full), ('trimmed', trimmed), ('loaded', loaded)):
                    if comp is None:
                        continue
                    try:
                        for i, v in assign.items():
                            if comp_name == 'untrimmed' and wb.nodes[i]['addr'] not in comp.cell_map:
                                comp.evaluate(wb.nodes[i]['addr'])
                                full_ops.append(([0, i], False))
                            comp.set_value(wb.nodes[i]['addr'], v)
                            if comp_name == 'untrimmed':
                                full_ops.append(([1, i, enc_val(v)], False))
                    except Exception as exc:      # noqa: BLE001
                        ctx.violation(dict(case, leg=comp_name, assign={wb.nodes[i]['addr']: v for i, v in assign.items()}),
                                      f"set_value on the {comp_name} model raises {type(exc).__name__}: {exc}"[:200])
                res = {}
                for comp_name, comp in (('untrimmed', full), ('trimmed', trimmed), ('loaded', loaded)):
                    if comp is None:
                        continue
                    try:
                        res[comp_name] = [canon(comp.evaluate(a)) for a in out_addrs]
                    except Exception as exc:      # noqa: BLE001
                        res[comp_name] = f'{type(exc).__name__}: {exc}'[:120]
                full_ops.extend(([0, o], True) for o in outs)
                per_round.append(dict(res))
                for leg in ('trimmed', 'loaded'):
                    if leg in res and res[leg] != res['untrimmed']:
                        ctx.violation(dict(case, leg=leg, early=early,
                                           assign={wb.nodes[i]['addr']: v for i, v in assign.items()}),
                                      f"outputs of the {leg} model differ from the untrimmed model",
                                      impl=res[leg], expected=res['untrimmed'])
            model_batch.append((case, wb, ins, outs, early, rounds, per_round, after, full_ops))
    ctx.extra['model_trim_cases'] = len(model_batch)
    correspondence(ctx, model_batch, refused_batch)
    # ---- inputs given as a range (the property's quantifier includes ranges as inputs)
    for k in range(ctx.n(30, 300)):
        wb = wbgen.WB()
        a1 = wb.add_input(rng.choice([1, 2, 3]))
        a2 = wb.add_input(rng.choice([2, 5, 7]))
        f3 = wb.add_formula('=A1+10', [a1], [3, 0, [0, 0], [1, 10]])
        ri = wb.get_range(1, 2)
        f4 = wb.add_formula('=SUM(A1:A2)+A3' if rng.random() < 0.7 else '=SUM(A1:A2)*2',
                            [ri, f3] if True else [ri], [3, 0, [0, 0], [0, 1]])
        if wb.nodes[f4]['text'].endswith('*2'):
            wb.nodes[f4]['deps'] = [ri]
        desc = [(x['addr'], x.get('value'), x.get('text')) for x in wb.nodes]
        case = dict(call='trim-range-input', workbook=desc, args=[['S!A1:A2'], ['S!A4']])
        ctx.count(('range-input', k), kind='trim-range-input')
        try:
            full = ExcelCompiler(excel=wb.to_openpyxl())
            trimmed = ExcelCompiler(excel=wb.to_openpyxl())
            trimmed.trim_graph(['S!A1:A2'], ['S!A4'])
            vals = (rng.choice([5, 6]), rng.choice([7, 8]))
            for comp in (full, trimmed):
                if 'S!A1:A2' not in comp.cell_map:
                    comp.evaluate('S!A4')
                comp.set_value('S!A1:A2', vals)
            a, b = canon(full.evaluate('S!A4')), canon(trimmed.evaluate('S!A4'))
            if a != b:
                ctx.violation(dict(case, assign=list(vals)), "outputs of the trimmed model differ from the untrimmed model",
                              impl=b, expected=a)
        except Exception as exc:      # noqa: BLE001
            ctx.violation(case, f"trim with a range input raises {type(exc).__name__}: {exc}"[:200])
    unbounded_stream(ctx, ExcelCompiler)
    try:
        spelling_stream(ctx, ExcelCompiler)
    except Exception:      # noqa: BLE001
        import traceback
        ctx.broke("harness: spelling_stream failed", traceback.format_exc())
    colb_stream(ctx, ExcelCompiler)
    try:
        numpy_frozen_stream(ctx, ExcelCompiler)
    except Exception:      # noqa: BLE001
        import traceback
        ctx.broke("harness: numpy_frozen_stream failed", traceback.format_exc())
    shutil.rmtree(ctx.work, ignore_errors=True)


def colb_stream(ctx, ExcelCompiler):
    """Model-backed: the two-column workbooks of harness/wbgen.py (gen_workbook(colb=True): constants and trailing
    blanks in column B, formulas of column A over the whole column B:B, the explicit B1:Bm, smaller blocks and
    single cells of column B).  Outputs = 1-2 formula cells, inputs = 1-2 constants among their ancestors (cells of
    column B: members of the whole-column range; cells of column A).  Legs: untrimmed, trimmed (before / after the
    first evaluate), trimmed + saved + loaded; 3 assignment rounds.  Oracle: every leg = untrimmed.  Model:
    Model/TrimKeep.v trim_keepref on the same case (S!B:B = a node of range kind, Model/GraphExpr.v FAlias; trim_keepref
    = Model/Trim.v trim + repair 17855a0: the reference cell of an unbounded range is kept whenever the walk over the
    precedents walks into it — C08_keepref_same / C08_keepref_outputs_weak: same workbook, frozen cells, values and
    outputs as trim): outputs of every round on the trimmed machine, the surviving cells INCLUDING the reference node
    and the frozen formula cells; Model/Graph.v on the untrimmed rounds."""
    rng = ctx.rng
    batch = []
    for k in range(ctx.n(60, 600)):
        wb = wbgen.gen_workbook(rng, ncells=rng.randrange(4, 8), pool=wbgen.CLEAN_POOL + [0, 1], colb=True)
        desc = [(x['addr'], x.get('value'), x.get('text')) for x in wb.nodes]
        formulas = wb.formulas()
        for ci in range(2):
            outs = tuple(rng.sample(formulas, 1 if len(formulas) < 2 or rng.random() < 0.7 else 2))
            anc = sorted(a for o in outs for a in ancestors(wb, o) if wb.nodes[a]['kind'] == 'input')
            anc = list(dict.fromkeys(anc))
            if not anc:
                continue
            ins = tuple(rng.sample(anc, 1 if len(anc) < 2 or rng.random() < 0.5 else 2))
            in_addrs = [wb.nodes[i]['addr'] for i in ins]
            out_addrs = [wb.nodes[o]['addr'] for o in outs]
            case = dict(call='trim-colb', workbook=desc, args=[in_addrs, out_addrs])
            early = rng.random() < 0.5
            try:
                full = ExcelCompiler(excel=wb.to_openpyxl())
                trimmed = ExcelCompiler(excel=wb.to_openpyxl())
                if not early:
                    for o in outs:
                        trimmed.evaluate(wb.nodes[o]['addr'])
                trimmed.trim_graph(in_addrs, out_addrs)
            except ValueError:
                ctx.histogram['colb-refused'] = ctx.histogram.get('colb-refused', 0) + 1
                continue
            except Exception as exc:      # noqa: BLE001
                ctx.violation(dict(case, early=early), f"trim_graph raises {type(exc).__name__}: {exc}"[:200])
                continue
            kept = sorted(i for i, x in enumerate(wb.nodes) if x['addr'] in trimmed.cell_map)
            frozen = sorted(i for i in formulas if wb.nodes[i]['addr'] in trimmed.cell_map
                            and not trimmed.cell_map[wb.nodes[i]['addr']].formula)
            legs = [('untrimmed', full), ('trimmed', trimmed)]
            ext = rng.choice(['yml', 'json', 'pkl'])
            stem = os.path.join(ctx.work, f'colb{k}_{ci}_m')
            try:
                trimmed.to_file(stem, file_types=(ext,))
                legs.append(('loaded', ExcelCompiler.from_file(stem + '.' + ext)))
            except Exception as exc:      # noqa: BLE001
                ctx.violation(dict(case, leg='save/load', format=ext, early=early),
                              f"save/load of the trimmed model raises {type(exc).__name__}: {exc}"[:200])
            for f in os.listdir(ctx.work):
                if f.startswith(f'colb{k}_{ci}_'):
                    os.remove(os.path.join(ctx.work, f))
            ctx.count(('colb', k, ci), kind='trim-colb:' + ('early' if early else 'late'),
                      sample=dict(case, early=early))
            rounds, per_round, full_ops = [], [], []
            for rnd in range(3):
                assign = {i: rng.choice(wbgen.CLEAN_POOL) for i in ins} if rnd else {}
                rounds.append(assign)
                res = {}
                for name, comp in legs:
                    try:
                        for i, v in assign.items():
                            if name == 'untrimmed' and wb.nodes[i]['addr'] not in comp.cell_map:
                                comp.evaluate(wb.nodes[i]['addr'])
                                full_ops.append(([0, i], False))
                            comp.set_value(wb.nodes[i]['addr'], v)
                            if name == 'untrimmed':
                                full_ops.append(([1, i, enc_val(v)], False))
                        res[name] = [canon(comp.evaluate(a)) for a in out_addrs]
                    except Exception as exc:      # noqa: BLE001
                        res[name] = f'{type(exc).__name__}: {exc}'[:120]
                full_ops.extend(([0, o], True) for o in outs)
                per_round.append(res)
                for name, _ in legs[1:]:
                    if res[name] != res['untrimmed']:
                        ctx.violation(dict(case, leg=name, early=early, round=rnd,
                                           assign={wb.nodes[i]['addr']: v for i, v in assign.items()}),
                                      f"outputs of the {name} model differ from the untrimmed model",
                                      impl=res[name], expected=res['untrimmed'])
            batch.append((case, wb, ins, outs, early, rounds, per_round, kept, frozen, full_ops))
    if not ctx.model or not batch:
        return
    calls = [trim_call(wb, ins, outs, early, rounds, entry='trimk')
             for (_, wb, ins, outs, early, rounds, _, _, _, _) in batch]
    calls += [('history', [wb.wire(), [op for op, _ in ops]]) for (_, wb, _, _, _, _, _, _, _, ops) in batch]
    answers = ctx.model.batch(calls)
    compared = dict(trim_cases=0, outputs=0, untrimmed_values=0, reference_kept=0,
                    reference_kept_not_below_an_input=0)
    for (case, wb, ins, outs, early, rounds, per_round, kept, frozen, ops), ans, hist in zip(
            batch, answers[:len(batch)], answers[len(batch):]):
        if not isinstance(ans, list) or len(ans) != 5 or ans[0] != 0:
            ctx.divergence(dict(case, early=early), 'trim_graph accepted the inputs', ans if not isinstance(ans, list)
                           else ans[:1], 'Model/Trim.v trim entry accepts the case')
            continue
        compared['trim_cases'] += 1
        _, mkeptf, mfrozenf, _, mrounds = ans
        ref = wb.colref
        mkept = [i for i, f in enumerate(mkeptf) if f]
        if ref is not None and ref in kept:
            compared['reference_kept'] += 1
            compared['reference_kept_not_below_an_input'] += not any(i in ancestors(wb, ref) for i in ins)
        if mkept != kept:
            ctx.divergence(dict(case, early=early), kept, mkept,
                           'Model/TrimKeep.v trim_keepref kept cells = cell_map after trim_graph '
                           '(reference node S!B:B included)')
            continue
        mfrozen = [i for i, f in enumerate(mfrozenf) if f and wb.nodes[i]['kind'] == 'formula']
        if mfrozen != frozen:
            ctx.divergence(dict(case, early=early), frozen, mfrozen,
                           'Model/Trim.v frozen formula cells = cells whose formula trim_graph removed')
            continue
        for rnd, (res, mvals) in enumerate(zip(per_round, mrounds)):
            iv = res.get('trimmed')
            if not isinstance(iv, list):
                continue
            mv = [model_value(x) for x in mvals]
            compared['outputs'] += len(iv)
            if len(mv) != len(iv) or any(not same(a, b) for a, b in zip(mv, iv)):
                ctx.divergence(dict(case, early=early, round=rnd,
                                    assign={wb.nodes[i]['addr']: v for i, v in rounds[rnd].items()}),
                               iv, mv, 'Model/Trim.v outputs on the trimmed machine = trimmed ExcelCompiler.evaluate')
                break
        if isinstance(hist, list) and (not hist or isinstance(hist[0], list)):
            want = [v for res in per_round if isinstance(res.get('untrimmed'), list) for v in res['untrimmed']]
            vals = [model_value(m[0]) for (op, is_out), m in zip(ops, hist) if is_out]
            compared['untrimmed_values'] += len(vals)
            if len(vals) != len(want) or any(not same(a, b) for a, b in zip(vals, want)):
                ctx.divergence(dict(case, leg='untrimmed'), want, vals,
                               'Model/Graph.v evaluate = untrimmed ExcelCompiler.evaluate (two-column workbook)')
    ctx.extra['correspondence_colb'] = compared


# ------------------------------------------------------------------ frozen numpy scalars of any magnitude
# repaired in /repo 7a4d677: no longer a registered predicate (a recurrence is reported)
def _frozen_numpy_int(case):
    """numpy-frozen stream, the save/load leg raises, and trim_graph froze a cell holding a numpy INTEGER (listed by
    the stream from the trimmed cell map: an all-integer SUMPRODUCT, FACTDOUBLE) - nothing else is matched"""
    return case.get('call') == 'trim-numpy-frozen' and case.get('leg') == 'save/load' and \
        bool(case.get('frozen_numpy_int')) and case.get('raises') in ('RepresenterError', 'TypeError')


NUMPY_CONST_FORMS = [
    lambda n, j: f'=SUMPRODUCT(A1:A{n},B1:B{n})',
    lambda n, j: f'=SUMPRODUCT(A1:A{n},B1:B{n})',
    lambda n, j: f'=SLOPE(B1:B{n},A1:A{n})',
    lambda n, j: f'=INTERCEPT(B1:B{n},A1:A{n})',
    lambda n, j: f'=FORECAST({j + 4},B1:B{n},A1:A{n})',
    lambda n, j: f'=TREND(B1:B{n},A1:A{n})',
    lambda n, j: f'=INDEX(LINEST(B1:B{n},A1:A{n}),{1 + j % 2})',
]
NUMPY_INPUT_VALUES = [1, 2, 3.5, 7, 1000, 0.25, 1e-3, 1e9, 1e12, 31557600, -2, 0.1]


def exact_bits(v):
    """class and every bit of a result: a numpy float counts as the float it holds, a numpy integer as the int"""
    import numpy as np
    if isinstance(v, (bool, np.bool_)):
        return ['bool', bool(v)]
    if isinstance(v, (float, np.floating)):
        return ['float', float(v).hex()]
    if isinstance(v, (int, np.integer)):
        return ['int', int(v)]
    if isinstance(v, (tuple, list)):
        return [exact_bits(x) for x in v]
    return v


def numpy_frozen_stream(ctx, ExcelCompiler):
    """Oracle only.  Sheet S: A1:An (x) and B1:Bn (y) constants, the input E1, column C = formulas over A and B only
    (input-independent) that return numpy scalars - SUMPRODUCT, SLOPE, INTERCEPT, FORECAST, TREND, INDEX(LINEST()) -
    and arithmetic on them; y = three-digit numbers times 10^e with e in -15..-3 or 3..15 (a few cases of magnitude 1,
    a few all-integer cases: numpy integers), so the frozen values range over 1e-15 .. 1e+15.  Column D = outputs
    combining column C with E1: products that multiply the small constants up, quotients, EXP(-c*E1), LN(2)/c/E1, a
    SUM over the frozen cells, the text of a frozen value.  trim_graph([E1], outputs) freezes column C.  Legs:
    untrimmed, trimmed (before / after the first evaluate), trimmed + saved + loaded through yml, json and pkl;
    3 rounds of assignment of E1.  Every output of every leg = the untrimmed model's, class and bits (float.hex)."""
    import numpy as np
    import openpyxl
    rng = ctx.rng
    for k in range(ctx.n(24, 300)):
        n = rng.randrange(3, 7)
        integers = k % 8 == 5
        e = 0 if integers or k % 8 == 1 else rng.choice([-1, 1]) * rng.randrange(3, 16)
        xs = rng.sample([1, 2, 3, 4, 5, 7, 10, 12] if integers else [1, 2, 3, 4, 5, 7, 10, 0.5, 2.5, 12], n)
        ys = [rng.randrange(1, 60) if integers else float(f'{rng.randrange(100, 1000) / 100}e{e}') for _ in range(n)]
        cells = {}
        for r, (x, y) in enumerate(zip(xs, ys), 1):
            cells[f'A{r}'], cells[f'B{r}'] = x, y
        cells['E1'] = rng.choice([1, 2, 3, 3600.0, 0.5])
        m = rng.randrange(2, 5)
        for j in range(1, m + 1):
            cells[f'C{j}'] = (NUMPY_CONST_FORMS[0] if j == 1 and k % 2 else rng.choice(NUMPY_CONST_FORMS))(n, j)
        if integers and rng.random() < 0.5:
            cells[f'C{m}'] = f'=FACTDOUBLE(A{rng.randrange(1, n + 1)})'
        for j in range(m + 1, m + 1 + rng.randrange(0, 3)):       # arithmetic on the numpy results
            u, v = rng.randrange(1, m + 1), rng.randrange(1, m + 1)
            cells[f'C{j}'] = rng.choice([f'=C{u}*2', f'=C{u}/C{v}', f'=C{u}-C{v}', f'=C{u}*C{v}', f'=C{u}+B1'])
            m = j
        outs = []
        for j in range(1, rng.randrange(3, 6)):
            u, v = rng.randrange(1, m + 1), rng.randrange(1, m + 1)
            big = 10 ** rng.choice([6, 9, 12, 15])
            cells[f'D{j}'] = rng.choice([
                f'=C{u}*E1', f'=E1*C{u}*{big}', f'=C{u}*{big}+E1', f'=E1/C{u}', f'=C{u}+E1*C{v}',
                f'=IF(C{u}>0,LN(2)/C{u}/E1,"never")', f'=EXP(-C{u}*E1)', f'=SUM(C1:C{m})*E1', f'=C{u}&""&E1',
                f'=MAX(C1:C{m})-E1', f'=(C{u}-C{v})*E1', f'=C{u}*E1=C{v}*E1'])
            outs.append(f'S!D{j}')
        desc = [(f'S!{a}', None, v) if isinstance(v, str) else (f'S!{a}', v, None) for a, v in cells.items()]
        case = dict(call='trim-numpy-frozen', workbook=desc, args=[['S!E1'], outs], magnitude=f'1e{e}')
        early = rng.random() < 0.5

        def build():
            owb = openpyxl.Workbook()
            ws = owb.active
            ws.title = 'S'
            for a, v in cells.items():
                ws[a] = v
            return owb
        try:
            full = ExcelCompiler(excel=build())
            trimmed = ExcelCompiler(excel=build())
            if not early:
                trimmed.evaluate(outs)
            trimmed.trim_graph(['S!E1'], outs)
        except Exception as exc:      # noqa: BLE001
            # trim_graph evaluates the outputs: when the UNTRIMMED model raises the same error on them (EXP of a
            # huge frozen slope overflows) there is no untrimmed answer to preserve - outside the property
            try:
                ExcelCompiler(excel=build()).evaluate(outs)
                same_failure = False
            except Exception as exc2:      # noqa: BLE001
                same_failure = type(exc2) is type(exc)
            if same_failure:
                ctx.histogram['trim-numpy-frozen: untrimmed raises too (skipped)'] = \
                    ctx.histogram.get('trim-numpy-frozen: untrimmed raises too (skipped)', 0) + 1
            else:
                ctx.violation(case, f"trim_graph raises {type(exc).__name__}: {exc}"[:200])
            continue
        frozen = {a: c.value for a, c in trimmed.cell_map.items() if a.startswith('S!C') and not c.formula}
        kinds = sorted({type(v).__name__ for v in frozen.values()})
        np_int = sorted(a for a, v in frozen.items() if isinstance(v, np.integer))
        ctx.count(('numpy-frozen', k), kind='trim-numpy-frozen:' + ('integers' if integers else f'1e{e:+03d}'),
                  sample=dict(case, early=early, frozen={a: repr(v) for a, v in frozen.items()}))
        ctx.histogram['trim-numpy-frozen: frozen ' + '/'.join(kinds)] = \
            ctx.histogram.get('trim-numpy-frozen: frozen ' + '/'.join(kinds), 0) + 1
        legs = [('untrimmed', full), ('trimmed', trimmed)]
        for ext in ('yml', 'json', 'pkl'):
            stem = os.path.join(ctx.work, f'npf{k}_{ext}_m')
            try:
                trimmed.to_file(stem, file_types=(ext,))
                legs.append((f'loaded:{ext}', ExcelCompiler.from_file(stem + '.' + ext)))
            except Exception as exc:      # noqa: BLE001
                ctx.violation(dict(case, leg='save/load', format=ext, early=early, frozen_numpy_int=np_int,
                                   raises=type(exc).__name__),
                              f"save/load of the trimmed model raises {type(exc).__name__}: {exc}"[:200])
            for f in os.listdir(ctx.work):
                if f.startswith(f'npf{k}_{ext}'):
                    os.remove(os.path.join(ctx.work, f))
        for rnd in range(3):
            assign = {'S!E1': rng.choice(NUMPY_INPUT_VALUES)} if rnd else {}
            res = {}
            for name, comp in legs:
                try:
                    for a, v in assign.items():
                        comp.set_value(a, v)
                    res[name] = [exact_bits(comp.evaluate(o)) for o in outs]
                except Exception as exc:      # noqa: BLE001
                    res[name] = f'{type(exc).__name__}: {exc}'[:120]
            for name, _ in legs[1:]:
                if res[name] == res['untrimmed']:
                    continue
                shown = dict(case, leg=name, early=early, round=rnd, assign=assign,
                             frozen={a: repr(v) for a, v in frozen.items()})
                if not (isinstance(res[name], list) and isinstance(res['untrimmed'], list)):
                    ctx.violation(shown, f"outputs of the {name.split(':')[0]} model differ from the untrimmed model",
                                  impl=res[name], expected=res['untrimmed'])
                    continue
                e1 = assign.get('S!E1', cells['E1'])
                scale = max([abs(float(v)) for v in frozen.values()
                             if isinstance(v, (int, float)) and not isinstance(v, bool)] or [0.0]) * \
                    (abs(float(e1)) if isinstance(e1, (int, float)) and not isinstance(e1, bool) else 1.0)
                for o, got, want in zip(outs, res[name], res['untrimmed']):      # every differing output on its own
                    if got != want:
                        ctx.violation(dict(shown, output=o, output_formula=cells[o.split('!')[1]],
                                           diff='float-last-bits' if _last_bits(got, want) else
                                           'float-last-bits-of-summands' if _last_bits(got, want, scale) else 'other'),
                                      f"an output of the {name.split(':')[0]} model differs from the untrimmed model "
                                      "(class / bits)", impl=got, expected=want)


def _last_bits(a, b, scale=None):
    """two exact_bits observations: floats that differ by rounding only (relative 1e-14; with `scale`: 1e-14 of the
    largest summand times the input, the rounding of a sum whose terms cancel)"""
    if not (isinstance(a, list) and isinstance(b, list) and len(a) == 2 == len(b) and a[0] == 'float' == b[0]):
        return False
    u, v = float.fromhex(a[1]), float.fromhex(b[1])
    return abs(u - v) <= 1e-14 * (max(abs(u), abs(v)) if scale is None else scale)


@known_predicate('C08-frozen-numpy-sum-rounding')
def _frozen_numpy_sum(case):
    """numpy-frozen stream, a LOADED leg, the differing output is a SUM over the range of frozen cells and the two
    floats differ by rounding only (1e-14 of the result, or - when the summands cancel - 1e-14 of the largest
    summand times the input): sum() adds exact floats with compensation and numpy floats one by one"""
    return case.get('call') == 'trim-numpy-frozen' and str(case.get('leg', '')).startswith('loaded') and \
        str(case.get('output_formula', '')).startswith('=SUM(C1:C') and \
        case.get('diff') in ('float-last-bits', 'float-last-bits-of-summands')


# ------------------------------------------------------------------ unbounded row / column ranges
UNB_VALUES = [1, 2, 3, 5, 7, 10, -4, 12, 100, 0]


def unbounded_stream(ctx, ExcelCompiler):
    """Outputs that read whole columns / rows (B:B, A:B, 2:2).  Sheet S: columns A and B, rows 1..n, hold constants
    and (in B) formulas over A or over the B cell above; the outputs live in column D below row n, so that no
    unbounded range contains its own reader.  Inputs are constants of A and B: the unbounded range of an output
    may be independent of every input (=SUM(B:B)+A1, input A1) or contain one (B2 an input too / B2 = A1*2).
    Legs: untrimmed, trimmed (before / after the first evaluate), trimmed + saved + loaded through yml, json AND
    pkl; 3 rounds of assignment of every input.  Oracle: every leg = untrimmed; and untrimmed = a fresh compile of
    the workbook holding the assigned values (a write to a member of A:A must reach =SUM(A:A))."""
    import openpyxl
    rng = ctx.rng
    for k in range(ctx.n(40, 400)):
        n = rng.randrange(2, 5)
        cells = {}
        for r in range(1, n + 1):
            cells[f'A{r}'] = rng.choice(UNB_VALUES) if rng.random() < 0.9 else rng.choice(['text', None])
        shape = k % 4          # 0: B all constants, inputs in A only; 1: a constant of B is an input; 2, 3: free
        for r in range(1, n + 1):
            p = rng.random()
            if shape in (0, 1) or p < 0.5:
                cells[f'B{r}'] = rng.choice(UNB_VALUES)
            elif p < 0.7:
                cells[f'B{r}'] = f'=A{rng.randrange(1, n + 1)}*2'
            elif p < 0.85 or r == 1:
                cells[f'B{r}'] = f'=A{rng.randrange(1, n + 1)}+A{rng.randrange(1, n + 1)}'
            else:
                cells[f'B{r}'] = f'=B{r - 1}+1'
        outs = []
        for j in range(rng.randrange(1, 4)):
            ra, rb = rng.randrange(1, n + 1), rng.randrange(1, n + 1)
            t = rng.choice([f'=SUM(B:B)+A{ra}', f'=SUM(B:B)+A{ra}', '=SUM(B:B)', '=SUM(A:A)*2', '=MAX(A:B)',
                            f'=COUNT(B:B)+A{ra}', f'=SUM({ra}:{ra})', f'=SUM({ra}:{rb})+A{rb}' if ra <= rb else
                            f'=SUM({rb}:{ra})+A{rb}', f'=SUM(A:B)-B{rb}', f'=MIN(B:B)&"x"', f'=AVERAGE(A:A)+B{rb}'])
            if j == 0 and shape in (0, 1):
                t = f'=SUM(B:B)+A{ra}'
            if j and rng.random() < 0.3:
                t += f'+D{n + 1 + j}'
            cells[f'D{n + 2 + j}'] = t
            outs.append(f'S!D{n + 2 + j}')
        n_out = rng.randrange(1, len(outs) + 1)
        out_addrs = rng.sample(outs, n_out)
        anc = _unb_precedents(cells, out_addrs)
        consts = [a for a in sorted(anc) if a[0] in 'AB' and not (isinstance(cells[a], str) and cells[a].startswith('='))]
        a_consts = [a for a in consts if a[0] == 'A']
        b_consts = [a for a in consts if a[0] == 'B']
        if shape == 0 and a_consts:
            ins = rng.sample(a_consts, rng.randrange(1, min(2, len(a_consts)) + 1))
        elif shape == 1 and a_consts and b_consts:
            ins = [rng.choice(a_consts), rng.choice(b_consts)]
        else:
            ins = rng.sample(consts, rng.randrange(1, min(3, len(consts)) + 1))
        in_addrs = [f'S!{a}' for a in ins]
        desc = [(f'S!{a}', None, v) if isinstance(v, str) and v.startswith('=') else (f'S!{a}', v, None)
                for a, v in cells.items()]
        indep = _unb_independent(cells, ins, out_addrs)
        case = dict(call='trim-unbounded', workbook=desc, args=[in_addrs, out_addrs], independent_ranges=indep)
        early = rng.random() < 0.5

        def build(values=None):
            owb = openpyxl.Workbook()
            ws = owb.active
            ws.title = 'S'
            for a, v in cells.items():
                v = (values or {}).get(a, v)
                if v is not None:
                    ws[a] = v
            return owb
        try:
            full = ExcelCompiler(excel=build())
            trimmed = ExcelCompiler(excel=build())
            if not early:
                for o in out_addrs:
                    trimmed.evaluate(o)
            trimmed.trim_graph(in_addrs, out_addrs)
        except ValueError:
            ctx.histogram['unbounded-refused'] = ctx.histogram.get('unbounded-refused', 0) + 1
            continue
        except Exception as exc:      # noqa: BLE001
            ctx.violation(case, f"trim_graph raises {type(exc).__name__}: {exc}"[:200])
            continue
        ctx.count(('unbounded', k), kind='trim-unbounded:' + ('a range independent of the inputs' if indep else
                                                               'every range depends on the inputs'),
                  sample=dict(case, early=early))
        legs = [('untrimmed', full), ('trimmed', trimmed)]
        for ext in ('yml', 'json', 'pkl'):
            stem = os.path.join(ctx.work, f'unb{k}_{ext}_m')     # not ending in an extension name
            try:
                trimmed.to_file(stem, file_types=(ext,))
                legs.append((f'loaded:{ext}', ExcelCompiler.from_file(stem + '.' + ext)))
            except Exception as exc:      # noqa: BLE001
                ctx.violation(dict(case, leg='save/load', format=ext, early=early),
                              f"save/load of the trimmed model raises {type(exc).__name__}: {exc}"[:200])
            for f in os.listdir(ctx.work):
                if f.startswith(f'unb{k}_{ext}'):
                    os.remove(os.path.join(ctx.work, f))
        current = {}
        for rnd in range(3):
            assign = {a: (rng.choice(UNB_VALUES) if rng.random() < 0.92 else 'text') for a in ins} if rnd else {}
            current.update(assign)
            shown = {f'S!{a}': v for a, v in assign.items()}
            res = {}
            for name, comp in legs:
                try:
                    for a, v in assign.items():
                        if name == 'untrimmed' and f'S!{a}' not in comp.cell_map:
                            comp.evaluate(f'S!{a}')
                        comp.set_value(f'S!{a}', v)
                    res[name] = [canon(comp.evaluate(o)) for o in out_addrs]
                except Exception as exc:      # noqa: BLE001
                    res[name] = f'{type(exc).__name__}: {exc}'[:120]
            try:
                fresh = ExcelCompiler(excel=build(current))
                res['fresh'] = [canon(fresh.evaluate(o)) for o in out_addrs]
            except Exception as exc:      # noqa: BLE001
                res['fresh'] = f'{type(exc).__name__}: {exc}'[:120]
            if res['untrimmed'] != res['fresh']:
                ctx.violation(dict(case, leg='untrimmed', round=rnd, assign=shown, values=dict(current)),
                              "outputs of the untrimmed model differ from a fresh compile of the workbook holding the "
                              "values written so far", impl=res['untrimmed'], expected=res['fresh'])
            for name, _ in legs[1:]:
                if res[name] != res['untrimmed']:
                    raises = {'raises': res[name].split(':')[0]} if isinstance(res[name], str) else {}
                    ctx.violation(dict(case, leg=name, early=early, round=rnd, assign=shown, values=dict(current), **raises),
                                  f"outputs of the {name.split(':')[0]} model differ from the untrimmed model",
                                  impl=res[name], expected=res['untrimmed'])


# ------------------------------------------------------------------ every valid spelling of an address
SPELL_SHEETS = ['Rates 2024', 'My Data', "it's here", 'Sheet 1', '2024 Q1', 'Calc', 'S', 'Data_1']
SPELL_VALUES = [1, 2, 3, 5, 7, 10, -4, 12, 100]


def _quote(sheet):
    return "'" + sheet.replace("'", "''") + "'"


def _ref(sheet, coord, here=None):
    """a reference to sheet!coord inside a formula of sheet `here`"""
    if sheet == here:
        return coord
    plain = sheet.replace('_', '').isalnum() and not sheet[0].isdigit()
    return f'{sheet if plain else _quote(sheet)}!{coord}'


def spellings(rng, sheet, coord):
    """valid ways of writing the address of one cell as an argument of trim_graph / set_value / evaluate:
    (label, value).  'canonical' is the text pycel prints for the address (sheet name never quoted)."""
    import re as _re
    from pycel.excelutil import AddressCell, AddressRange
    col, row = _re.fullmatch(r'([A-Z]+)(\d+)', coord).groups()
    plain = sheet.replace('_', '').isalnum() and not sheet[0].isdigit()
    q = _quote(sheet)
    out = [('canonical', f'{sheet}!{coord}'),
           ('quoted-sheet', f'{q}!{coord}'),
           ('absolute', f'{q if not plain else sheet}!${col}${row}'),
           ('absolute-col', f'{q}!${col}{row}'),
           ('absolute-row', f'{q if not plain else sheet}!{col}${row}'),
           ('lower-case', f'{q if not plain else sheet}!{col.lower()}{row}'),
           ('lower-case-absolute', f'{q}!${col.lower()}${row}'),
           ('AddressCell', AddressCell(f'{q}!{coord}')),
           ('AddressRange', AddressRange(f'{q}!{coord}')),
           ('AddressCell-absolute', AddressCell(f'{q}!${col}${row}'))]
    return out


def spelling_stream(ctx, ExcelCompiler):
    """trim_graph (and the set_value / evaluate that follow) called with input and output addresses in every valid
    spelling.  Two sheets - a data sheet (constants in A, formulas in B) and a calculation sheet whose formulas read
    the data sheet - named from a pool with names that need quotes ('Rates 2024', it's here) and plain ones; inputs
    are constants the chosen outputs read.  Legs and oracle as everywhere in C08: untrimmed, trimmed (before / after
    the first evaluate), trimmed + saved + loaded through yml, json and pkl; 3 rounds of assignment of every input;
    every leg = untrimmed, and the untrimmed model addressed through the spellings = the same model addressed
    canonically (a fresh compile holding the assigned values)."""
    import openpyxl
    rng = ctx.rng
    for k in range(ctx.n(60, 600)):
        t1, t2 = rng.sample(SPELL_SHEETS, 2)
        if k % 3 == 0:
            t1 = rng.choice(SPELL_SHEETS[:5])           # the inputs live on a sheet whose name needs quotes
            t2 = rng.choice([x for x in SPELL_SHEETS if x != t1])
        n = rng.randrange(2, 5)
        cells, deps = {}, {}                             # (sheet, coord) -> content / precedents
        for r in range(1, n + 1):
            cells[(t1, f'A{r}')] = rng.choice(SPELL_VALUES)
        for r in range(1, n + 1):
            a, b = rng.randrange(1, n + 1), rng.randrange(1, n + 1)
            form = rng.choice([(f'=A{a}*2', [f'A{a}']), (f'=A{a}+A{b}', [f'A{a}', f'A{b}']),
                               (f'=SUM(A1:A{n})', [f'A{i}' for i in range(1, n + 1)]),
                               (f'=B{r - 1}+A{a}', [f'B{r - 1}', f'A{a}']) if r > 1 else (f'=A{a}-1', [f'A{a}']),
                               (f'=A{a}&"x"', [f'A{a}'])])
            cells[(t1, f'B{r}')] = form[0]
            deps[(t1, f'B{r}')] = [(t1, c) for c in form[1]]
        m = rng.randrange(2, 5)
        for r in range(1, m + 1):
            c1 = rng.choice('AB') + str(rng.randrange(1, n + 1))
            c2 = rng.choice('AB') + str(rng.randrange(1, n + 1))
            forms = [(f'={_ref(t1, c1, t2)}*3', [(t1, c1)]),
                     (f'={_ref(t1, c1, t2)}+{_ref(t1, c2, t2)}', [(t1, c1), (t1, c2)]),
                     (f'=SUM({_ref(t1, "A1", t2)}:A{n})+{_ref(t1, c1, t2)}',
                      [(t1, f'A{i}') for i in range(1, n + 1)] + [(t1, c1)]),
                     (f'={_ref(t1, c1, t2)}&"y"', [(t1, c1)])]
            if r > 1:
                forms += [(f'=A{r - 1}+{_ref(t1, c1, t2)}', [(t2, f'A{r - 1}'), (t1, c1)]),
                          (f'=A{r - 1}*2', [(t2, f'A{r - 1}')])]
            text, d = rng.choice(forms)
            cells[(t2, f'A{r}')] = text
            deps[(t2, f'A{r}')] = d
        outs_all = [(t2, f'A{r}') for r in range(1, m + 1)] + [(t1, f'B{r}') for r in range(1, n + 1)]
        outs = rng.sample(outs_all[:m], rng.randrange(1, min(2, m) + 1))
        if rng.random() < 0.3:
            outs.append(rng.choice(outs_all[m:]))
        anc, todo = set(), list(outs)
        while todo:
            for d in deps.get(todo.pop(), ()):
                if d not in anc:
                    anc.add(d)
                    todo.append(d)
        consts = sorted(c for c in anc if c in cells and c not in deps)
        if not consts:
            continue
        ins = rng.sample(consts, rng.randrange(1, min(3, len(consts)) + 1))
        # the spelling of every address: trim inputs, trim outputs, later writes / reads (mostly canonical there)
        in_sp = [rng.choice(spellings(rng, *c)[(1 if k % 2 else 0):]) for c in ins]
        out_sp = [rng.choice(spellings(rng, *c)) for c in outs]
        use_sp = {c: (rng.choice(spellings(rng, *c)) if rng.random() < 0.3 else spellings(rng, *c)[0])
                  for c in ins + outs}
        canonical = {c: f'{c[0]}!{c[1]}' for c in cells}
        desc = [(canonical[c], None, v) if c in deps else (canonical[c], v, None) for c, v in cells.items()]
        case = dict(call='trim-spelling', workbook=desc,
                    args=[[repr(v) if not isinstance(v, str) else v for _, v in in_sp],
                          [repr(v) if not isinstance(v, str) else v for _, v in out_sp]],
                    spelling=dict(inputs=[lab for lab, _ in in_sp], outputs=[lab for lab, _ in out_sp]))
        early = rng.random() < 0.5

        def build(values=None):
            owb = openpyxl.Workbook()
            sheets = {t1: owb.active, t2: owb.create_sheet(t2)}
            owb.active.title = t1
            for (sh, coord), v in cells.items():
                sheets[sh][coord] = (values or {}).get((sh, coord), v)
            return owb
        try:
            full = ExcelCompiler(excel=build())
            trimmed = ExcelCompiler(excel=build())
            if not early:
                for c in outs:
                    trimmed.evaluate(canonical[c])
            trimmed.trim_graph([v for _, v in in_sp], [v for _, v in out_sp])
        except Exception as exc:      # noqa: BLE001   (every input has a path to an output: no refusal expected)
            ctx.violation(case, f"trim_graph raises {type(exc).__name__}: {exc}"[:200])
            continue
        ctx.count(('spelling', k), kind='trim-spelling:' + in_sp[0][0],
                  sample=dict(case, early=early))
        legs = [('untrimmed', full), ('trimmed', trimmed)]
        for ext in ('yml', 'json', 'pkl'):
            stem = os.path.join(ctx.work, f'sp{k}_{ext}_m')
            try:
                trimmed.to_file(stem, file_types=(ext,))
                legs.append((f'loaded:{ext}', ExcelCompiler.from_file(stem + '.' + ext)))
            except Exception as exc:      # noqa: BLE001
                ctx.violation(dict(case, leg='save/load', format=ext, early=early),
                              f"save/load of the trimmed model raises {type(exc).__name__}: {exc}"[:200])
            for f in os.listdir(ctx.work):
                if f.startswith(f'sp{k}_{ext}'):
                    os.remove(os.path.join(ctx.work, f))
        current = {}
        for rnd in range(3):
            assign = {c: rng.choice(SPELL_VALUES) for c in ins} if rnd else {}
            current.update(assign)
            shown = {canonical[c]: v for c, v in assign.items()}
            res = {}
            for name, comp in legs:
                try:
                    for c, v in assign.items():
                        if name == 'untrimmed' and canonical[c] not in comp.cell_map:
                            comp.evaluate(canonical[c])
                        comp.set_value(use_sp[c][1], v)
                    res[name] = [canon(comp.evaluate(use_sp[c][1])) for c in outs]
                except Exception as exc:      # noqa: BLE001
                    res[name] = f'{type(exc).__name__}: {exc}'[:120]
            try:
                fresh = ExcelCompiler(excel=build(current))
                res['fresh'] = [canon(fresh.evaluate(canonical[c])) for c in outs]
            except Exception as exc:      # noqa: BLE001
                res['fresh'] = f'{type(exc).__name__}: {exc}'[:120]
            if res['untrimmed'] != res['fresh']:
                ctx.violation(dict(case, leg='untrimmed', round=rnd, assign=shown,
                                   used={canonical[c]: lab for c, (lab, _) in use_sp.items()}),
                              "outputs of the untrimmed model (written and read through the spelled addresses) differ "
                              "from a fresh compile of the workbook holding the values written so far",
                              impl=res['untrimmed'], expected=res['fresh'])
            for name, _ in legs[1:]:
                if res[name] != res['untrimmed']:
                    raises = {'raises': res[name].split(':')[0]} if isinstance(res[name], str) else {}
                    ctx.violation(dict(case, leg=name, early=early, round=rnd, assign=shown, **raises),
                                  f"outputs of the {name.split(':')[0]} model differ from the untrimmed model",
                                  impl=res[name], expected=res['untrimmed'])


def _unb_precedents(cells, out_addrs):
    """cells of the sheet (blank ones excluded) that the given outputs read, directly or not"""
    import re as _re
    todo, seen = [o.split('!')[1] for o in out_addrs], set()
    while todo:
        o = todo.pop()
        if o in seen or o not in cells:
            continue
        seen.add(o)
        text = cells[o]
        if not (isinstance(text, str) and text.startswith('=')):
            continue
        todo.extend(_re.findall(r'[ABD]\d+', text))
        for c1, c2 in _re.findall(r'\b([AB]):([AB])\b', text):
            todo.extend(a for a in cells if c1 <= a[0] <= c2)
        for r1, r2 in _re.findall(r'(?<![A-Z\d])(\d+):(\d+)\b', text):
            todo.extend(a for a in cells if int(r1) <= int(a[1:]) <= int(r2))
    return seen - {o.split('!')[1] for o in out_addrs}


def _unb_independent(cells, ins, out_addrs):
    """the unbounded ranges read by the chosen outputs (directly or through another output) that contain neither an
    input nor a cell computed from one"""
    import re as _re
    below = set(ins)
    changed = True
    while changed:
        changed = False
        for a, v in cells.items():
            if a not in below and isinstance(v, str) and v.startswith('=') and a[0] in 'AB' and \
                    any(ref in below for ref in _re.findall(r'[AB]\d+', v)):
                below.add(a)
                changed = True
    todo, seen, out = [o.split('!')[1] for o in out_addrs], set(), []
    while todo:
        o = todo.pop()
        if o in seen:
            continue
        seen.add(o)
        text = cells[o]
        todo.extend(_re.findall(r'D\d+', text))
        for c1, c2 in _re.findall(r'\b([AB]):([AB])\b', text):
            if not any(c1 <= a[0] <= c2 for a in below) and f'{c1}:{c2}' not in out:
                out.append(f'{c1}:{c2}')
        for r1, r2 in _re.findall(r'(?<![A-Z\d])(\d+):(\d+)\b', text):
            if not any(int(r1) <= int(a[1:]) <= int(r2) for a in below) and f'{r1}:{r2}' not in out:
                out.append(f'{r1}:{r2}')
    return sorted(out)


def model_value(x):
    """model value -> the canonical form evaluate() returns (range results with trimmed dimensions)"""
    from harness.props.c01 import canon_model, trim
    return trim(canon_model(dec_val(x)))


def trim_call(wb, ins, outs, early, rounds, entry='trim'):
    pre = [] if early else [[0, o] for o in outs]
    return (entry, [wb.wire(), pre, list(ins), list(outs),
                     [[[i, enc_val(v)] for i, v in r.items()] for r in rounds]])


def correspondence(ctx, model_batch, refused_batch):
    """Model/Trim.v (extracted) against ExcelCompiler.trim_graph on the same cases: the surviving cell
    set, the cells that lost their formula, the cell values right after the trim, the outputs of every
    assignment round on the trimmed model; and Model/Graph.v against the untrimmed compiler on the same
    rounds (writes to buried formula cells included)."""
    if not ctx.model:
        return
    calls = [trim_call(wb, ins, outs, early, rounds)
             for (_, wb, ins, outs, early, rounds, _, _, _) in model_batch]
    calls += [trim_call(wb, ins, outs, early, []) for (_, wb, ins, outs, early) in refused_batch]
    calls += [('history', [wb.wire(), [op for op, _ in ops]]) for (_, wb, _, _, _, _, _, _, ops) in model_batch]
    answers = ctx.model.batch(calls)
    n = len(model_batch)
    compared = dict(trim_cases=0, rounds=0, outputs=0, refused=0, untrimmed_values=0, buried_writes=0,
                    cases_with_frozen_formula=0, cases_with_deleted_cells=0, cases_with_deleted_range=0,
                    cases_with_kept_formula_besides_outputs=0)
    for (case, wb, ins, outs, early, rounds, per_round, after, _), ans in zip(model_batch, answers[:n]):
        if not isinstance(ans, list) or len(ans) != 5:
            ctx.divergence(case, 'n/a', ans, 'Model/Trim.v trim entry rejected the input')
            continue
        compared['trim_cases'] += 1
        refused, kept, frozen, snap, mrounds = ans
        if refused != 0:
            ctx.divergence(dict(case, early=early), 'trim_graph accepted the inputs', 'refused',
                           'Model/Trim.v refused = trim_graph raises ValueError')
            continue
        mkept = [i for i, f in enumerate(kept) if f]
        if mkept != after['kept'] or after['extra']:
            ctx.divergence(dict(case, early=early), after['kept'] + after['extra'], mkept,
                           'Model/Trim.v kept cells = cell_map after trim_graph')
            continue
        mfrozen = [i for i, f in enumerate(frozen) if f and wb.nodes[i]['kind'] == 'formula']
        if mfrozen != after['frozen']:
            ctx.divergence(dict(case, early=early), after['frozen'], mfrozen,
                           'Model/Trim.v frozen formula cells = cells whose formula trim_graph removed')
            continue
        from harness.props.c01 import canon_model
        msnap = {i: canon_model(dec_val(x[1])) for i, x in enumerate(snap) if x[0] == 1}
        if any(not same(msnap[i], after['snap'][i]) for i in after['snap']):
            diff = {i: (after['snap'][i], msnap[i]) for i in after['snap'] if not same(msnap[i], after['snap'][i])}
            ctx.divergence(dict(case, early=early), diff, 'see impl',
                           'Model/Trim.v cache after the trim = cell values after trim_graph')
            continue
        compared['cases_with_frozen_formula'] += bool(after['frozen'])
        compared['cases_with_deleted_cells'] += len(after['kept']) < len(wb.nodes)
        compared['cases_with_deleted_range'] += any(
            x['kind'] == 'range' and i not in after['kept'] and any(i in wb.nodes[o]['deps'] or any(
                i in wb.nodes[a]['deps'] for a in ancestors(wb, o)) for o in outs)
            for i, x in enumerate(wb.nodes))
        compared['cases_with_kept_formula_besides_outputs'] += any(
            wb.nodes[i]['kind'] == 'formula' and i not in outs and i not in after['frozen'] for i in after['kept'])
        for rnd, (res, mvals) in enumerate(zip(per_round, mrounds)):
            iv = res.get('trimmed')
            if not isinstance(iv, list):
                continue
            compared['rounds'] += 1
            compared['outputs'] += len(iv)
            mv = [model_value(x) for x in mvals]
            if len(mv) != len(iv) or any(not same(a, b) for a, b in zip(mv, iv)):
                ctx.divergence(dict(case, early=early, round=rnd,
                                    assign={wb.nodes[i]['addr']: v for i, v in rounds[rnd].items()}),
                               iv, mv, 'Model/Trim.v outputs on the trimmed machine = trimmed ExcelCompiler.evaluate')
                break
        compared['buried_writes'] += sum(1 for r in rounds for i in r if wb.nodes[i]['kind'] == 'formula')
    for (case, wb, ins, outs, early), ans in zip(refused_batch, answers[n:n + len(refused_batch)]):
        compared['refused'] += 1
        if not isinstance(ans, list) or len(ans) != 5 or ans[0] != 1:
            ctx.divergence(dict(case, early=early), 'ValueError', ans[0] if isinstance(ans, list) and ans else ans,
                           'Model/Trim.v refused = trim_graph raises ValueError')
    for (case, wb, ins, outs, early, rounds, per_round, after, ops), ans in zip(
            model_batch, answers[n + len(refused_batch):]):
        if not isinstance(ans, list) or (ans and not isinstance(ans[0], list)):
            ctx.divergence(case, 'n/a', ans, 'Model/Graph.v history entry rejected the input')
            continue
        want = [v for res in per_round if isinstance(res.get('untrimmed'), list) for v in res['untrimmed']]
        if len(want) != len(per_round) * len(outs):
            continue
        vals = [model_value(m[0]) for (op, is_out), m in zip(ops, ans) if is_out]
        compared['untrimmed_values'] += len(vals)
        if len(vals) != len(want) or any(not same(a, b) for a, b in zip(vals, want)):
            ctx.divergence(dict(case, leg='untrimmed'), want, vals,
                           'Model/Graph.v evaluate = untrimmed ExcelCompiler.evaluate (writes to formula cells included)')
    ctx.extra['correspondence'] = compared
