"""C08 — trim_graph preserves the outputs as a function of the inputs: the
trimmed model (directly and after a save/load round trip) against the
untrimmed one under every assignment of the inputs, on generated workbooks x
input/output choices; plus the trim model of coq/Model/Trim.v."""
import itertools
import os
import shutil

from harness import wbgen
from harness.common import canon, dec_val, enc_val, ensure_impl_on_path, same

GEN_MODULES = ['excelutil', 'aggregates', 'stats']

ASSUMPTIONS = [
    "inputs are chosen among cells that have a dependant leading to a chosen output (trim_graph raises "
    "ValueError for the others by design); values written to the inputs come from the clean pool",
    "the save/load leg goes through yml, json or pkl files in the check's work directory",
]


def ancestors(wb, n):
    out = set()
    stack = list(wb.nodes[n]['deps'])
    while stack:
        d = stack.pop()
        if d not in out:
            out.add(d)
            stack.extend(wb.nodes[d]['deps'])
    return out


def run(ctx):
    ensure_impl_on_path()
    from pycel import ExcelCompiler
    rng = ctx.rng
    os.makedirs(ctx.work, exist_ok=True)
    ctx.extra['rule'] = (
        "single-sheet DAG workbooks of 5-8 cells (C01 generator) x choices of output set (1-2 formula cells or a "
        "range) and input set (1-3 cells among the outputs' ancestors: leaf inputs and buried formula cells) — "
        "exhaustive over single inputs/outputs for small workbooks, sampled beyond — x 3 rounds of re-assignment "
        "of every input from the value pool; compared: untrimmed, trimmed, trimmed+saved+loaded (yml/json/pkl), "
        "trimmed before vs after the first evaluate; distinct = distinct (workbook, inputs, outputs)")
    nwb = ctx.n(200, 2000)
    model_batch = []
    for k in range(nwb):
        wb = wbgen.gen_workbook(rng, ncells=rng.randrange(5, 9), pool=wbgen.CLEAN_POOL + [0, 1, None])
        desc = [(x['addr'], x.get('value'), x.get('text')) for x in wb.nodes]
        formulas = wb.formulas()
        if not formulas:
            continue
        choices = []
        for o in formulas:
            anc = [a for a in ancestors(wb, o) if wb.nodes[a]['kind'] != 'range']
            for a in anc:
                choices.append(((a,), (o,)))
            if len(anc) >= 2:
                choices.append((tuple(rng.sample(anc, 2)), (o,)))
        if len(formulas) >= 2:
            o2 = tuple(rng.sample(formulas, 2))
            anc = [a for a in set(ancestors(wb, o2[0])) | set(ancestors(wb, o2[1]))
                   if wb.nodes[a]['kind'] != 'range']
            if anc:
                choices.append((tuple(rng.sample(anc, min(len(anc), rng.randrange(1, 4)))), o2))
        if len(choices) > 10:
            choices = rng.sample(choices, 10)
        for ci, (ins, outs) in enumerate(choices):
            in_addrs = [wb.nodes[i]['addr'] for i in ins]
            out_addrs = [wb.nodes[o]['addr'] for o in outs]
            case = dict(call='trim', workbook=desc, args=[in_addrs, out_addrs])
            early = rng.random() < 0.5          # trim before anything was evaluated
            try:
                full = ExcelCompiler(excel=wb.to_openpyxl())
                trimmed = ExcelCompiler(excel=wb.to_openpyxl())
                if not early:
                    for o in outs:
                        trimmed.evaluate(wb.nodes[o]['addr'])
                trimmed.trim_graph(in_addrs, out_addrs)
            except ValueError as exc:
                # an input without a path to the outputs: documented refusal
                ctx.histogram['refused'] = ctx.histogram.get('refused', 0) + 1
                continue
            except Exception as exc:      # noqa: BLE001
                ctx.violation(case, f"trim_graph raises {type(exc).__name__}: {exc}"[:200])
                continue
            ext = rng.choice(['yml', 'json', 'pkl'])
            stem = os.path.join(ctx.work, f'trim{k}_{ci}')
            try:
                trimmed.to_file(stem, file_types=(ext,))
                loaded = ExcelCompiler.from_file(stem + '.' + ext)
            except Exception as exc:      # noqa: BLE001
                ctx.violation(dict(case, leg='save/load'), f"save/load of the trimmed model raises {type(exc).__name__}: {exc}"[:200])
                loaded = None
            for f in os.listdir(ctx.work):
                if f.startswith(f'trim{k}_{ci}'):
                    os.remove(os.path.join(ctx.work, f))
            ctx.count((k, ci), kind='trim-early' if early else 'trim-late',
                      sample=dict(case, early=early))
            rounds = []
            for rnd in range(3):
                assign = {i: rng.choice(wbgen.CLEAN_POOL) for i in ins} if rnd else {}
                rounds.append(assign)
                for comp_name, comp in (('untrimmed', full), ('trimmed', trimmed), ('loaded', loaded)):
                    if comp is None:
                        continue
                    try:
                        for i, v in assign.items():
                            if comp_name == 'untrimmed' and wb.nodes[i]['addr'] not in comp.cell_map:
                                comp.evaluate(wb.nodes[i]['addr'])
                            comp.set_value(wb.nodes[i]['addr'], v)
                    except Exception as exc:      # noqa: BLE001
                        ctx.violation(dict(case, leg=comp_name, assign={wb.nodes[i]['addr']: v for i, v in assign.items()}),
                                      f"set_value on the {comp_name} model raises {type(exc).__name__}: {exc}"[:200])
                res = {}
                for comp_name, comp in (('untrimmed', full), ('trimmed', trimmed), ('loaded', loaded)):
                    if comp is None:
                        continue
                    try:
                        res[comp_name] = [canon(comp.evaluate(a)) for a in out_addrs]
                    except Exception as exc:      # noqa: BLE001
                        res[comp_name] = f'{type(exc).__name__}: {exc}'[:120]
                for leg in ('trimmed', 'loaded'):
                    if leg in res and res[leg] != res['untrimmed']:
                        ctx.violation(dict(case, leg=leg, early=early,
                                           assign={wb.nodes[i]['addr']: v for i, v in assign.items()}),
                                      f"outputs of the {leg} model differ from the untrimmed model",
                                      impl=res[leg], expected=res['untrimmed'])
            model_batch.append((case, wb, ins, outs, early, rounds, res.get('trimmed')))
    shutil.rmtree(ctx.work, ignore_errors=True)
    ctx.extra['model_trim_cases'] = len(model_batch)
