"""C01 — lazy cache coherence: the graph machine of coq/Model/Graph.v against
ExcelCompiler on generated workbooks x histories x configurations, and the
property's oracle (every evaluate equals a from-scratch compile with the
current inputs)."""
import os
import shutil

from harness import wbgen
from harness.common import (canon, dec_val, enc_val, ensure_impl_on_path, known_predicate, same, sx_dump)

GEN_MODULES = ['excelutil', 'aggregates', 'stats']

ASSUMPTIONS = [
    "formula meaning in the theorems is an arbitrary function of the precedents' values; in the "
    "differential run it is the concrete language of coq/Model/GraphExpr.v (operators through the C10 "
    "operator model, aggregates through the generated C14 functions)",
    "workbooks are single-sheet; cells in one column, ranges are contiguous blocks - plus, in the unb streams, a "
    "second column of constants with the whole-column reference S!B:B (a node of range kind, alias of the bounded "
    "range node: Model/GraphExpr.v FAlias, Proofs/C01Alias.v); row references (1:1), references that span "
    "several columns, defined names and CSE arrays are exercised by C05/C13, not here",
    "openpyxl, networkx and the xlsx reader are not modelled: the stored-results configuration reads "
    "real .xlsx files whose cached values were injected into the sheet XML",
    "tiny streams: the numbers are dyadic (steps 2^-30 / 2^-27 on values below 8, 2^-20 / 2^-10 on values below 2^25) "
    "and every intermediate result has fewer than 53 significant bits, so the implementation's float arithmetic is "
    "exact and the exact-rational machine is compared bit for bit (a wider float-exact domain than the j <= 12 of "
    "DESIGN.md 4, for +, -, comparison, multiplication by a power of two and SUM/MIN/MAX/COUNT only)",
]


# ---- known findings: each is a cause with a decidable trigger in the history
@known_predicate('C01-stored-late-build')
def _stored_late(case):
    return case.get('stream') == 'stored' and case.get('late_build')


@known_predicate('C01-stored-partial')
def _stored_partial(case):
    return case.get('stream') == 'stored_partial'


@known_predicate('C01-blank-formula-result')
def _blank_result(case):
    return case.get('stream') == 'blankres'


STREAMS = ['clean', 'clean', 'clean', 'clean', 'clean', 'loaded', 'stored_clean', 'stored',
           'none', 'eqtype', 'blankres', 'stored_partial', 'unb', 'unb_stored', 'unb_loaded',
           'tiny', 'tiny_stored', 'tiny_loaded', 'stored_stale']

# the 'unb' streams: two-column workbooks of harness/wbgen.py (gen_workbook(colb=True)) - constants in column B,
# the whole-column reference S!B:B (a node of range kind in the model: alias of the bounded range node S!B1:Bm,
# Model/GraphExpr.v FAlias) and the explicit ranges of column B read by formulas of column A - in the three
# configurations; writes go to the inputs of both columns (blank writes into column B included), every node
# is evaluated, S!B:B and S!B1:Bm themselves included; value, cache snapshot (the reference node's cached value)
# and built set are compared with the model after every operation
CONFIG = {'unb': 'clean', 'unb_stored': 'stored_clean', 'unb_loaded': 'loaded',
          'tiny': 'clean', 'tiny_stored': 'stored_clean', 'tiny_loaded': 'loaded'}
UNB = ('unb', 'unb_stored', 'unb_loaded')
TINY = ('tiny', 'tiny_stored', 'tiny_loaded')

# the 'tiny' streams: numeric inputs (floats and large integers) whose writes are mostly VERY SMALL steps away from
# the present value - 2^-30 around 0 and around small numbers, 2^-20 / 2^-10 around numbers up to 2^25, +-1 on large
# integers, the step back to the value before, a few steps in a row in one direction (a goal-seek / bisection loop) -
# read by formulas that compare (=A1>1, =A2=0, =A1<>A3) or amplify (=A3-250000 followed by =A5*1048576) and by
# aggregates; every formula is evaluated before the first write.  All values are dyadic with at most 50 significant
# bits in every intermediate result, so the exact machine of Model/Graph.v follows every write and a compiler that
# drops a write "within float noise" disagrees with it (and with the from-scratch compile of the oracle).
TINY_SMALL = [0.0, 0.0, 1.0, 1.0, 0.5, 2.0, -1.0, 3.0, 0, 1]
TINY_LARGE = [250000.0, 250000.0, 250000, 1048576.0, 33554431, 65536.5, -1000000.0, 4096.0, 100000, 16777216.0]


def gen_tiny_workbook(rng, xlsx=False):
    """Returns (wb, regime).  Regime 'small': inputs near 0/1, steps 2^-30 / 2^-27; regime 'large': inputs up to 2^25,
    steps 2^-20 / 2^-10 / 1 (relative distance below 1e-5)."""
    regime = rng.choice(['small', 'large'])
    pool = TINY_SMALL if regime == 'small' else TINY_LARGE
    wb = wbgen.WB()
    n_in = rng.randrange(2, 5)
    for _ in range(n_in):
        v = rng.choice(pool)
        if xlsx and isinstance(v, float) and v.is_integer():
            v = int(v)          # an .xlsx file does not tell 4096.0 from 4096: the reader answers the integer
        wb.add_input(v)
    if rng.random() < 0.5:
        # two inputs that start equal: =A1=A2 / =A1<>A2 / =A1<A2 flip on the first tiny write
        wb.nodes[wb.rows[1]]['value'] = wb.nodes[wb.rows[0]]['value']
    cmp_ops = [('=', 7), ('<>', 8), ('<', 9), ('<=', 10), ('>', 11), ('>=', 12)]
    for _ in range(rng.randrange(3, 7)):
        rows_in = list(range(1, n_in + 1))
        r = rng.choice(rows_in)
        base = wb.nodes[wb.rows[r - 1]]['value']
        kind = rng.random()
        if kind < 0.35:
            # comparison with the integer the input starts at (or next to), or with another input
            (sym, code) = rng.choice(cmp_ops)
            if rng.random() < 0.6:
                z = int(base // 1)
                wb.add_formula(f'=A{r}{sym}{z}', [wb.rows[r - 1]], [3, code, [0, 0], [1, z]])
            else:
                r2 = rng.choice([x for x in rows_in if x != r])
                wb.add_formula(f'=A{r}{sym}A{r2}', [wb.rows[r - 1], wb.rows[r2 - 1]], [3, code, [0, 0], [0, 1]])
        elif kind < 0.65:
            # amplification: (A_r - base) * 2^j in two cells
            z = int(base // 1)
            d = wb.add_formula(f'=A{r}-{z}', [wb.rows[r - 1]], [3, 1, [0, 0], [1, z]])
            row = wb.nodes[d]['row']
            j = rng.choice([10, 20]) if regime == 'large' else rng.choice([20, 30])
            wb.add_formula(f'=A{row}*{2 ** j}', [d], [3, 2, [0, 0], [1, 2 ** j]])
        elif kind < 0.8:
            r2 = rng.choice([x for x in rows_in if x != r])
            wb.add_formula(f'=A{r}-A{r2}', [wb.rows[r - 1], wb.rows[r2 - 1]], [3, 1, [0, 0], [0, 1]])
        else:
            r1 = rng.randrange(1, n_in)
            r2 = rng.randrange(r1 + 1, n_in + 1)
            (name, w) = rng.choice(wbgen.AGGS)
            wb.add_formula(f'={name}(A{r1}:A{r2})', [wb.get_range(r1, r2)], [5, w, [0, 0]])
    if rng.random() < 0.6:
        # a reader of an earlier formula cell (the stale value travels on)
        f = rng.choice(wb.formulas())
        row = wb.nodes[f]['row']
        wb.add_formula(f'=A{row}=0', [f], [3, 7, [0, 0], [1, 0]])
    return wb, regime


def tiny_write(rng, regime, old, before):
    """The next value of an input of a tiny-stream workbook: same Python type as the present value (so that only
    the value comparison of set_value decides), mostly a very small step away from it."""
    r = rng.random()
    if isinstance(old, int) and not isinstance(old, bool):
        if regime == 'large' and abs(old) >= 2 ** 17 and r < 0.6:
            return old + rng.choice([1, -1, 2, 1])
        if r >= 0.85:
            return rng.choice([x for x in (TINY_SMALL if regime == 'small' else TINY_LARGE)
                               if isinstance(x, int) and x != old])
        old, r = float(old), 0.5      # from the integer to a float next to it (the type changes), small steps from there on
    if r < 0.12:
        pool = [x for x in (TINY_SMALL if regime == 'small' else TINY_LARGE) if isinstance(x, float) and x != old]
        return rng.choice(pool)                                   # an ordinary write
    if r < 0.27 and before is not None and type(before) is float and before != old:
        return before                                             # the step back
    if regime == 'small':
        step = rng.choice([2.0 ** -30, 2.0 ** -30, 2.0 ** -27, -2.0 ** -30])
    elif abs(old) >= 2 ** 21:
        step = rng.choice([2.0 ** -20, 2.0 ** -10, 1.0, -2.0 ** -10, 16.0])
    else:
        step = rng.choice([2.0 ** -20, 2.0 ** -20, 2.0 ** -10, -2.0 ** -20, 0.5])
    new = old + step
    if abs(new) >= 2 ** 25 or (regime == 'small' and abs(new) >= 8):
        new = old - step
    return new


def fresh_value(wb, inputs, idx, consts=None):
    """The property's reference: a from-scratch compile with the current inputs (consts: formula cells that hold
    a constant instead of their formula, {node index: value})."""
    from pycel import ExcelCompiler
    extra = {(wb.nodes[i]['row'], 1): v for i, v in (consts or {}).items()}
    c = ExcelCompiler(excel=wb.to_openpyxl(inputs, extra=extra))
    return canon(c.evaluate(wb.nodes[idx]['addr']))


# the 'stored_stale' stream: an .xlsx in which EVERY formula cell carries a stored result and some of these results
# are not what pycel computes (a file edited after it was last calculated, a volatile function, a function pycel
# computes differently).  What the library does, and what the stream demands: a stored result is the cell's value -
# whichever way the cell first enters the model (asked for itself, as a precedent, as a member of a range that is
# evaluated or that a formula reads) - until a write to one of its ancestors invalidates it; from then on it is
# computed from the present values of its precedents.  First every node (cells and ranges, random order) is
# evaluated, then the usual history.  The reference is independent of the order: a from-scratch compile of the
# workbook in which every formula cell not below a written input is replaced by its stored result.
def stale_result(v):
    if isinstance(v, bool):
        return not v
    if isinstance(v, (int, float)):
        return v + 1000
    return 'stale' if v != 'stale' else 'stale2'


def stale_value(wb, inputs, idx, stored, written):
    below = set()
    for a in written:
        below |= wb.descendants(a)
    consts = {i: stored[i] for i in wb.formulas() if i not in below}
    return fresh_value(wb, inputs, idx, consts)


def trim(v):
    """evaluate() trims the dimensions of a range result; the model returns the raw tuple."""
    if isinstance(v, tuple) and v and isinstance(v[0], tuple):
        if len(v[0]) == 1:
            v = tuple(r[0] for r in v)
        if len(v) == 1:
            v = v[0]
    return v


def make_compiler(ctx, wb, stream, k):
    """Returns (compiler, model prefix ops, stored dict)."""
    from pycel import ExcelCompiler
    unb = stream in UNB
    stream = CONFIG.get(stream, stream)
    if stream in ('stored', 'stored_clean', 'stored_partial', 'stored_stale'):
        ref = ExcelCompiler(excel=wb.to_openpyxl())
        results = {i: ref.evaluate(wb.nodes[i]['addr']) for i in wb.formulas()}
        if stream == 'stored_stale' and results:
            for i in [i for i in results if ctx.rng.random() < 0.5] or [ctx.rng.choice(sorted(results))]:
                results[i] = stale_result(results[i])
        if stream == 'stored_partial':
            # a file in which some formula cells have no cached result while their dependants do
            for i in wb.formulas():
                if any(i in wb.nodes[d]['deps'] for d in wb.formulas()) and ctx.rng.random() < 0.6:
                    results[i] = None
        path = os.path.join(ctx.work, f'wb{k}.xlsx')
        wbgen.write_xlsx_with_results(wb, results, path)
        comp = ExcelCompiler(filename=path)
        prefix = []
        if stream in ('stored_clean', 'stored_partial'):
            # every cell is in the model before the first write
            first = list(range(len(wb.nodes)))
            if unb:
                # only the cells, in a random order: the range nodes and the reference node S!B:B enter the model
                # as precedents (they get their value when the graph is built: repair f35c77a; the explicit range
                # B1:Bm built before or after the whole-column reference: repair b9ea5fb)
                first = wb.cells()
                ctx.rng.shuffle(first)
            for i in first:
                comp.evaluate(wb.nodes[i]['addr'])
                prefix.append([0, i])
        return comp, prefix, results
    if stream == 'loaded':
        src = ExcelCompiler(excel=wb.to_openpyxl())
        for i in wb.cells():
            src.evaluate(wb.nodes[i]['addr'])
        ext = ctx.rng.choice(['yml', 'json', 'pkl'])
        stem = os.path.join(ctx.work, f'model{k}')
        src.to_file(stem, file_types=(ext,))
        comp = ExcelCompiler.from_file(stem + '.' + ext)
        for f in os.listdir(ctx.work):
            if f.startswith(f'model{k}'):
                os.remove(os.path.join(ctx.work, f))
        return comp, [[2, i] for i in wb.cells()], None
    return ExcelCompiler(excel=wb.to_openpyxl()), [], None


def run(ctx):
    ensure_impl_on_path()
    rng = ctx.rng
    ctx.extra['rule'] = (
        "random single-sheet DAG workbooks (6-12 nodes: inputs from a pool of numbers/text/logicals/blank, "
        "formulas over + - * & = <> < >=, unary minus, plain references, SUM/MIN/MAX/COUNT/AVERAGE over ranges, "
        "nested ranges) x histories of 8-14 evaluate/set_value operations chosen while the implementation runs "
        "(writes only to cells present in the cell map) x configurations {no-data workbook, xlsx with stored "
        "results, model loaded from yml/json/pkl}; streams: clean (no blank writes, no ==-equal writes, no blank "
        "formula results) and one stream per known defect trigger; unb / unb_stored / unb_loaded: two-column "
        "workbooks (constants and trailing blanks in column B; formulas of column A over the whole column B:B, "
        "the explicit range B1:Bm it stands for, smaller blocks and single cells of column B) in the three "
        "configurations, the reference node S!B:B and the range nodes evaluated and snapshot like every other "
        "node; tiny / tiny_stored / tiny_loaded: numeric inputs (floats, large integers) read by comparisons with the "
        "starting value or another input, by amplifiers (=A1-250000 then =A5*1048576) and aggregates, every formula "
        "evaluated first, then writes of the same Python type at very small distances from the present value (2^-30 "
        "around 0 and small numbers, 2^-20 / 2^-10 around numbers up to 2^25, +-1 on integers above 2^17, steps back, "
        "several steps in a row), all dyadic so that the exact model follows each of them; stored_stale: xlsx in which "
        "every formula cell has a stored result and about half of them a WRONG one (stale file), every node evaluated "
        "first in a random order (a cell enters the model by itself, as a precedent or as a member of a range), then "
        "the usual history: the reference is a from-scratch compile in which the formula cells not below a written "
        "input hold their stored results; "
        "distinct = distinct (workbook, history)")
    nwb = ctx.n(2250, 30000)
    batch = []       # (case meta, model call)
    os.makedirs(ctx.work, exist_ok=True)
    for k in range(nwb):
        stream = STREAMS[k % len(STREAMS)]
        pool = wbgen.POOL if stream in ('none', 'eqtype') else wbgen.CLEAN_POOL
        unb = stream in UNB
        tiny = None
        if unb:
            wb = wbgen.gen_workbook(rng, ncells=rng.randrange(4, 9), pool=pool, colb=True)
        elif stream in TINY:
            wb, tiny = gen_tiny_workbook(rng, xlsx=(stream == 'tiny_stored'))
        else:
            wb = wbgen.gen_workbook(rng, ncells=rng.randrange(5, 11), pool=pool,
                                    blank_results=(stream == 'blankres'))
        if stream == 'blankres':
            # a range whose first cell is blank, read whole by a formula, with a dependant
            wb = wbgen.WB()
            wb.add_input(None)
            wb.add_input(rng.choice([3, 5, 'b']))
            for _ in range(rng.randrange(0, 3)):
                wb.add_input(rng.choice(wbgen.CLEAN_POOL))
            ri = wb.get_range(1, 2)
            b = wb.add_formula('=A1:A2', [ri], [2, [0, 0]])
            wb.add_formula(f'=A{wb.nodes[b]["row"]}+1', [b], [3, 0, [0, 0], [1, 1]])
            if rng.random() < 0.5:
                wb.add_formula(f'=A{wb.nodes[b]["row"] + 1}*2', [len(wb.nodes) - 1], [3, 2, [0, 0], [1, 2]])
        try:
            comp, prefix, stored = make_compiler(ctx, wb, stream, k)
        except Exception as exc:     # noqa: BLE001
            ctx.broke(f"harness: cannot build configuration {stream}", repr(exc))
            continue
        inputs = {i: wb.nodes[i]['value'] for i in wb.inputs()}
        ops, impl_trace = list(prefix), []
        written = set()
        late_build = False
        hist_repr = []
        pending = None          # the cell written last: looked at (itself or a dependant) soon after
        first_evals = list(wb.formulas()) if tiny else []      # tiny streams: every formula has a value before the first write
        if stream == 'stored_stale':
            first_evals = list(range(len(wb.nodes)))     # every node enters the model before the first write,
            rng.shuffle(first_evals)                     # cells before or after the ranges that contain them
        before = {}             # tiny streams: the value an input had before its last write
        for step in range(rng.randrange(8, 15) + len(first_evals)):
            built_inputs = [i for i in wb.inputs() if wb.nodes[i]['addr'] in comp.cell_map]
            if built_inputs and not first_evals and rng.random() < 0.45:
                a = rng.choice(built_inputs)
                if tiny and pending is not None and wb.nodes[pending]['addr'] in comp.cell_map and rng.random() < 0.3:
                    a = pending      # several small steps in a row on one input, nothing evaluated in between
                if tiny:
                    v = tiny_write(rng, tiny, inputs[a], before.get(a))
                    before[a] = inputs[a]
                elif stream == 'none':
                    v = rng.choice([None, None] + wbgen.CLEAN_POOL)
                elif stream == 'eqtype':
                    old = inputs[a]
                    alt = {0: False, False: 0, 1: True, True: 1}.get(old) if isinstance(old, (int, bool)) else None
                    v = alt if alt is not None and rng.random() < 0.6 else rng.choice([0, 1, True, False, 2, 'b'])
                elif (unb and wb.nodes[a].get('col') == 2 and a not in wb.pinned and inputs[a] is not None
                      and rng.random() < 0.2):
                    v = None        # a member of the whole-column range becomes blank
                else:
                    v = rng.choice([x for x in wbgen.CLEAN_POOL if not same_py(x, inputs[a])])
                try:
                    comp.set_value(wb.nodes[a]['addr'], v)
                except Exception as exc:    # noqa: BLE001
                    ctx.violation(dict(call='history', stream=stream, history=hist_repr + [['set', a, v]]),
                                  f"set_value raises {type(exc).__name__}")
                    break
                inputs[a] = v
                written |= {a}
                pending = a
                ops.append([1, a, enc_val(v)])
                hist_repr.append(['set', wb.nodes[a]['addr'], v])
                impl_trace.append((None, wbgen.snapshot(comp, wb)))
            else:
                n = rng.randrange(len(wb.nodes))
                if unb and rng.random() < 0.7:
                    # not the constants of column B: formulas, ranges, the reference node, column-A inputs
                    n = rng.choice([i for i, x in enumerate(wb.nodes) if not (x['kind'] == 'input' and x.get('col') == 2)])
                if pending is not None and rng.random() < (0.85 if tiny else 0.6):
                    n = rng.choice([pending] + sorted(wb.descendants(pending)))
                if first_evals:
                    n = first_evals.pop(0)
                pending = None
                addr = wb.nodes[n]['addr']
                if written and addr not in comp.cell_map and any(
                        n in wb.descendants(a) or n == a for a in written):
                    late_build = True
                try:
                    r = canon(comp.evaluate(addr))
                except Exception as exc:    # noqa: BLE001
                    ctx.violation(dict(call='history', stream=stream, history=hist_repr + [['eval', addr]]),
                                  f"evaluate raises {type(exc).__name__}: {exc}"[:200])
                    break
                ops.append([0, n])
                hist_repr.append(['eval', addr])
                impl_trace.append((r, wbgen.snapshot(comp, wb)))
                # ---- the property's oracle
                try:
                    want = fresh_value(wb, inputs, n) if stream != 'stored_stale' else \
                        stale_value(wb, inputs, n, stored, written)
                except Exception as exc:    # noqa: BLE001
                    ctx.violation(dict(call='history', stream=stream, late_build=late_build,
                                       workbook=[(x['addr'], x.get('value'), x.get('text')) for x in wb.nodes],
                                       history=list(hist_repr)),
                                  f"a from-scratch compile with the current inputs raises {type(exc).__name__}: {exc}"[:200])
                    break
                ctx.count((k, step), kind='oracle:' + stream)
                if r != want and stream == 'stored_stale':
                    ctx.violation(dict(call='history', stream=stream, late_build=late_build,
                                       workbook=[(x['addr'], x.get('value'), x.get('text')) for x in wb.nodes],
                                       stored={wb.nodes[i]['addr']: v for i, v in stored.items()},
                                       history=list(hist_repr)),
                                  "xlsx whose stored results differ from what the formulas give: evaluate is not the stored "
                                  "result (cells not below a written input) / the value computed from the present values "
                                  "of the precedents (cells below one) - it depends on how the cell entered the model",
                                  impl=r, expected=want)
                elif r != want:
                    ctx.violation(dict(call='history', stream=stream, late_build=late_build,
                                       workbook=[(x['addr'], x.get('value'), x.get('text')) for x in wb.nodes],
                                       history=list(hist_repr)),
                                  "evaluate differs from a from-scratch compile with the current inputs",
                                  impl=r, expected=want)
        ctx.count(('wb', k), kind='history:' + stream,
                  sample=dict(stream=stream, workbook=[(x['addr'], x.get('value'), x.get('text')) for x in wb.nodes],
                              history=hist_repr))
        batch.append((dict(call='history', stream=stream, k=k, late_build=late_build, history=hist_repr,
                           workbook=[(x['addr'], x.get('value'), x.get('text')) for x in wb.nodes]),
                      wb, prefix, ops, impl_trace, stored))
    # ---- correspondence with the model
    if ctx.model:
        answers = ctx.model.batch([('history', [wb.wire(stored=st), ops]) for (_, wb, _, ops, _, st) in batch])
        for (case, wb, prefix, ops, impl_trace, st), ans in zip(batch, answers):
            if not isinstance(ans, list) or (ans and not isinstance(ans[0], list)):
                ctx.divergence(case, 'n/a', ans, 'Model/Graph.v history entry rejected the input')
                continue
            mtrace = ans[len(prefix):]
            for j, ((iv, isnap), m) in enumerate(zip(impl_trace, mtrace)):
                mv = canon_model(dec_val(m[0]))
                msnap = {i: canon_model(dec_val(x[1])) for i, x in enumerate(m[1]) if x[0] == 1}
                if iv is not None and not same(trim(mv), iv):
                    ctx.divergence(dict(case, step=j), iv, trim(mv), 'Model/Graph.v evaluate = ExcelCompiler.evaluate')
                    break
                if set(msnap) != set(isnap) or any(not same(msnap[i], isnap[i]) for i in isnap):
                    diff = {i: (isnap.get(i, '<unbuilt>'), msnap.get(i, '<unbuilt>'))
                            for i in set(isnap) | set(msnap)
                            if i not in isnap or i not in msnap or not same(msnap[i], isnap[i])}
                    ctx.divergence(dict(case, step=j), diff, 'see impl',
                                   'Model/Graph.v cache snapshot = ExcelCompiler.cell_map values')
                    break
    unbounded_stream(ctx)
    stored_errors_stream(ctx)
    shutil.rmtree(ctx.work, ignore_errors=True)


def unbounded_stream(ctx):
    """Oracle-only (older than the model-backed unb streams above; kept: formulas in several columns, float data,
    formulas that read other formulas over A:A): data in column A, formulas in columns B/C
    over A:A and over row ranges holding only data; histories of writes to members and evaluations; every
    evaluate must equal a from-scratch compile (repair 347fec5: the A:A reference had no graph edge)."""
    import openpyxl
    from pycel import ExcelCompiler
    rng = ctx.rng
    aggs = ['SUM', 'COUNT', 'MIN', 'MAX']
    for k in range(ctx.n(60, 600)):
        nrows = rng.randrange(2, 6)
        data = {f'A{r}': rng.choice([1, 2, 3, 5, 8, -4, 0.5]) for r in range(1, nrows + 1)}
        forms = {}
        for j in range(rng.randrange(1, 4)):
            body = f'{rng.choice(aggs)}(A:A)'
            if rng.random() < 0.4:
                body += f'+A{rng.randrange(1, nrows + 1)}'
            if forms and rng.random() < 0.4:
                body += f'+{rng.choice(sorted(forms))}'
            forms[f'B{j + 1}'] = '=' + body
        if rng.random() < 0.5:
            forms['C1'] = f'={rng.choice(aggs)}(A:A)*2' if rng.random() < 0.5 else f'=B1+{rng.choice(aggs)}(A1:A{nrows})'
        if k % 4 == 1:
            # a column / row past the used area of the sheet is empty (repair 400e433: it raised AttributeError)
            forms['B4'] = rng.choice(['=SUM(F:F)+A1', '=COUNT(E:F)', f'=SUM({nrows + 6}:{nrows + 7})+A2', '=MAX(G:G)+SUM(A:A)'])

        def book(values):
            wb = openpyxl.Workbook()
            ws = wb.active
            ws.title = 'S'
            for a, v in values.items():
                ws[a] = v
            for a, f in forms.items():
                ws[a] = f
            return wb
        stored = k % 3 == 2       # a real .xlsx whose formula cells carry their stored results (repair f35c77a)
        if stored:
            from harness.props.c12 import write_xlsx_cells
            ref = ExcelCompiler(excel=book(data))
            results = {f'S!{a}': ref.evaluate(f'S!{a}') for a in forms}
            path = os.path.join(ctx.work, f'unbounded{k}.xlsx')
            os.makedirs(ctx.work, exist_ok=True)
            write_xlsx_cells([('S', dict(data, **forms))], results, path)
            comp = ExcelCompiler(filename=path)
            for a in sorted(forms):       # every cell enters the model before the first write (a cell built after
                comp.evaluate(f'S!{a}')   # a write keeps its stored result: known finding C01-stored-late-build)
        else:
            comp = ExcelCompiler(excel=book(data))
        cur = dict(data)
        hist = []
        for step in range(rng.randrange(5, 10)):
            if hist and rng.random() < 0.45:
                a = rng.choice(sorted(cur))
                if f'S!{a}' not in comp.cell_map:
                    continue
                v = rng.choice([x for x in [1, 2, 3, 5, 8, -4, 0.5, 10] if x != cur[a]])
                comp.set_value(f'S!{a}', v)
                cur[a] = v
                hist.append(['set', a, v])
            else:
                a = rng.choice(sorted(forms))
                hist.append(['eval', a])
                case = dict(call='unbounded', data=data, formulas=forms, history=list(hist), stored_results=stored)
                try:
                    got = canon(comp.evaluate(f'S!{a}'))
                    want = canon(ExcelCompiler(excel=book(cur)).evaluate(f'S!{a}'))
                except Exception as exc:    # noqa: BLE001
                    ctx.violation(case, f"evaluate raises {type(exc).__name__}: {exc}"[:200])
                    break
                ctx.count(('unbounded', k, step), kind='oracle:unbounded')
                if got != want:
                    ctx.violation(case, "evaluate of a formula over an unbounded range differs from a "
                                        f"from-scratch compile with the current inputs: {got} != {want}")
                    break


ERR_INPUTS = [0, 0, 1, 2, 4, -3, 5, 8, 'x']


def gen_error_workbook(rng):
    """Inputs; 1-3 formula cells that produce an error value for some of the input values (x/0, 1/x, text
    arithmetic, MATCH without a hit, NA(), SQRT of a negative number, or a formula over an earlier one of these:
    the error travels on); for each of them one or more cells that absorb the error (IFERROR, IFNA, ISERROR /
    ISNA / ISERR alone or inside IF, COUNT over a range containing it); 0-2 cells computed from the absorbers.
    Returns (wb, error cells)."""
    wb = wbgen.WB()
    n_in = rng.randrange(3, 6)
    ins = [wb.add_input(rng.choice(ERR_INPUTS)) for _ in range(n_in)]

    def ref(i):
        return f'A{wb.nodes[i]["row"]}'

    def add(text, deps):
        return wb.add_formula(text, list(dict.fromkeys(deps)), [2, [0, 0]])      # oracle-only: no model formula
    errs = []
    for _ in range(rng.randrange(1, 4)):
        p, q = rng.choice(ins), rng.choice(ins)
        kind = rng.choice(['div', 'inv', 'text', 'match', 'na', 'sqrt', 'div', 'inv'])
        if errs and rng.random() < 0.3:
            e = rng.choice(errs)
            text, deps = rng.choice([(f'={ref(e)}*2', [e]), (f'={ref(e)}+{ref(p)}', [e, p]), (f'=-{ref(e)}', [e])])
        elif kind == 'div':
            text, deps = f'={ref(p)}/{ref(q)}', [p, q]
        elif kind == 'inv':
            text, deps = f'=1/{ref(p)}', [p]
        elif kind == 'text':
            text, deps = f'={ref(p)}+{ref(q)}', [p, q]
        elif kind == 'match':
            r1 = rng.randrange(1, n_in)
            r2 = rng.randrange(r1 + 1, n_in + 1)
            text, deps = f'=MATCH({ref(p)},A{r1}:A{r2},0)', [p, wb.get_range(r1, r2)]
        elif kind == 'na':
            text, deps = f'=IF({ref(p)}>2,NA(),{ref(p)})', [p]
        else:
            text, deps = f'=SQRT({ref(p)})', [p]
        errs.append(add(text, deps))
    absorbers = []
    for e in errs + [rng.choice(errs) for _ in range(rng.randrange(0, 3))]:
        p = rng.choice(ins)
        r, pr = ref(e), ref(p)
        choice = rng.randrange(9)
        if choice == 8:
            r1, r2 = wb.nodes[errs[0]]['row'], wb.nodes[errs[-1]]['row']
            if r1 == r2:
                r1 -= 1
            absorbers.append(add(f'=COUNT(A{r1}:A{r2})', [wb.get_range(r1, r2)]))
            continue
        text, deps = [(f'=IFERROR({r},-1)', [e]), (f'=IF(ISERROR({r}),"bad","good")', [e]), (f'=IFNA({r},0)', [e]),
                      (f'=ISERROR({r})', [e]), (f'=ISNA({r})', [e]), (f'=ISERR({r})', [e]),
                      (f'=IFERROR({r},0)+{pr}', [e, p]), (f'=IF(ISERROR({r}),{pr},{r}*2)', [e, p])][choice]
        absorbers.append(add(text, deps))
    for _ in range(rng.randrange(0, 3)):
        a = rng.choice(absorbers)
        r = ref(a)
        add(rng.choice([f'={r}+10', f'={r}&"!"', f'=IF({r}=-1,"none",{r})']), [a])
    return wb, errs


def stored_errors_stream(ctx):
    """Oracle-only (IFERROR & co. are not in Model/GraphExpr.v): models loaded from an .xlsx whose formula cells
    carry their stored results, ERROR VALUES included (<c t="e">), the errors absorbed downstream.  First every
    formula cell without dependants is evaluated (all cells are in the model, the intermediate error cells are
    not evaluated themselves: they hold what the file stored); then histories of writes - mostly to precedents of
    the error cells, making errors appear and disappear - and evaluations, mostly of dependants of the cell
    written last.  Every evaluate must equal a from-scratch compile with the current inputs."""
    from pycel import ExcelCompiler
    rng = ctx.rng
    ctx.extra['rule'] += (
        "; stored-errors stream (oracle only): xlsx files with stored results in which 1-3 formula cells hold error "
        "values (#DIV/0!, #VALUE!, #N/A, #NUM!, also passed on by arithmetic) that IFERROR / IFNA / IF(ISERROR) / "
        "ISNA / ISERR / COUNT cells absorb; the outputs are evaluated first, then precedents of the error cells are "
        "written (errors appear and disappear) before the error cells themselves are ever evaluated")
    os.makedirs(ctx.work, exist_ok=True)
    for k in range(ctx.n(120, 1200)):
        for attempt in range(6):
            wb, errs = gen_error_workbook(rng)
            ref = ExcelCompiler(excel=wb.to_openpyxl())
            results = {i: ref.evaluate(wb.nodes[i]['addr']) for i in wb.formulas()}
            if any(results[e] in wbgen.ERROR_VALUES for e in errs):
                break
        desc = [(x['addr'], x.get('value'), x.get('text')) for x in wb.nodes]
        path = os.path.join(ctx.work, f'err{k}.xlsx')
        wbgen.write_xlsx_with_results(wb, results, path, error_type=rng.random() < 0.75)
        comp = ExcelCompiler(filename=path)
        os.remove(path)
        inputs = {i: wb.nodes[i]['value'] for i in wb.inputs()}
        used = {d for n in wb.nodes for d in n['deps']}
        sinks = [i for i in wb.formulas() if i not in used]
        above_errs = [i for i in wb.inputs() if any(e in wb.descendants(i) for e in errs)]
        hist = []
        plan = [('eval', i) for i in sinks]
        pending, nsteps, failed = None, rng.randrange(6, 11), False
        ctx.count(('stored_errors', k), kind='history:stored_errors',
                  sample=dict(stream='stored_errors', workbook=desc, stored={wb.nodes[i]['addr']: v
                                                                              for i, v in results.items()}))
        while (plan or nsteps > 0) and not failed:
            if plan:
                op, n = plan.pop(0)
            else:
                nsteps -= 1
                built = [i for i in wb.inputs() if wb.nodes[i]['addr'] in comp.cell_map]
                if built and (pending is None and rng.random() < 0.8 or rng.random() < 0.3):
                    pool = [i for i in built if i in above_errs]
                    op, n = 'set', rng.choice(pool if pool and rng.random() < 0.8 else built)
                elif pending is not None and rng.random() < 0.8:
                    below = sorted(wb.descendants(pending))
                    quiet = [i for i in below if i not in errs and wb.nodes[i]['kind'] == 'formula']
                    op, n = 'eval', rng.choice(quiet if quiet and rng.random() < 0.8 else below or [pending])
                else:
                    op, n = 'eval', rng.randrange(len(wb.nodes))
            addr = wb.nodes[n]['addr']
            if op == 'set':
                v = rng.choice([x for x in ERR_INPUTS if not same_py(x, inputs[n]) or type(x) is not type(inputs[n])])
                hist.append(['set', addr, v])
                try:
                    comp.set_value(addr, v)
                except Exception as exc:    # noqa: BLE001
                    ctx.violation(dict(call='history', stream='stored_errors', workbook=desc, history=list(hist)),
                                  f"set_value raises {type(exc).__name__}")
                    break
                inputs[n] = v
                pending = n
                continue
            if addr not in comp.cell_map and any(h[0] == 'set' for h in hist):
                continue          # a cell built after a write: the subject of C01-stored-late-build, not of this stream
            if n != pending:
                pending = None if rng.random() < 0.5 else pending
            hist.append(['eval', addr])
            case = dict(call='history', stream='stored_errors', workbook=desc,
                        stored={wb.nodes[i]['addr']: v for i, v in results.items()}, history=list(hist))
            try:
                r = canon(comp.evaluate(addr))
                want = fresh_value(wb, inputs, n)
            except Exception as exc:    # noqa: BLE001
                ctx.violation(case, f"evaluate raises {type(exc).__name__}: {exc}"[:200])
                break
            ctx.count(('stored_errors', k, len(hist)), kind='oracle:stored_errors')
            if r != want:
                ctx.violation(case, "evaluate differs from a from-scratch compile with the current inputs "
                                    "(xlsx with stored error values)", impl=r, expected=want)
                failed = True


def same_py(a, b):
    try:
        return a == b
    except Exception:    # noqa: BLE001
        return False


def canon_model(v):
    """model values -> the canonical form of implementation values"""
    if isinstance(v, list):
        return [canon_model(x) for x in v]
    if isinstance(v, tuple) and not (len(v) == 2 and v[0] == 'float'):
        return tuple(canon_model(x) for x in v)
    return v
