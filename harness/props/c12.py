"""C12 — validate_calcs reports exactly the stored results that disagree:
.xlsx files with consistent stored results, each formula cell's stored result
perturbed in turn, against the property's statement (and the loop model of
coq/Model/Validate.v); plus workbooks whose formula cells the checked outputs
reach only through whole-column / whole-row references (oracle only)."""
import contextlib
import io
import os
import shutil

import fractions

from harness import wbgen
from harness.common import canon, dec_val, enc_val, ensure_impl_on_path, known_predicate, same

GEN_MODULES = ['excelutil', 'aggregates', 'stats']

ASSUMPTIONS = [
    "stored results are integers, text and logicals computed by the implementation itself on a no-data "
    "copy of the workbook (integer arithmetic: 'consistent' is exact); the magnitude stream uses float inputs "
    "m*10^e (|e| <= 18, decimals that survive openpyxl's 16-digit writing) and formulas one IEEE operation away from "
    "the exact value, stored results injected with repr (exact)",
    "the .xlsx files are written with openpyxl and the cached values injected into the sheet XML",
    "theorems: formula meaning is an arbitrary total function of the precedents' values (nothing raises: the "
    "exceptions / not-implemented buckets are oracle-only); close_enough is computed on exact rationals "
    "((1 + 1e-5) * tol and math.isclose without IEEE rounding; the generated alterations stay away from the boundary)",
    "correspondence: every validate_calcs run of the two oracle streams, plus two correspondence-only streams "
    "(tolerance=0 on the consistent file; stored result = the text of the cell's own formula — the model reproduces "
    "both implementation behaviours, coq/Refuted/C12_*.v), is replayed on the extracted loop (entry 'validate' of "
    "coq/Extract/C12.v) with the same workbook, stored results, formula texts, tolerance and outputs; compared "
    "exactly: the mismatch dictionary (insertion order, original, calced) and every cell value after the run",
    "failing cells (coq/Model/ValidateFail.v, entry 'validate_f'): faults are injected through the documented "
    "mechanisms only (an unknown function name; a plugin module, plugins=, whose function raises RuntimeError or "
    "NotImplementedError); the text of a pycel evaluation error is modelled by the chain of cells named in its "
    "'Eval:' lines (file names and line numbers of the traceback lines are not compared); theorems about failing "
    "cells: stored results that are present are what the formulas produce from scratch on the cells of a "
    "precedent-closed set G (a cell that cannot be evaluated has no stored result there), anything outside G",
]


# ---- implementation behaviour the faithful model reproduces (coq/Refuted/C12_*.v); these streams are
# correspondence-only (no oracle call), the predicates are inert until the coordinator lists them
@known_predicate('C12-zero-tolerance')
def _zero_tol(case):
    args = case.get('args') or []
    return case.get('call') == 'validate' and len(args) == 2 and args[1] is not None and args[1] <= 0


@known_predicate('C12-stored-formula-text')
def _formula_text(case):
    pert = case.get('perturbed') or []
    return case.get('call') == 'validate' and len(pert) == 4 and pert[3] == 'formula-text'


def canon_model(v):
    """model values -> the canonical form of implementation values"""
    if isinstance(v, list):
        return [canon_model(x) for x in v]
    if isinstance(v, tuple) and not (len(v) == 2 and v[0] == 'float'):
        return tuple(canon_model(x) for x in v)
    return v


def has_marker(v):
    """the model's marker for 'the operator model raised' (outside the model)"""
    if isinstance(v, (list, tuple)):
        return any(has_marker(x) for x in v)
    return v == '#MODEL-RAISE'


def enc_tol(tol):
    if tol is None:
        return []
    f = fractions.Fraction(tol)
    return [f.numerator, f.denominator]


def record(batch, case, wb, stored, comp, rep, outs, tol):
    """What the implementation shows after validate_calcs, and the model call that replays it."""
    texts = []
    for n in wb.nodes:
        cell = comp.cell_map.get(n['addr'])
        t = str(cell.formula) if (cell is not None and n['kind'] == 'formula') else (n.get('text') or '')
        texts.append([ord(c) for c in t])
    oidx = wb.formulas() if outs is None else [wb.index_of(a) for a in outs]
    irep = [(wb.index_of(a), canon(m.original), canon(m.calced)) for a, m in rep.get('mismatch', {}).items()]
    batch.append((case, wb, ('validate', [wb.wire(stored=stored), texts, enc_tol(tol), oidx]),
                  irep, wbgen.snapshot(comp, wb), sorted(set(rep) - {'mismatch'})))


def compare(ctx, batch):
    answers = ctx.model.batch([call for (_, _, call, _, _, _) in batch])
    for (case, wb, _, irep, isnap, other), ans in zip(batch, answers):
        if not (isinstance(ans, list) and len(ans) == 4 and all(isinstance(x, list) for x in ans)):
            ctx.divergence(case, 'n/a', ans, 'Model/Validate.v validate entry rejected the input')
            continue
        left, _verified, mrep, msnap = ans
        if left:                       # out of fuel: outside the model (needs a skipped 'No Orig data?' cell)
            ctx.count(('fuel', repr(case)), kind='model:out-of-fuel')
            continue
        if other:                      # exception buckets are not modelled
            ctx.count(('exc', repr(case)), kind='model:exception-bucket-skipped')
            continue
        mrep = [(e[0], canon_model(dec_val(e[1])), canon_model(dec_val(e[2]))) for e in mrep]
        msnap = {i: canon_model(dec_val(x[1])) for i, x in enumerate(msnap) if x[0] == 1}
        if has_marker([m[1:] for m in mrep]) or has_marker(list(msnap.values())):
            ctx.count(('unmodelled', repr(case)), kind='model:unmodelled-operator')
            continue
        ctx.count(('corr', repr(case)), kind='correspondence:' + ('perturbed' if case.get('perturbed') else 'consistent'))
        if [m[0] for m in mrep] != [i[0] for i in irep] or any(
                not (same(m[1], i[1]) and same(m[2], i[2])) for m, i in zip(mrep, irep)):
            ctx.divergence(case, irep, mrep, 'Model/Validate.v report = validate_calcs mismatch dictionary '
                                             '(order, original, calced)')
            continue
        if set(msnap) != set(isnap) or any(not same(msnap[i], isnap[i]) for i in isnap):
            diff = {i: (isnap.get(i, '<unbuilt>'), msnap.get(i, '<unbuilt>')) for i in set(isnap) | set(msnap)
                    if i not in isnap or i not in msnap or not same(msnap[i], isnap[i])}
            ctx.divergence(case, diff, 'see impl', 'Model/Validate.v final cache = cell_map values after validate_calcs')


def close_enough_leg(ctx):
    """_CellBase.close_enough against its hand transcription (Model/Validate.v close_enough): numbers (int, float,
    logical), text, blank x tolerance None / positive / zero / negative; the alterations are powers of two times the
    value or simple multiples of the tolerance, far from the (1 + 1e-5) * tol and 1e-5 / 1e-8 boundaries, so that
    the exact-rational model and the float implementation must agree."""
    import types
    from pycel.excelcompiler import _CellBase
    rng = ctx.rng
    calls, meta = [], []
    nums = [0, 1, 2, 3, 7, -4, 10, 1000, 12345, 0.5, 2.25, -1.5, 1024.0, True, False]
    others = ['', 'a', 'zz', '#VALUE!', '12', None]
    for _ in range(ctx.n(400, 4000)):
        tol = rng.choice([None, None, 0.001, 1, 0.5, 2, 0, -1])
        a = rng.choice(nums + others) if rng.random() < 0.85 else rng.choice(others)
        if isinstance(a, (int, float)) and rng.random() < 0.85:
            base = float(a) if not isinstance(a, bool) else int(a)
            if tol:
                b = base + rng.choice([0, tol / 2, -tol / 2, tol, 2 * tol, -2 * tol, 1.5 * tol, tol / 4])
            else:
                b = base + rng.choice([0, base * 2.0 ** -30, base * 2.0 ** -20, -base * 2.0 ** -20, base * 2.0 ** -10,
                                       1, -1, 2.0 ** -30, 2.0 ** -20, -2.0 ** -30])
            if rng.random() < 0.1:
                b = rng.choice(others)
        else:
            b = rng.choice(nums + others)
        try:
            got = bool(_CellBase.close_enough(types.SimpleNamespace(value=a), b, tol=tol))
        except Exception as exc:     # noqa: BLE001
            got = ('raise', type(exc).__name__)
        calls.append(('close_enough', [enc_tol(tol), enc_val(a), enc_val(b)]))
        meta.append((dict(call='close_enough', args=[a, b, tol]), got))
    # magnitudes 1e-18 .. 1e+18 (floats are exact rationals for the model; the cases stay a factor 2 away from the
    # limits), with the property's rule as oracle
    for a, b, tol, cls in magnitude_pairs(rng, ctx.n(1500, 15000)):
        want = expect_close(a, b, tol)
        if want is None:
            continue
        try:
            got = bool(_CellBase.close_enough(types.SimpleNamespace(value=a), b, tol=tol))
        except Exception as exc:     # noqa: BLE001
            got = ('raise', type(exc).__name__)
        case = dict(call='close_enough', args=[a, b, tol], magnitude=cls)
        ctx.count(('close-mag', repr(case['args'])), kind='close_enough:magnitude-' + cls
                  + (':default' if tol is None else ':explicit'), sample=dict(case, impl=got))
        if got != want:
            ctx.violation(case, "close_enough(recomputed, stored) is not the tolerance rule: default = relative 1e-5 "
                                "for two non-zero numbers, absolute 1e-8 against zero; explicit = absolute",
                          impl=got, expected=want)
        calls.append(('close_enough', [enc_tol(tol), enc_val(a), enc_val(b)]))
        meta.append((case, got))
    if not ctx.model:
        return
    for (case, got), ans in zip(meta, ctx.model.batch(calls)):
        ctx.count(('close', repr(case['args'])), kind='correspondence:close_enough')
        m = dec_val(ans) if isinstance(ans, list) and ans and ans[0] == 1 else ('bad', ans)
        if m != got:
            ctx.divergence(case, got, m, 'Model/Validate.v close_enough = _CellBase.close_enough')


def expect_close(a, b, tol):
    """The property's tolerance rule on exact rationals: an explicit tolerance is absolute; the default is relative
    1e-5 when both numbers are non-zero and absolute 1e-8 when one of them is zero.  None when the difference is
    within a factor 2 of the limit (float rounding of the implementation's own limit decides there)."""
    fa, fb = fractions.Fraction(a), fractions.Fraction(b)
    d = abs(fa - fb)
    if tol is not None:
        lim = fractions.Fraction(tol)
    elif fa and fb:
        lim = fractions.Fraction(1, 10 ** 5) * max(abs(fa), abs(fb))
    else:
        lim = fractions.Fraction(1, 10 ** 8)
    if d == 0:
        return True
    if lim / 2 < d < lim * 2:
        return None
    return d < lim


MANTISSAS = [1.4, 4.8, 2.5, 7.0, 3.0, 9.75]      # times 10^e, e in -18..18; never 1.0 (1e-8 is the absolute limit)
REL_BEYOND = [2.0, 0.5, -0.5, 1e-3, -1e-3, 1e-4]   # relative alterations beyond / within the default 1e-5
REL_WITHIN = [1e-7, -1e-7, 1e-9, 1e-6, -1e-6]


def magnitude_pairs(rng, n):
    """(recomputed, stored, tolerance, class) over magnitudes 1e-18 .. 1e+18: alterations that are large relatively
    but tiny absolutely (4.8e-19 stored as 1.4e-18), tiny relatively but large absolutely (7e17 off by 7e10), a
    flipped sign, an exact zero on either side; default and explicit tolerances (relative to the alteration and
    absolute ones)."""
    out = []
    for _ in range(n):
        a = float(f'{rng.choice(["", "", "-"])}{rng.choice(MANTISSAS)}e{rng.randrange(-18, 19)}')
        cls = rng.choice(['beyond', 'beyond', 'within', 'within', 'sign', 'zero-stored', 'zero-recomputed', 'equal'])
        if cls == 'beyond':
            b = a * (1 + rng.choice(REL_BEYOND))
        elif cls == 'within':
            b = a * (1 + rng.choice(REL_WITHIN))
        elif cls == 'sign':
            b = -a
        elif cls == 'zero-stored':
            b = rng.choice([0, 0.0])
        elif cls == 'zero-recomputed':
            a, b = rng.choice([0, 0.0]), a
        else:
            b = a
        d = abs(b - a)
        tol = rng.choice([None, None, None, d * 100, d / 100, 1e-8, 1e-20, 1.0, 1e12, abs(a or b) * 1e-5])
        if tol is not None and tol <= 0:
            tol = None
        out.append((a, b, tol, cls))
    return out


def ancestors(wb, n):
    out, stack = set(), list(wb.nodes[n]['deps'])
    while stack:
        d = stack.pop()
        if d not in out:
            out.add(d)
            stack.extend(wb.nodes[d]['deps'])
    return out


def quiet(f, *a, **kw):
    buf = io.StringIO()
    with contextlib.redirect_stdout(buf):
        return f(*a, **kw)


def magnitude_workbook(rng):
    """A workbook whose numbers all have one magnitude 10^e (e in -18..18): 2-4 inputs, then 3-6 formulas.  Formulas
    that round (+, -, *3, SUM of two) read inputs only; exact ones (=A, -A, *2, MIN, MAX) read anything — so every
    value is one IEEE operation away from the model's exact rational.  =Ai-Ai gives an exact zero."""
    wb = wbgen.WB()
    e = rng.randrange(-18, 19)
    for _ in range(rng.randrange(2, 5)):
        # the double nearest to the decimal m*10^e (openpyxl writes 16 significant digits: such a number survives
        # the file); an integral number is an int once it went through the file
        x = float(f'{rng.choice(["", "", "-"])}{rng.choice(MANTISSAS)}e{e}')
        wb.add_input(int(x) if x == int(x) and abs(x) < 1e15 else x)
    nin = len(wb.rows)
    for _ in range(rng.randrange(3, 7)):
        rows = len(wb.rows)
        k = rng.randrange(9)
        r = rng.randrange(1, rows + 1)
        i, j = rng.randrange(1, nin + 1), rng.randrange(1, nin + 1)
        if k == 0:
            wb.add_formula(f'=A{r}', [wb.rows[r - 1]], [2, [0, 0]])
        elif k == 1:
            wb.add_formula(f'=-A{r}', [wb.rows[r - 1]], [4, [0, 0]])
        elif k == 2:
            wb.add_formula(f'=A{r}*2', [wb.rows[r - 1]], [3, 2, [0, 0], [1, 2]])
        elif k == 3:
            wb.add_formula(f'=A{i}*3', [wb.rows[i - 1]], [3, 2, [0, 0], [1, 3]])
        elif k in (4, 5):
            sym, code = ('+', 0) if k == 4 else ('-', 1)
            if k == 5 and rng.random() < 0.4:
                j = i                                            # an exact zero
            deps = [wb.rows[i - 1]] + ([wb.rows[j - 1]] if j != i else [])
            wb.add_formula(f'=A{i}{sym}A{j}', deps, [3, code, [0, 0], [0, deps.index(wb.rows[j - 1])]])
        elif k == 6 and nin >= 2:
            r1 = rng.randrange(1, nin)
            wb.add_formula(f'=SUM(A{r1}:A{r1 + 1})', [wb.get_range(r1, r1 + 1)], [5, 0, [0, 0]])
        else:
            r1 = rng.randrange(1, rows)
            r2 = rng.randrange(r1 + 1, rows + 1)
            name, w = rng.choice([('MIN', 1), ('MAX', 2)])
            wb.add_formula(f'={name}(A{r1}:A{r2})', [wb.get_range(r1, r2)], [5, w, [0, 0]])
    return wb


def magnitude_stream(ctx, ExcelCompiler, batch):
    """validate_calcs on workbooks of one magnitude (1e-18 .. 1e+18) with one stored result altered at a time:
    relatively large but absolutely tiny, relatively tiny but absolutely large, sign flipped, an exact zero stored
    for a non-zero result or a non-zero number stored for an exact zero; default tolerance and explicit ones.  The
    altered cell is reported iff the alteration exceeds the tolerance (property's rule, expect_close); anything
    else reported depends on it; an alteration within the default tolerance gives an empty report."""
    rng = ctx.rng
    ctx.extra['rule'] += (
        "; magnitude stream: workbooks whose numbers share one magnitude 10^e, e in -18..18 (float inputs m*10^e, "
        "formulas =A, -A, A*2, A*3, A+B, A-B, A-A, SUM, MIN, MAX), consistent stored results, then one stored result "
        "altered relatively (x(1+d), |d| in 1e-9..2), sign-flipped, replaced by 0, or an exact 0 replaced by m*10^e'; "
        "tolerance None / 100x / 0.01x the alteration / 1e-20, 1e-8, 1, 1e12")
    for k in range(ctx.n(45, 450)):
        wb = magnitude_workbook(rng)
        desc = [(x['addr'], x.get('value'), x.get('text')) for x in wb.nodes]
        formulas = wb.formulas()
        ref = ExcelCompiler(excel=wb.to_openpyxl())
        good = {i: ref.evaluate(wb.nodes[i]['addr']) for i in formulas}
        if not all(isinstance(v, (int, float)) and not isinstance(v, bool) for v in good.values()):
            ctx.broke('harness: magnitude workbook with a non-numeric result', repr((desc, good)))
            continue
        path = os.path.join(ctx.work, f'm{k}.xlsx')
        wbgen.write_xlsx_with_results(wb, good, path)
        # the inputs must come back from the file as the numbers (and int/float kinds) the model is given
        back = ExcelCompiler(filename=path)
        if any(canon(back.evaluate(wb.nodes[i]['addr'])) != canon(wb.nodes[i]['value']) for i in wb.inputs()):
            ctx.count(('mag-skip', k), kind='magnitude:input-changed-by-the-file-skipped')
            continue
        size = max(abs(x) for x in list(good.values()) + [wb.nodes[i]['value'] for i in wb.inputs()])
        # explicit tolerances stay far above the rounding error of the magnitude (the model is exact)
        abs_tols = [t for t in (1e-20, 1e-8, 1.0, 1e12) if t >= size * 1e-9]
        for tol in (None, size * 1e-6):
            comp = ExcelCompiler(filename=path)
            case = dict(call='validate', workbook=desc, args=[None, tol], perturbed=None, stream='magnitude')
            try:
                rep = quiet(comp.validate_calcs, tolerance=tol)
            except Exception as exc:      # noqa: BLE001
                ctx.violation(case, f"validate_calcs raises {type(exc).__name__}: {exc}"[:200])
                continue
            ctx.count(('mag-ok', k, tol), kind='magnitude:consistent')
            record(batch, case, wb, good, comp, rep, None, tol)
            if rep != {}:
                ctx.violation(case, "non-empty report on a consistent workbook", impl=repr(rep)[:300], expected={})
        for p in formulas:
            v = good[p]
            for _ in range(2):
                if v:
                    cls = rng.choice(['beyond', 'beyond', 'within', 'within', 'sign', 'zero-stored'])
                    v2 = (v * (1 + rng.choice(REL_BEYOND)) if cls == 'beyond' else
                          v * (1 + rng.choice(REL_WITHIN)) if cls == 'within' else -v if cls == 'sign' else 0.0)
                else:
                    cls = 'zero-recomputed'
                    v2 = float(f'{rng.choice(["", "-"])}{rng.choice(MANTISSAS)}e{rng.randrange(-18, 19)}')
                d = abs(v2 - v)
                tol = rng.choice([None, None, None, d * 100, d / 100] + abs_tols)
                want_close = expect_close(v, v2, tol)
                if want_close is None or v2 == v:
                    continue
                altered = dict(good)
                altered[p] = v2
                wbgen.write_xlsx_with_results(wb, altered, path)
                paddr = wb.nodes[p]['addr']
                choices = [None] + [[wb.nodes[o]['addr']] for o in formulas if o == p or p in ancestors(wb, o)]
                outs = rng.choice(choices)
                comp = ExcelCompiler(filename=path)
                case = dict(call='validate', workbook=desc, args=[outs, tol], perturbed=[paddr, v, v2, cls],
                            stream='magnitude')
                try:
                    rep = quiet(comp.validate_calcs, output_addrs=outs, tolerance=tol)
                except Exception as exc:      # noqa: BLE001
                    ctx.violation(case, f"validate_calcs raises {type(exc).__name__}: {exc}"[:200])
                    continue
                ctx.count(('mag', k, p, cls, tol, repr(outs)),
                          kind=f'magnitude:{cls}:' + ('default' if tol is None else 'explicit'),
                          sample=dict(case, report=repr(rep)[:200]))
                record(batch, case, wb, altered, comp, rep, outs, tol)
                mism = rep.get('mismatch', {})
                if want_close:
                    if paddr in mism:
                        ctx.violation(case, "a stored result altered by less than the tolerance is reported",
                                      impl=repr(rep)[:300])
                    elif tol is None and cls == 'within' and rep != {}:
                        ctx.violation(case, "non-empty report although every stored result is within the default "
                                            "tolerance of its recomputation", impl=repr(rep)[:300], expected={})
                elif paddr not in mism:
                    ctx.violation(case, "the altered cell is not reported as a mismatch", impl=repr(rep)[:300],
                                  expected=paddr)
                else:
                    m = mism[paddr]
                    if not (isinstance(m.original, (int, float)) and isinstance(m.calced, (int, float))
                            and m.original == v2 and m.calced == v):
                        ctx.violation(case, "the mismatch does not carry the stored and the recomputed value",
                                      impl=[canon(m.original), canon(m.calced)], expected=[canon(v2), canon(v)])
                for other in mism:
                    oi = wb.index_of(other)
                    if other != paddr and (oi is None or p not in ancestors(wb, oi)):
                        ctx.violation(case, f"{other} is reported but does not depend on the altered cell",
                                      impl=repr(rep)[:300])
                if set(rep) - {'mismatch'}:
                    ctx.violation(case, "unexpected exception / not-implemented entries", impl=repr(rep)[:300])


# ------------------------------------------------------------------ formula cells behind unbounded ranges
def write_xlsx_cells(sheets, stored, path):
    """sheets: [(title, {coordinate: constant or '=formula'})] -> .xlsx at path, with the stored results
    {'title!coordinate': value} injected into the sheet XML (openpyxl does not write cached values)."""
    import re
    import zipfile
    import openpyxl
    owb = openpyxl.Workbook()
    for k, (title, cells) in enumerate(sheets):
        ws = owb.active if k == 0 else owb.create_sheet(title)
        ws.title = title
        for xy, v in cells.items():
            ws[xy] = v
    owb.save(path)
    tmp = path + '.tmp'
    with zipfile.ZipFile(path) as zin, zipfile.ZipFile(tmp, 'w', zipfile.ZIP_DEFLATED) as zout:
        for item in zin.infolist():
            data = zin.read(item.filename)
            m = re.fullmatch(r'xl/worksheets/sheet(\d+)\.xml', item.filename)
            if m:
                title = sheets[int(m.group(1)) - 1][0]
                xml = data.decode('utf8')
                for addr, v in stored.items():
                    sh, xy = addr.split('!')
                    if sh != title or v is None:
                        continue
                    if isinstance(v, bool):
                        typ, body = 'b', '1' if v else '0'
                    elif isinstance(v, (int, float)):
                        typ, body = None, repr(v)
                    else:
                        typ = 'e' if str(v).startswith('#') else 'str'
                        body = str(v).replace('&', '&amp;').replace('<', '&lt;').replace('>', '&gt;')
                    pat = re.compile(r'<c r="%s"([^>]*)>(<f>.*?</f>)(?:<v ?/>|<v></v>)' % xy)
                    mm = pat.search(xml)
                    if not mm:
                        raise RuntimeError(f'cannot inject stored value for {addr}')
                    attrs = re.sub(r'\s+t="[^"]*"', '', mm.group(1))
                    t = f' t="{typ}"' if typ else ''
                    xml = xml[:mm.start()] + f'<c r="{xy}"{attrs}{t}>{mm.group(2)}<v>{body}</v></c>' \
                        + xml[mm.end() + len('</c>'):]
                data = xml.encode('utf8')
            zout.writestr(item, data)
    os.replace(tmp, path)


def unbounded_workbook(rng):
    """Formula cells that the checked outputs reach ONLY through a whole-column / whole-row reference.  A data sheet
    (the consumers' own sheet or another one) with columns A and B of 3-6 rows mixing integer inputs and formula
    cells over earlier rows (=A1*3, =A2+B1, =SUM(A1:A2), =-A1), and a row (below the block) mixing inputs and
    formula cells; 2-4 consumer cells in column J (rows 1-4) of sheet S: =SUM(A:A), =SUM(A:B), =MAX(B:B)+1,
    =SUM(7:7)&"!", =COUNT(A:A)*A1, =SUM(A:A)+SUM(B:B), chains =J1*2, =J1+J3.
    Returns (sheets, deps): sheets for write_xlsx_cells, deps {formula address: set of formula/input addresses it
    reads directly} (an unbounded reference reads every written cell of its columns / rows)."""
    data = rng.choice(['S', 'S', 'T'])
    cells = {'S': {}, 'T': {}}
    deps = {}
    m = rng.randrange(3, 7)
    row = max(m, 4) + 2                        # the row of the whole-row reference; no consumer lives there

    def q(ref, home):
        return ref if home == data and rng.random() < 0.7 else f'{data}!{ref}'

    def put(xy, text, reads):
        cells[data][xy] = text
        deps[f'{data}!{xy}'] = {f'{data}!{r}' for r in reads}

    nform = 0
    for c in 'AB':
        for r in range(1, m + 1 if c == 'A' else rng.randrange(2, m + 1) + 1):
            earlier = [f'{c}{i}' for i in range(1, r)] + ([f'A{i}' for i in range(1, r + 1)] if c == 'B' else [])
            if r == 1 and c == 'A' or not earlier or rng.random() < 0.4:
                cells[data][f'{c}{r}'] = rng.choice([2, 3, 5, 7, -4, 10, 12, 100])
                continue
            nform += 1
            k = rng.randrange(5)
            a, b = rng.choice(earlier), rng.choice(earlier)
            if k == 0:
                put(f'{c}{r}', f'={a}*3', [a])
            elif k == 1:
                put(f'{c}{r}', f'={a}+{b}', [a, b])
            elif k == 2 and r > 2:
                put(f'{c}{r}', f'=SUM({c}1:{c}{r - 1})', [f'{c}{i}' for i in range(1, r)])
            elif k == 3:
                put(f'{c}{r}', f'=-{a}', [a])
            else:
                put(f'{c}{r}', f'={a}+1', [a])
    if nform == 0:
        put(f'A{m}', '=A1*3', ['A1'])
    for c in 'DEF':
        if rng.random() < 0.5:
            a = rng.choice(['A1', 'A2', 'B1'])
            put(f'{c}{row}', rng.choice([f'={a}+1', f'={a}*2']), [a])
        elif rng.random() < 0.7:
            cells[data][f'{c}{row}'] = rng.choice([10, 20, 3])
    if not any(f'{c}{row}' in cells[data] for c in 'DEF'):
        put(f'E{row}', '=A1+1', ['A1'])

    def members(pred):
        return {f'{data}!{xy}' for xy in cells[data] if pred(xy)}

    def col(xy):
        return xy.rstrip('0123456789')

    cons = []
    for r in range(1, rng.randrange(2, 5) + 1):
        k = rng.randrange(9) if r > 1 else rng.randrange(7)
        xy = f'J{r}'
        if k == 0:
            f, reads = f'=SUM({q("A:A", "S")})', members(lambda x: col(x) == 'A')
        elif k == 1:
            f, reads = f'=SUM({q("A:B", "S")})', members(lambda x: col(x) in 'AB')
        elif k == 2:
            f, reads = f'=MAX({q("$B:$B", "S")})+1', members(lambda x: col(x) == 'B')
        elif k == 3:
            f, reads = f'=SUM({q(f"{row}:{row}", "S")})&"!"', members(lambda x: x[len(col(x)):] == str(row))
        elif k == 4:
            f, reads = (f'=COUNT({q("A:A", "S")})*{q("A1", "S")}', members(lambda x: col(x) == 'A'))
        elif k == 5:
            f, reads = (f'=SUM({q("A:A", "S")})+SUM({q("B:B", "S")})', members(lambda x: col(x) in 'AB'))
        elif k == 6:
            f, reads = (f'=SUM({q("B:B", "S")},{q(f"${row}:${row}", "S")})',
                        members(lambda x: col(x) == 'B' or x[len(col(x)):] == str(row)))
        elif k == 7:
            f, reads = f'={rng.choice(cons)}*2', None
        else:
            f, reads = f'={rng.choice(cons)}+{cons[0]}', None
        cells['S'][xy] = f
        if reads is None:
            reads = {'S!' + t for t in re_cells(f)}
        deps[f'S!{xy}'] = set(reads)
        cons.append(xy)
    sheets = [('S', cells['S'])] + ([('T', cells['T'])] if data == 'T' else [])
    return sheets, deps


def re_cells(formula):
    import re
    return re.findall(r'[A-Z]+[0-9]+', formula)


def unbounded_stream(ctx, ExcelCompiler):
    """validate_calcs with explicit output_addrs on workbooks whose formula cells are reached from the outputs only
    through whole-column / whole-row references: consistent file -> empty report; each formula cell's stored result
    altered in turn -> the altered cell is named with (stored, recomputed), everything else named depends on it, no
    exception entries.  Oracle only (the loop model has no unbounded references)."""
    rng = ctx.rng
    ctx.extra['rule'] += (
        "; unbounded stream: workbooks (1-2 sheets) whose columns A/B and one row mix integer inputs and formula "
        "cells, read by 2-4 consumer cells through whole-column / whole-row references only (SUM(A:A), SUM(A:B), "
        "MAX($B:$B), SUM(7:7), COUNT(A:A), chains), consistent stored results, then each formula cell's stored result "
        "altered (number, text, logical, error value) x tolerance None / 0.001 / 1 x explicit output_addrs = one or two "
        "consumers from which the altered cell is reachable (sometimes all formulas)")
    for k in range(ctx.n(40, 400)):
        sheets, deps = unbounded_workbook(rng)
        desc = [[t, sorted(c.items())] for t, c in sheets]
        formulas = sorted(deps)
        anc = {}
        for f in formulas:
            out, todo = set(), list(deps[f])
            while todo:
                d = todo.pop()
                if d not in out:
                    out.add(d)
                    todo.extend(deps.get(d, ()))
            anc[f] = out
        consumers = [f for f in formulas if f.startswith('S!J')]
        path = os.path.join(ctx.work, f'ub{k}.xlsx')
        write_xlsx_cells(sheets, {}, path)
        ref = ExcelCompiler(filename=path)
        try:
            good = {f: ref.evaluate(f) for f in formulas}
        except Exception as exc:      # noqa: BLE001
            ctx.broke('harness: unbounded workbook does not evaluate', repr((desc, exc)))
            continue
        write_xlsx_cells(sheets, good, path)
        for tol in (None, 0.001):
            for outs in (None, [rng.choice(consumers)], consumers):
                comp = ExcelCompiler(filename=path)
                case = dict(call='validate', workbook=desc, args=[outs, tol], perturbed=None, stream='unbounded')
                try:
                    rep = quiet(comp.validate_calcs, output_addrs=outs, tolerance=tol)
                except Exception as exc:      # noqa: BLE001
                    ctx.violation(case, f"validate_calcs raises {type(exc).__name__}: {exc}"[:200])
                    continue
                ctx.count(('ub-ok', k, tol, repr(outs)), kind='unbounded:consistent')
                if rep != {}:
                    ctx.violation(case, "non-empty report on a consistent workbook", impl=repr(rep)[:300], expected={})
        for p in formulas:
            v = good[p]
            reach = [c for c in consumers if c == p or p in anc[c]]
            for tol in (None, 0.001, 1):
                t = tol if tol is not None else 0
                if isinstance(v, bool) or not isinstance(v, (int, float)):
                    perts = [('text', 'zz' if v != 'zz' else 'yy'), ('number', 12345), ('error', '#N/A')]
                else:
                    perts = [('2tol', v + 2 * t + (1 if tol is None else 0)), ('plus1', v + 1 + t), ('text', 'zz'),
                             ('error', '#DIV/0!'), ('logical', True if abs(v - 1) > 2 * t + 1 else 'yes')]      # TRUE is the number 1 to close_enough
                kind, v2 = rng.choice(perts)
                altered = dict(good)
                altered[p] = v2
                write_xlsx_cells(sheets, altered, path)
                if reach:
                    outs = rng.choice([[rng.choice(reach)], [rng.choice(reach)], reach, list(reversed(consumers)), None])
                else:
                    outs = rng.choice([None, [p]])      # a data cell no consumer reads
                comp = ExcelCompiler(filename=path)
                case = dict(call='validate', workbook=desc, args=[outs, tol], perturbed=[p, v, v2, kind],
                            stream='unbounded')
                try:
                    rep = quiet(comp.validate_calcs, output_addrs=outs, tolerance=tol)
                except Exception as exc:      # noqa: BLE001
                    ctx.violation(case, f"validate_calcs raises {type(exc).__name__}: {exc}"[:200])
                    continue
                ctx.count(('ub', k, p, kind, tol, repr(outs)),
                          kind=f'unbounded:perturbed-{kind}:' + ('all' if outs is None else 'explicit-outputs')
                          + (':behind-unbounded' if not p.startswith('S!J') else ''),
                          sample=dict(case, report=repr(rep)[:200]))
                mism = rep.get('mismatch', {})
                if p not in mism:
                    ctx.violation(case, "the altered cell is not reported as a mismatch", impl=repr(rep)[:300],
                                  expected=p)
                else:
                    mm = mism[p]
                    if canon(mm.original) != canon(v2) or canon(mm.calced) != canon(v):
                        ctx.violation(case, "the mismatch does not carry the stored and the recomputed value",
                                      impl=[canon(mm.original), canon(mm.calced)], expected=[canon(v2), canon(v)])
                for other in mism:
                    if other != p and p not in anc.get(other, ()):
                        ctx.violation(case, f"{other} is reported but does not depend on the altered cell",
                                      impl=repr(rep)[:300])
                if set(rep) - {'mismatch'}:
                    ctx.violation(case, "unexpected exception / not-implemented entries", impl=repr(rep)[:300])


# ------------------------------------------------------------------ cells that raise (coq/Model/ValidateFail.v)
PLUGIN12 = '''"""fault-injection plugin for the C12 check"""
FAILING = set()
NIMP = set()


def boomid(ident, *args):
    if ident in NIMP:
        raise NotImplementedError("no implementation for cell %s" % ident)
    if ident in FAILING:
        raise RuntimeError("injected failure of cell %s" % ident)
    return 7
'''

UNKNOWN_NAMES = ['NOSUCHFUNC', 'NOSUCHFUNC', 'NOSUCHB', 'MYFUNC']


def inject12(wb, rng, forced=()):
    """Replace 1-3 formula cells by formulas that raise (or by a plugin call that returns 7), keeping the precedents.
    Returns {node index: (kind, wire fault, function name)}; kinds: unknown (NameError before any precedent is read),
    unknown-late (after the first), plugin-fail (RuntimeError), plugin-nimp (NotImplementedError), plugin-ok."""
    faults = {}
    formulas = [i for i in wb.formulas() if i not in forced]
    chosen = list(forced) + rng.sample(formulas, min(len(formulas), rng.choice([0, 1, 1, 2] if forced else [1, 1, 2, 2, 3])))
    for fcell in chosen:
        node = wb.nodes[fcell]
        refs = [f'A{wb.nodes[d]["row"]}' if wb.nodes[d]['kind'] != 'range' else wb.nodes[d]['addr'].split('!')[1]
                for d in node['deps']]
        kind = rng.choice(['unknown', 'unknown', 'unknown-late', 'plugin-fail', 'plugin-fail', 'plugin-fail',
                           'plugin-nimp', 'plugin-ok'])
        if kind == 'unknown-late' and not (node['deps'] and wb.nodes[node['deps'][0]]['kind'] != 'range'):
            kind = 'unknown'
        name = rng.choice(UNKNOWN_NAMES)
        tag = str(1000 + fcell)          # makes the python code of every unknown-function cell unique
        if kind == 'unknown':
            node['text'] = f'={name}({",".join(refs + [tag])})'
            faults[fcell] = (kind, [1, 0], name)
        elif kind == 'unknown-late':
            node['text'] = f'={refs[0]}+{name}({",".join(refs[1:] + [tag])})'
            faults[fcell] = (kind, [1, 1], name)
        else:
            node['text'] = f'=BOOMID({fcell}{"".join("," + r for r in refs)})'
            faults[fcell] = (kind, [2], None)
    return faults


def eval_lines_chain(wb, codes, faults, exc_str):
    """The chain of cells named by the 'Eval:' lines of an exception text, outermost first (None = not understood)."""
    import re
    chain = []
    for line in exc_str.split('\n'):
        if not line.startswith('Eval: '):
            continue
        m = re.match(r'Eval: (%s![A-Z]+[0-9]+): (.*)$' % wbgen.SHEET, line)
        if m and wb.index_of(m.group(1)) is not None and codes.get(wb.index_of(m.group(1))) == m.group(2):
            chain.append(wb.index_of(m.group(1)))
            continue
        cands = [i for i, (kind, _, _) in faults.items() if kind.startswith('unknown') and codes.get(i) == line[6:]]
        if len(cands) != 1:
            return None
        chain.append(cands[0])
    return list(reversed(chain))


def impl_buckets(wb, codes, faults, rep, case, ctx):
    """failed['not-implemented'] / failed['exceptions'] as ([key, [[node, chain...]...]]...), insertion ordered."""
    out = []
    for name in ('not-implemented', 'exceptions'):
        b = []
        for key, entries in rep.get(name, {}).items():
            es = []
            for addr, formula, exc_str in entries:
                i = wb.index_of(addr)
                if i is None or formula != wb.nodes[i].get('text'):
                    ctx.violation(case, "an exception entry does not carry the address and the formula of its cell",
                                  impl=[addr, formula])
                ch = eval_lines_chain(wb, codes, faults, exc_str)
                es.append([i] + (ch if ch is not None else ['?', exc_str[-200:]]))
            b.append([key, es])
        out.append(b)
    return out


def text_stream(ctx, ExcelCompiler):
    """Oracle only: text-valued formula cells whose stored result is altered in ways a lenient comparison would
    miss - letter case only, a trailing or leading blank, an accent - under every tolerance and choice of outputs."""
    import os
    from harness import wbgen
    rng = ctx.rng
    path = os.path.join(ctx.work, 'text_case.xlsx')
    os.makedirs(ctx.work, exist_ok=True)
    for k in range(ctx.n(8, 60)):
        wb = wbgen.WB()
        base = rng.choice(['Widget', 'abc', 'MiXed', 'total', 'Zürich'])
        a = wb.add_input(base)
        b = wb.add_input(rng.choice(['-x', ' b', 'Q']))
        f1 = wb.add_formula('=A1&A2', [a, b], [0])
        f2 = wb.add_formula('=A3&"!"', [f1], [0])
        f3 = wb.add_formula('=A4=A3', [f2, f1], [0])
        formulas = [f1, f2, f3]
        ref = ExcelCompiler(excel=wb.to_openpyxl())
        good = {i: ref.evaluate(wb.nodes[i]['addr']) for i in formulas}
        desc = [(x['addr'], x.get('value'), x.get('text')) for x in wb.nodes]
        for p in (f1, f2):
            v = good[p]
            for kind, v2 in (('text-case', v.swapcase()), ('text-upper', v.upper() if v.upper() != v else v.lower()),
                             ('text-blank', v + ' '), ('text-lead', ' ' + v)):
                tol = rng.choice([None, 0.001, 1])
                altered = dict(good)
                altered[p] = v2
                wbgen.write_xlsx_with_results(wb, altered, path)
                paddr = wb.nodes[p]['addr']
                outs = rng.choice([None, [paddr], [wb.nodes[f3]['addr']], [wb.nodes[f2]['addr']]])
                comp = ExcelCompiler(filename=path)
                case = dict(call='validate', workbook=desc, args=[outs, tol], perturbed=[paddr, v, v2, kind],
                            stream='text')
                try:
                    rep = quiet(comp.validate_calcs, output_addrs=outs, tolerance=tol)
                except Exception as exc:      # noqa: BLE001
                    ctx.violation(case, f"validate_calcs raises {type(exc).__name__}: {exc}"[:200])
                    continue
                ctx.count(('text', k, p, kind, tol, repr(outs)), kind='text:' + kind)
                m = rep.get('mismatch', {}).get(paddr)
                if m is None:
                    ctx.violation(case, "the altered cell is not reported as a mismatch", impl=repr(rep)[:300],
                                  expected=paddr)
                elif m.original != v2 or m.calced != v:
                    ctx.violation(case, "the mismatch does not carry the stored and the recomputed value",
                                  impl=[m.original, m.calced], expected=[v2, v])


def failing_stream(ctx, ExcelCompiler):
    """validate_calcs on .xlsx files some of whose formula cells raise — an unknown function (whole formula, or the
    right operand of +), a plugin function that raises RuntimeError / NotImplementedError — against the loop of
    coq/Model/ValidateFail.v: the mismatch dictionary, the two exception dictionaries (keys in insertion order, the
    entries of each key in order: address, formula, the chain of cells in the 'Eval:' lines of the message), the
    exception that leaves the loop under raise_exceptions=True, and every cell value after the run."""
    import importlib
    import sys
    rng = ctx.rng
    with open(os.path.join(ctx.work, 'verif_c12_plugin.py'), 'w') as f:
        f.write(PLUGIN12)
    sys.path.insert(0, ctx.work)
    importlib.invalidate_caches()
    plugin = importlib.import_module('verif_c12_plugin')
    ctx.extra['rule'] += (
        "; failing stream: C01-generator workbooks of 5-10 cells (often extended by a cell reading 2-3 ranges and "
        "dependants of it) with 1-3 formula cells replaced by an unknown function (NOSUCHFUNC / NOSUCHB / MYFUNC, whole "
        "formula or right operand of +) or a plugin call that raises RuntimeError / NotImplementedError or returns 7; "
        "stored results: none / what the formulas produce from scratch (none for a cell that raises) / what Excel would "
        "have stored had the functions existed (failing cells included), optionally one stored result altered; outputs: "
        "all formulas / 1-3 formula cells in any order (repeats allowed); tolerance None / 0.001 / 1; "
        "raise_exceptions False (mostly) / True")
    from harness.props.c09 import extend
    batch = []
    try:
        # first the workbook of the finding repaired by /repo bbbc9be (known_findings.json
        # C12-failed-cell-precedents-not-walked, kind fixed): a regression must show here
        jobs = [('witness', 'w')] + [('random', k) for k in range(ctx.n(110, 1100))]
        for which, k in jobs:
            if which == 'witness':
                wb = wbgen.WB()
                wb.add_input(1)
                wb.add_formula('=A1+1', [0], [3, 0, [0, 0], [1, 1]])
                wb.add_formula('=BOOMID(2,A2)', [1], [2, [0, 0]])
                wb.add_formula('=A3+1', [2], [3, 0, [0, 0], [1, 1]])
                faults = {2: ('plugin-fail', [2], None)}
                mode, stored, pert = 'altered-precedent', {1: 3}, [wb.nodes[1]['addr'], 2, 3, 'witness']
                outs, tol, raise_exc = [wb.nodes[3]['addr']], None, False
            else:
                wb = wbgen.gen_workbook(rng, ncells=rng.randrange(5, 11), pool=wbgen.CLEAN_POOL + [0, 1])
                if not wb.formulas():
                    continue
                faults = inject12(wb, rng, extend(wb, rng))
            plugin.FAILING.clear()
            plugin.NIMP.clear()
            plugin.FAILING.update(i for i, f in faults.items() if f[0] == 'plugin-fail')
            plugin.NIMP.update(i for i, f in faults.items() if f[0] == 'plugin-nimp')
            formulas = wb.formulas()
            desc = [(x['addr'], x.get('value'), x.get('text')) for x in wb.nodes]
            # from-scratch outcome of every formula cell (None = raises)
            ref = ExcelCompiler(excel=wb.to_openpyxl(), plugins=('verif_c12_plugin',))
            scratch = {}
            for i in formulas:
                try:
                    scratch[i] = ('ok', ref.evaluate(wb.nodes[i]['addr']))
                except Exception:      # noqa: BLE001
                    scratch[i] = ('raise', None)
            if which == 'random':
                mode = rng.choice(['none', 'sound', 'sound', 'excel', 'excel'])
                if mode == 'none':
                    stored = {}
                elif mode == 'sound':
                    stored = {i: v for i, (st, v) in scratch.items() if st == 'ok'}
                else:
                    owb = wb.to_openpyxl()
                    for i, (fk, _, _) in faults.items():
                        owb[wbgen.SHEET].cell(row=wb.nodes[i]['row'], column=1,
                                              value=5 if fk.startswith('unknown') else 7)
                    xl = ExcelCompiler(excel=owb)
                    stored = {i: xl.evaluate(wb.nodes[i]['addr']) for i in formulas}
                pert = None
                cands = [i for i in formulas if stored.get(i) is not None]
                if cands and rng.random() < 0.4:
                    p = rng.choice(cands)
                    v = stored[p]
                    v2 = v + 3 if isinstance(v, (int, float)) and not isinstance(v, bool) else \
                        ('zz' if v != 'zz' else 'yy')
                    stored = dict(stored)
                    stored[p] = v2
                    pert = [wb.nodes[p]['addr'], v, v2, 'altered']
                r = rng.random()
                if r < 0.4:
                    outs = None
                else:
                    outs = [wb.nodes[rng.choice(formulas)]['addr'] for _ in range(rng.choice([1, 1, 2, 3]))]
                tol = rng.choice([None, None, 0.001, 1])
                raise_exc = rng.random() < 0.12
            path = os.path.join(ctx.work, f'f{k}.xlsx')
            wbgen.write_xlsx_with_results(wb, stored, path)
            comp = ExcelCompiler(filename=path, plugins=('verif_c12_plugin',))
            case = dict(call='validate-failing', workbook=desc, args=[outs, tol], stored=mode, perturbed=pert,
                        faults={wb.nodes[i]['addr']: f[0] for i, f in faults.items()}, raise_exceptions=raise_exc,
                        stream='failing', variant='correspondence')
            raised = None
            try:
                rep = quiet(comp.validate_calcs, output_addrs=outs, tolerance=tol, raise_exceptions=raise_exc)
            except Exception as exc:      # noqa: BLE001
                if not raise_exc:
                    ctx.violation(case, f"validate_calcs raises {type(exc).__name__}: {exc}"[-200:])
                    continue
                raised, rep = str(exc), {}
            kinds = sorted({f[0] for f in faults.values()})
            ctx.count(('failing', k, mode, repr(outs), tol, raise_exc), kind=f'failing:{mode}:' + '+'.join(kinds),
                      sample=dict(case, report=repr({b: {kk: [e[:2] for e in vv] for kk, vv in d.items()}
                                                     for b, d in rep.items() if b != 'mismatch'})[:300]))
            codes = {}
            for i in formulas:
                cell = comp.cell_map.get(wb.nodes[i]['addr'])
                if cell is not None and cell.formula:
                    codes[i] = cell.formula.python_code
            if raised is None and not raise_exc:
                oracle_failing(ctx, case, wb, faults, scratch, stored, mode, pert, outs, rep)
            # ---- the model call
            texts, keytexts = [], []
            for i, n in enumerate(wb.nodes):
                cell = comp.cell_map.get(n['addr'])
                t = str(cell.formula) if (cell is not None and n['kind'] == 'formula') else (n.get('text') or '')
                texts.append([ord(c) for c in t])
                fk = faults.get(i, ('', None, None))
                own = ('RuntimeError: injected failure of cell %s' % i if fk[0] == 'plugin-fail' else
                       'NotImplementedError: no implementation for cell %s' % i if fk[0] == 'plugin-nimp' else '')
                ev = f"Eval: {n['addr']}: {codes[i]}" if i in codes else ''
                keytexts.append([[ord(c) for c in (fk[2] or '').upper()], [ord(c) for c in own], [ord(c) for c in ev]])
            nodes = [nd + [faults[i][1] if i in faults else [0]] for i, nd in enumerate(wb.wire(stored=stored))]
            oidx = formulas if outs is None else [wb.index_of(a) for a in outs]
            call = ('validate_f', [nodes, sorted(plugin.FAILING | plugin.NIMP), sorted(plugin.NIMP), texts,
                                   enc_tol(tol), oidx, 1 if raise_exc else 0, keytexts])
            irep = [(wb.index_of(a), canon(m.original), canon(m.calced)) for a, m in rep.get('mismatch', {}).items()]
            ibk = impl_buckets(wb, codes, faults, rep, case, ctx)
            iraised = eval_lines_chain(wb, codes, faults, raised) if raised is not None else None
            batch.append((case, wb, call, irep, wbgen.snapshot(comp, wb), ibk, raised is not None, iraised))
        if ctx.model:
            compare_failing(ctx, batch)
    finally:
        sys.path.remove(ctx.work)
        sys.modules.pop('verif_c12_plugin', None)


def oracle_failing(ctx, case, wb, faults, scratch, stored, mode, pert, outs, rep):
    """What the property (and coq/Props/C12.v C12_*_f) promises when cells raise."""
    listed = {}
    for b in ('not-implemented', 'exceptions'):
        for key, entries in rep.get(b, {}).items():
            for addr, _, _ in entries:
                listed.setdefault(wb.index_of(addr), []).append((b, key))
    mism = {wb.index_of(a) for a in rep.get('mismatch', {})}
    sound = mode in ('none', 'sound')
    for i in listed:
        # with stored results on failing cells ('excel') a dependant popped after the failing cell was emptied raises
        # although Excel's value was stored; from scratch it raises too
        if i is None or scratch.get(i, ('ok',))[0] != 'raise':
            ctx.violation(dict(case, variant='oracle'), "a cell that evaluates from scratch is listed under exceptions",
                          impl=repr(listed)[:300])
    if sound and pert is None and mism:
        ctx.violation(dict(case, variant='oracle'), "a mismatch is reported although every stored result present is "
                      "what the formulas produce", impl=repr(rep.get('mismatch'))[:300])
    if pert is not None:
        p = wb.index_of(pert[0])
        dep_p = wb.descendants(p) | {p}
        for m in mism:
            if sound and m not in dep_p:
                ctx.violation(dict(case, variant='oracle'), f"{wb.nodes[m]['addr']} is reported as a mismatch but does "
                              "not depend on the altered cell", impl=repr(rep.get('mismatch'))[:300])
        oi = set(wb.formulas() if outs is None else [wb.index_of(a) for a in outs])
        if sound and p in oi and scratch[p][0] == 'ok':
            mm = rep.get('mismatch', {}).get(pert[0])
            if mm is None or canon(mm.original) != canon(pert[2]) or canon(mm.calced) != canon(pert[1]):
                ctx.violation(dict(case, variant='oracle'), "the altered cell is a checked output, evaluates, and is "
                              "not reported with its stored and recomputed value", impl=repr(rep)[:300])
    # nothing reachable is skipped silently — below a cell that raises neither (repair bbbc9be of /repo):
    # every formula cell the checked outputs depend on that cannot be evaluated is listed
    oi = wb.formulas() if outs is None else [wb.index_of(a) for a in outs]
    witness = pert is not None and pert[3] == 'witness'
    if sound or witness:
        seen, todo = set(), list(oi)
        while todo:
            x = todo.pop()
            if x in seen:
                continue
            seen.add(x)
            if wb.nodes[x]['kind'] == 'formula' and scratch[x][0] == 'raise' and x not in listed:
                ctx.violation(dict(case, variant='oracle', skipped=wb.nodes[x]['addr']),
                              "a cell the checked outputs depend on cannot be evaluated and is under neither exceptions "
                              "nor not-implemented", impl=repr(listed)[:300])
            todo.extend(wb.nodes[x]['deps'])
    if witness and wb.index_of(pert[0]) not in mism:
        ctx.violation(dict(case, variant='oracle', skipped=pert[0]),
                      "the altered stored result of a cell reachable from the checked output is not reported: the walk "
                      "stops at the cell that raises", impl=repr(rep)[:300], expected=pert[0])
    # an altered cell that evaluates and that the outputs reach is reported, whatever lies in between
    if pert is not None and sound:
        p = wb.index_of(pert[0])
        reach, todo = set(), list(oi)
        while todo:
            x = todo.pop()
            if x not in reach:
                reach.add(x)
                todo.extend(wb.nodes[x]['deps'])
        if p in reach and scratch[p][0] == 'ok':
            mm = rep.get('mismatch', {}).get(pert[0])
            if mm is None or canon(mm.original) != canon(pert[2]) or canon(mm.calced) != canon(pert[1]):
                ctx.violation(dict(case, variant='oracle'), "the altered cell is reachable from the checked outputs, "
                              "evaluates, and is not reported with its stored and recomputed value",
                              impl=repr(rep)[:300])


def compare_failing(ctx, batch):
    answers = ctx.model.batch([b[2] for b in batch])
    for (case, wb, _, irep, isnap, ibk, did_raise, iraised), ans in zip(batch, answers):
        if not (isinstance(ans, list) and len(ans) == 7 and all(isinstance(x, list) for x in ans)):
            ctx.divergence(case, 'n/a', ans, 'Model/ValidateFail.v validate_f entry rejected the input')
            continue
        left, _verified, mrep, msnap, mni, mex, mraised = ans
        if left and not mraised:
            ctx.count(('f-fuel', repr(case)), kind='model:out-of-fuel')
            continue
        mrep = [(e[0], canon_model(dec_val(e[1])), canon_model(dec_val(e[2]))) for e in mrep]
        msnap = {i: canon_model(dec_val(x[1])) for i, x in enumerate(msnap) if x[0] == 1}
        if has_marker([m[1:] for m in mrep]) or has_marker(list(msnap.values())):
            ctx.count(('f-unmodelled', repr(case)), kind='model:unmodelled-operator')
            continue
        ctx.count(('f-corr', repr(case)), kind='correspondence:failing:' + ('raise_exceptions' if did_raise else
                  'buckets' if (ibk[0] or ibk[1]) else 'no-exception'))
        if did_raise != bool(mraised):
            ctx.divergence(case, did_raise, mraised, 'Model/ValidateFail.v fs_raised <> None iff validate_calcs('
                           'raise_exceptions=True) raises')
            continue
        if did_raise:
            if iraised != mraised[1:]:
                ctx.divergence(case, iraised, mraised, "Model/ValidateFail.v fs_raised: chain = the cells of the 'Eval:' "
                               "lines of the exception that leaves validate_calcs")
                continue
        else:
            mbk = [[["".join(chr(c) for c in k), es] for k, es in b] for b in (mni, mex)]
            if mbk != ibk:
                ctx.divergence(case, ibk, mbk, "Model/ValidateFail.v failed_buckets = failed['not-implemented'], "
                               "failed['exceptions'] (keys in order, entries in order: cell, chain of the message)")
                continue
            if [m[0] for m in mrep] != [i[0] for i in irep] or any(
                    not (same(m[1], i[1]) and same(m[2], i[2])) for m, i in zip(mrep, irep)):
                ctx.divergence(case, irep, mrep, 'Model/ValidateFail.v fs_report = validate_calcs mismatch dictionary')
                continue
        if set(msnap) != set(isnap) or any(not same(msnap[i], isnap[i]) for i in isnap):
            diff = {i: (isnap.get(i, '<unbuilt>'), msnap.get(i, '<unbuilt>')) for i in set(isnap) | set(msnap)
                    if i not in isnap or i not in msnap or not same(msnap[i], isnap[i])}
            ctx.divergence(case, diff, 'see impl', 'Model/ValidateFail.v final cache = cell_map values after validate_calcs')


def run(ctx):
    ensure_impl_on_path()
    from pycel import ExcelCompiler
    rng = ctx.rng
    os.makedirs(ctx.work, exist_ok=True)
    ctx.extra['rule'] = (
        "single-sheet DAG workbooks of 5-9 cells (C01 generator, integer/text/logical results) written as .xlsx "
        "with consistent stored results; then each formula cell in turn gets a perturbed stored result (number "
        "+-{tol/2, tol, 2 tol, 1}, text, logical, error value) x tolerance in {None, 0.001, 1} x checked outputs "
        "(all formulas / one output); distinct = distinct (workbook, perturbed cell, perturbation, tolerance, outputs); "
        "every run is also replayed on the extracted loop model (correspondence:*), with two correspondence-only "
        "streams per workbook: tolerance=0, and a stored result equal to the formula's own text")
    nwb = ctx.n(60, 600)
    batch = []
    for k in range(nwb):
        wb = wbgen.gen_workbook(rng, ncells=rng.randrange(5, 10), pool=wbgen.CLEAN_POOL + [0, 1])
        desc = [(x['addr'], x.get('value'), x.get('text')) for x in wb.nodes]
        formulas = wb.formulas()
        if not formulas:
            continue
        ref = ExcelCompiler(excel=wb.to_openpyxl())
        good = {i: ref.evaluate(wb.nodes[i]['addr']) for i in formulas}
        path = os.path.join(ctx.work, f'v{k}.xlsx')
        # ---- consistent file: empty report, whatever the outputs and the tolerance
        wbgen.write_xlsx_with_results(wb, good, path)
        for tol in (None, 0.001, 1, 0):
            for outs in (None, [wb.nodes[rng.choice(formulas)]['addr']]):
                comp = ExcelCompiler(filename=path)
                case = dict(call='validate', workbook=desc, args=[outs, tol], perturbed=None)
                try:
                    rep = quiet(comp.validate_calcs, output_addrs=outs, tolerance=tol)
                except Exception as exc:      # noqa: BLE001
                    ctx.violation(case, f"validate_calcs raises {type(exc).__name__}: {exc}"[:200])
                    continue
                ctx.count(('ok', k, tol, repr(outs)), kind='consistent')
                record(batch, case, wb, good, comp, rep, outs, tol)
                if rep != {}:
                    ctx.violation(case, "non-empty report on a consistent workbook", impl=repr(rep)[:300], expected={})
        # ---- consistent file in which some formula cells have no stored result: still an empty report, the
        #      cells without stored result as the checked outputs or on the way
        partial = {i: (None if rng.random() < 0.4 else r) for i, r in good.items()}
        missing = [i for i in formulas if partial[i] is None]
        if missing:
            wbgen.write_xlsx_with_results(wb, partial, path)
            for outs in (None, [wb.nodes[rng.choice(missing)]['addr']]):
                tol = rng.choice([None, 0.001, 1])
                comp = ExcelCompiler(filename=path)
                case = dict(call='validate', workbook=desc, args=[outs, tol], perturbed=None,
                            no_stored_result=[wb.nodes[o]['addr'] for o in missing])
                try:
                    rep = quiet(comp.validate_calcs, output_addrs=outs, tolerance=tol)
                except Exception as exc:      # noqa: BLE001
                    ctx.violation(case, f"validate_calcs raises {type(exc).__name__}: {exc}"[:200])
                    continue
                ctx.count(('ok-partial', k, tol, repr(outs)), kind='consistent:some-cells-without-stored-result')
                record(batch, case, wb, partial, comp, rep, outs, tol)
                if rep != {}:
                    ctx.violation(case, "non-empty report on a consistent workbook (some formula cells without stored "
                                        "result)", impl=repr(rep)[:300], expected={})
        # ---- perturb one stored result at a time
        for p in formulas:
            v = good[p]
            for tol in (None, 0.001, 1):
                t = tol if tol is not None else 0
                if isinstance(v, bool) or not isinstance(v, (int, float)):
                    perts = [('text', 'zz' if v != 'zz' else 'yy'), ('number', 12345)]
                    if not isinstance(v, bool):
                        perts.append(('logical', True))
                    if isinstance(v, str) and v.swapcase() != v and not v.startswith('#'):
                        # a text that differs only in the case of its letters, or by a trailing blank, is altered
                        perts = [('text-case', v.swapcase()), ('text-blank', v + ' ')] + perts
                else:
                    perts = [('2tol', v + 2 * t + (1 if tol is None else 0)), ('plus1', v + 1 + t),
                             ('text', 'zz'), ('half-tol', v + t / 2)]
                kind, v2 = rng.choice(perts[:3]) if rng.random() < 0.75 else perts[-1]
                if rng.random() < 0.05:
                    kind, v2 = 'formula-text', wb.nodes[p]['text']
                altered = dict(good)
                altered[p] = v2
                choices = [None] + [[wb.nodes[o]['addr']] for o in formulas if o == p or p in ancestors(wb, o)]
                outs = rng.choice(choices)
                # ---- formula cells WITHOUT a stored result (a formula whose result is "" is saved as <v/>, a file
                # written by a tool that does not calculate has no cached value at all) downstream of the altered
                # cell: one of them is the checked output - the altered cell is reachable only through cells that
                # have nothing to compare -, others lie on the paths; nothing reachable may be skipped
                below = [o for o in formulas if o != p and p in ancestors(wb, o)]
                empty = []
                if below and kind != 'formula-text' and rng.random() < 0.45:
                    empty = [o for o in below if rng.random() < 0.5] or [rng.choice(below)]
                    for o in empty:
                        altered[o] = None
                    if rng.random() < 0.85:
                        outs = [wb.nodes[rng.choice(empty)]['addr']]
                wbgen.write_xlsx_with_results(wb, altered, path)
                comp = ExcelCompiler(filename=path)
                paddr = wb.nodes[p]['addr']
                case = dict(call='validate', workbook=desc, args=[outs, tol], perturbed=[paddr, v, v2, kind])
                if empty:
                    case['no_stored_result'] = [wb.nodes[o]['addr'] for o in empty]
                try:
                    rep = quiet(comp.validate_calcs, output_addrs=outs, tolerance=tol)
                except Exception as exc:      # noqa: BLE001
                    ctx.violation(case, f"validate_calcs raises {type(exc).__name__}: {exc}"[:200])
                    continue
                ctx.count(('pert', k, p, kind, tol, repr(outs), tuple(empty)), kind='perturbed-' + kind,
                          sample=dict(case, report=repr(rep)[:200]))
                if empty:
                    ctx.count(('pert-empty', k, p, kind, tol, repr(outs), tuple(empty)),
                              kind='perturbed:output-without-stored-result' if outs and wb.index_of(outs[0]) in empty
                              else 'perturbed:cells-without-stored-result-on-the-paths')
                    # (a cell without stored result that depends on the altered cell MAY be named: evaluating the output
                    # fills it in from the altered value, and that value is what the loop later compares - the
                    # property allows every reported cell that depends on the altered one)
                record(batch, case, wb, altered, comp, rep, outs, tol)
                mism = rep.get('mismatch', {})
                if kind == 'half-tol' and tol is not None:
                    # within the tolerance: must not be reported
                    if paddr in mism:
                        ctx.violation(case, "a stored result altered by less than the tolerance is reported",
                                      impl=repr(rep)[:300])
                    continue
                if kind == 'half-tol':
                    continue
                if paddr not in mism:
                    ctx.violation(case, "the altered cell is not reported as a mismatch", impl=repr(rep)[:300],
                                  expected=paddr)
                else:
                    m = mism[paddr]
                    if canon(m.original) != canon(v2) or canon(m.calced) != canon(v):
                        ctx.violation(case, "the mismatch does not carry the stored and the recomputed value",
                                      impl=[canon(m.original), canon(m.calced)], expected=[canon(v2), canon(v)])
                for other in mism:
                    oi = wb.index_of(other)
                    if other != paddr and (oi is None or p not in ancestors(wb, oi)):
                        ctx.violation(case, f"{other} is reported but does not depend on the altered cell",
                                      impl=repr(rep)[:300])
                if set(rep) - {'mismatch'}:
                    ctx.violation(case, "unexpected exception / not-implemented entries", impl=repr(rep)[:300])
        # ---- order / repetition / choice of the checked outputs (C12_decided_entries, C12_reported_once;
        #      coq/Refuted/C12_order.v): one altered cell, two output lists of several cells in different orders
        #      with repetitions - the altered cell carries the same entry in both, everything named depends on it;
        #      the cells BELOW it may differ between the two runs (counted, allowed); both replayed on the model
        try:
            p = rng.choice(formulas)
            v = good[p]
            v2 = 'zz' if v != 'zz' else 'yy'
            altered = dict(good)
            altered[p] = v2
            reach = [o for o in formulas if o == p or p in ancestors(wb, o)]
            base = [rng.choice(reach)] + [rng.choice(formulas) for _ in range(rng.randrange(1, 4))]
            outs_a = list(base)
            rng.shuffle(outs_a)
            outs_b = base + [rng.choice(base) for _ in range(rng.randrange(0, 3))]
            rng.shuffle(outs_b)
            if outs_b == outs_a:
                outs_b = list(reversed(outs_a)) + [outs_a[0]]
            tol = rng.choice([None, 0.001, 1])
            wbgen.write_xlsx_with_results(wb, altered, path)
            paddr = wb.nodes[p]['addr']
            reps = []
            for oi in (outs_a, outs_b):
                outs = [wb.nodes[o]['addr'] for o in oi]
                comp = ExcelCompiler(filename=path)
                case = dict(call='validate', workbook=desc, args=[outs, tol], perturbed=[paddr, v, v2, 'text'],
                            stream='order')
                try:
                    rep = quiet(comp.validate_calcs, output_addrs=outs, tolerance=tol)
                except Exception as exc:      # noqa: BLE001
                    ctx.violation(case, f"validate_calcs raises {type(exc).__name__}: {exc}"[:200])
                    continue
                ctx.count(('order', k, p, tol, tuple(oi)), kind='order:run')
                record(batch, case, wb, altered, comp, rep, outs, tol)
                mism = rep.get('mismatch', {})
                reps.append(mism)
                if paddr not in mism:
                    ctx.violation(case, "the altered cell is not reported as a mismatch (several outputs)",
                                  impl=repr(rep)[:300], expected=paddr)
                elif canon(mism[paddr].original) != canon(v2) or canon(mism[paddr].calced) != canon(v):
                    ctx.violation(case, "the mismatch does not carry the stored and the recomputed value "
                                        "(several outputs)",
                                  impl=[canon(mism[paddr].original), canon(mism[paddr].calced)],
                                  expected=[canon(v2), canon(v)])
                for other in mism:
                    oj = wb.index_of(other)
                    if other != paddr and (oj is None or p not in ancestors(wb, oj)):
                        ctx.violation(case, f"{other} is reported but does not depend on the altered cell "
                                            "(several outputs)", impl=repr(rep)[:300])
                if set(rep) - {'mismatch'}:
                    ctx.violation(case, "unexpected exception / not-implemented entries", impl=repr(rep)[:300])
            if len(reps) == 2:
                ctx.count(('order-pair', k, p, tol, tuple(outs_a), tuple(outs_b)),
                          kind='order:same-cells-named' if set(reps[0]) == set(reps[1])
                          else 'order:dependants-named-differ (allowed, Refuted/C12_order.v)')
        except Exception as exc:      # noqa: BLE001
            ctx.broke('harness: order stream failed', repr(exc))
        # ---- correspondence-only streams (model and implementation agree; see coq/Refuted/C12_*.v)
        try:
            wbgen.write_xlsx_with_results(wb, good, path)
            comp = ExcelCompiler(filename=path)
            outs = rng.choice([None, [wb.nodes[rng.choice(formulas)]['addr']]])
            rep = quiet(comp.validate_calcs, output_addrs=outs, tolerance=0)
            record(batch, dict(call='validate', workbook=desc, args=[outs, 0], perturbed=None),
                   wb, good, comp, rep, outs, 0)
            p = rng.choice(formulas)
            altered = dict(good)
            altered[p] = wb.nodes[p]['text']
            wbgen.write_xlsx_with_results(wb, altered, path)
            comp = ExcelCompiler(filename=path)
            tol = rng.choice([None, 0.001, 1])
            rep = quiet(comp.validate_calcs, tolerance=tol)
            record(batch, dict(call='validate', workbook=desc, args=[None, tol],
                               perturbed=[wb.nodes[p]['addr'], good[p], altered[p], 'formula-text']),
                   wb, altered, comp, rep, None, tol)
        except Exception as exc:      # noqa: BLE001
            ctx.broke('harness: correspondence-only stream failed', repr(exc))
    magnitude_stream(ctx, ExcelCompiler, batch)
    unbounded_stream(ctx, ExcelCompiler)
    failing_stream(ctx, ExcelCompiler)
    text_stream(ctx, ExcelCompiler)
    if ctx.model:
        compare(ctx, batch)
    close_enough_leg(ctx)
    # ---- cells that cannot be evaluated are reported, not skipped
    for k in range(ctx.n(10, 100)):
        wb = wbgen.gen_workbook(rng, ncells=rng.randrange(4, 8), pool=wbgen.CLEAN_POOL)
        formulas = wb.formulas()
        if not formulas:
            continue
        bad = rng.choice(formulas)
        wb.nodes[bad]['text'] = '=NOSUCHFUNCTION(1)'
        desc = [(x['addr'], x.get('value'), x.get('text')) for x in wb.nodes]
        owb = wb.to_openpyxl()
        path = os.path.join(ctx.work, f'u{k}.xlsx')
        owb.save(path)
        comp = ExcelCompiler(filename=path)
        case = dict(call='validate-unknown', workbook=desc, args=[wb.nodes[bad]['addr']])
        try:
            rep = quiet(comp.validate_calcs)
        except Exception as exc:      # noqa: BLE001
            ctx.violation(case, f"validate_calcs raises {type(exc).__name__}: {exc}"[:200])
            continue
        ctx.count(('unknown', k), kind='unknown-function')
        listed = repr(rep.get('not-implemented', {})) + repr(rep.get('exceptions', {}))
        if wb.nodes[bad]['addr'] not in listed:
            ctx.violation(case, "a cell that cannot be evaluated is neither under exceptions nor not-implemented",
                          impl=repr(rep)[:300])
    shutil.rmtree(ctx.work, ignore_errors=True)
