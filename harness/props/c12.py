"""C12 — validate_calcs reports exactly the stored results that disagree:
.xlsx files with consistent stored results, each formula cell's stored result
perturbed in turn, against the property's statement (and the loop model of
coq/Model/Validate.v)."""
import contextlib
import io
import os
import shutil

from harness import wbgen
from harness.common import canon, ensure_impl_on_path

GEN_MODULES = ['excelutil', 'aggregates', 'stats']

ASSUMPTIONS = [
    "stored results are integers, text and logicals computed by the implementation itself on a no-data "
    "copy of the workbook (integer arithmetic: 'consistent' is exact)",
    "the .xlsx files are written with openpyxl and the cached values injected into the sheet XML",
]


def ancestors(wb, n):
    out, stack = set(), list(wb.nodes[n]['deps'])
    while stack:
        d = stack.pop()
        if d not in out:
            out.add(d)
            stack.extend(wb.nodes[d]['deps'])
    return out


def quiet(f, *a, **kw):
    buf = io.StringIO()
    with contextlib.redirect_stdout(buf):
        return f(*a, **kw)


def run(ctx):
    ensure_impl_on_path()
    from pycel import ExcelCompiler
    rng = ctx.rng
    os.makedirs(ctx.work, exist_ok=True)
    ctx.extra['rule'] = (
        "single-sheet DAG workbooks of 5-9 cells (C01 generator, integer/text/logical results) written as .xlsx "
        "with consistent stored results; then each formula cell in turn gets a perturbed stored result (number "
        "+-{tol/2, tol, 2 tol, 1}, text, logical, error value) x tolerance in {None, 0.001, 1} x checked outputs "
        "(all formulas / one output); distinct = distinct (workbook, perturbed cell, perturbation, tolerance, outputs)")
    nwb = ctx.n(60, 600)
    for k in range(nwb):
        wb = wbgen.gen_workbook(rng, ncells=rng.randrange(5, 10), pool=wbgen.CLEAN_POOL + [0, 1])
        desc = [(x['addr'], x.get('value'), x.get('text')) for x in wb.nodes]
        formulas = wb.formulas()
        if not formulas:
            continue
        ref = ExcelCompiler(excel=wb.to_openpyxl())
        good = {i: ref.evaluate(wb.nodes[i]['addr']) for i in formulas}
        path = os.path.join(ctx.work, f'v{k}.xlsx')
        # ---- consistent file: empty report, whatever the outputs and the tolerance
        wbgen.write_xlsx_with_results(wb, good, path)
        for tol in (None, 0.001, 1):
            for outs in (None, [wb.nodes[rng.choice(formulas)]['addr']]):
                comp = ExcelCompiler(filename=path)
                case = dict(call='validate', workbook=desc, args=[outs, tol], perturbed=None)
                try:
                    rep = quiet(comp.validate_calcs, output_addrs=outs, tolerance=tol)
                except Exception as exc:      # noqa: BLE001
                    ctx.violation(case, f"validate_calcs raises {type(exc).__name__}: {exc}"[:200])
                    continue
                ctx.count(('ok', k, tol, repr(outs)), kind='consistent')
                if rep != {}:
                    ctx.violation(case, "non-empty report on a consistent workbook", impl=repr(rep)[:300], expected={})
        # ---- perturb one stored result at a time
        for p in formulas:
            v = good[p]
            for tol in (None, 0.001, 1):
                t = tol if tol is not None else 0
                if isinstance(v, bool) or not isinstance(v, (int, float)):
                    perts = [('text', 'zz' if v != 'zz' else 'yy'), ('number', 12345)]
                    if not isinstance(v, bool):
                        perts.append(('logical', True))
                else:
                    perts = [('2tol', v + 2 * t + (1 if tol is None else 0)), ('plus1', v + 1 + t),
                             ('text', 'zz'), ('half-tol', v + t / 2)]
                kind, v2 = rng.choice(perts[:3]) if rng.random() < 0.75 else perts[-1]
                altered = dict(good)
                altered[p] = v2
                wbgen.write_xlsx_with_results(wb, altered, path)
                choices = [None] + [[wb.nodes[o]['addr']] for o in formulas if o == p or p in ancestors(wb, o)]
                outs = rng.choice(choices)
                comp = ExcelCompiler(filename=path)
                paddr = wb.nodes[p]['addr']
                case = dict(call='validate', workbook=desc, args=[outs, tol], perturbed=[paddr, v, v2, kind])
                try:
                    rep = quiet(comp.validate_calcs, output_addrs=outs, tolerance=tol)
                except Exception as exc:      # noqa: BLE001
                    ctx.violation(case, f"validate_calcs raises {type(exc).__name__}: {exc}"[:200])
                    continue
                ctx.count(('pert', k, p, kind, tol, repr(outs)), kind='perturbed-' + kind,
                          sample=dict(case, report=repr(rep)[:200]))
                mism = rep.get('mismatch', {})
                if kind == 'half-tol' and tol is not None:
                    # within the tolerance: must not be reported
                    if paddr in mism:
                        ctx.violation(case, "a stored result altered by less than the tolerance is reported",
                                      impl=repr(rep)[:300])
                    continue
                if kind == 'half-tol':
                    continue
                if paddr not in mism:
                    ctx.violation(case, "the altered cell is not reported as a mismatch", impl=repr(rep)[:300],
                                  expected=paddr)
                else:
                    m = mism[paddr]
                    if canon(m.original) != canon(v2) or canon(m.calced) != canon(v):
                        ctx.violation(case, "the mismatch does not carry the stored and the recomputed value",
                                      impl=[canon(m.original), canon(m.calced)], expected=[canon(v2), canon(v)])
                for other in mism:
                    oi = wb.index_of(other)
                    if other != paddr and (oi is None or p not in ancestors(wb, oi)):
                        ctx.violation(case, f"{other} is reported but does not depend on the altered cell",
                                      impl=repr(rep)[:300])
                if set(rep) - {'mismatch'}:
                    ctx.violation(case, "unexpected exception / not-implemented entries", impl=repr(rep)[:300])
    # ---- cells that cannot be evaluated are reported, not skipped
    for k in range(ctx.n(10, 100)):
        wb = wbgen.gen_workbook(rng, ncells=rng.randrange(4, 8), pool=wbgen.CLEAN_POOL)
        formulas = wb.formulas()
        if not formulas:
            continue
        bad = rng.choice(formulas)
        wb.nodes[bad]['text'] = '=NOSUCHFUNCTION(1)'
        desc = [(x['addr'], x.get('value'), x.get('text')) for x in wb.nodes]
        owb = wb.to_openpyxl()
        path = os.path.join(ctx.work, f'u{k}.xlsx')
        owb.save(path)
        comp = ExcelCompiler(filename=path)
        case = dict(call='validate-unknown', workbook=desc, args=[wb.nodes[bad]['addr']])
        try:
            rep = quiet(comp.validate_calcs)
        except Exception as exc:      # noqa: BLE001
            ctx.violation(case, f"validate_calcs raises {type(exc).__name__}: {exc}"[:200])
            continue
        ctx.count(('unknown', k), kind='unknown-function')
        listed = repr(rep.get('not-implemented', {})) + repr(rep.get('exceptions', {}))
        if wb.nodes[bad]['addr'] not in listed:
            ctx.violation(case, "a cell that cannot be evaluated is neither under exceptions nor not-implemented",
                          impl=repr(rep)[:300])
    shutil.rmtree(ctx.work, ignore_errors=True)
