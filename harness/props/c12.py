"""C12 — validate_calcs reports exactly the stored results that disagree:
.xlsx files with consistent stored results, each formula cell's stored result
perturbed in turn, against the property's statement (and the loop model of
coq/Model/Validate.v)."""
import contextlib
import io
import os
import shutil

import fractions

from harness import wbgen
from harness.common import canon, dec_val, enc_val, ensure_impl_on_path, known_predicate, same

GEN_MODULES = ['excelutil', 'aggregates', 'stats']

ASSUMPTIONS = [
    "stored results are integers, text and logicals computed by the implementation itself on a no-data "
    "copy of the workbook (integer arithmetic: 'consistent' is exact)",
    "the .xlsx files are written with openpyxl and the cached values injected into the sheet XML",
    "theorems: formula meaning is an arbitrary total function of the precedents' values (nothing raises: the "
    "exceptions / not-implemented buckets are oracle-only); close_enough is computed on exact rationals "
    "((1 + 1e-5) * tol and math.isclose without IEEE rounding; the generated alterations stay away from the boundary)",
    "correspondence: every validate_calcs run of the two oracle streams, plus two correspondence-only streams "
    "(tolerance=0 on the consistent file; stored result = the text of the cell's own formula — the model reproduces "
    "both implementation behaviours, coq/Refuted/C12_*.v), is replayed on the extracted loop (entry 'validate' of "
    "coq/Extract/C12.v) with the same workbook, stored results, formula texts, tolerance and outputs; compared "
    "exactly: the mismatch dictionary (insertion order, original, calced) and every cell value after the run",
]


# ---- implementation behaviour the faithful model reproduces (coq/Refuted/C12_*.v); these streams are
# correspondence-only (no oracle call), the predicates are inert until the coordinator lists them
@known_predicate('C12-zero-tolerance')
def _zero_tol(case):
    args = case.get('args') or []
    return case.get('call') == 'validate' and len(args) == 2 and args[1] is not None and args[1] <= 0


@known_predicate('C12-stored-formula-text')
def _formula_text(case):
    pert = case.get('perturbed') or []
    return case.get('call') == 'validate' and len(pert) == 4 and pert[3] == 'formula-text'


def canon_model(v):
    """model values -> the canonical form of implementation values"""
    if isinstance(v, list):
        return [canon_model(x) for x in v]
    if isinstance(v, tuple) and not (len(v) == 2 and v[0] == 'float'):
        return tuple(canon_model(x) for x in v)
    return v


def has_marker(v):
    """the model's marker for 'the operator model raised' (outside the model)"""
    if isinstance(v, (list, tuple)):
        return any(has_marker(x) for x in v)
    return v == '#MODEL-RAISE'


def enc_tol(tol):
    if tol is None:
        return []
    f = fractions.Fraction(tol)
    return [f.numerator, f.denominator]


def record(batch, case, wb, stored, comp, rep, outs, tol):
    """What the implementation shows after validate_calcs, and the model call that replays it."""
    texts = []
    for n in wb.nodes:
        cell = comp.cell_map.get(n['addr'])
        t = str(cell.formula) if (cell is not None and n['kind'] == 'formula') else (n.get('text') or '')
        texts.append([ord(c) for c in t])
    oidx = wb.formulas() if outs is None else [wb.index_of(a) for a in outs]
    irep = [(wb.index_of(a), canon(m.original), canon(m.calced)) for a, m in rep.get('mismatch', {}).items()]
    batch.append((case, wb, ('validate', [wb.wire(stored=stored), texts, enc_tol(tol), oidx]),
                  irep, wbgen.snapshot(comp, wb), sorted(set(rep) - {'mismatch'})))


def compare(ctx, batch):
    answers = ctx.model.batch([call for (_, _, call, _, _, _) in batch])
    for (case, wb, _, irep, isnap, other), ans in zip(batch, answers):
        if not (isinstance(ans, list) and len(ans) == 4 and all(isinstance(x, list) for x in ans)):
            ctx.divergence(case, 'n/a', ans, 'Model/Validate.v validate entry rejected the input')
            continue
        left, _verified, mrep, msnap = ans
        if left:                       # out of fuel: outside the model (needs a skipped 'No Orig data?' cell)
            ctx.count(('fuel', repr(case)), kind='model:out-of-fuel')
            continue
        if other:                      # exception buckets are not modelled
            ctx.count(('exc', repr(case)), kind='model:exception-bucket-skipped')
            continue
        mrep = [(e[0], canon_model(dec_val(e[1])), canon_model(dec_val(e[2]))) for e in mrep]
        msnap = {i: canon_model(dec_val(x[1])) for i, x in enumerate(msnap) if x[0] == 1}
        if has_marker([m[1:] for m in mrep]) or has_marker(list(msnap.values())):
            ctx.count(('unmodelled', repr(case)), kind='model:unmodelled-operator')
            continue
        ctx.count(('corr', repr(case)), kind='correspondence:' + ('perturbed' if case.get('perturbed') else 'consistent'))
        if [m[0] for m in mrep] != [i[0] for i in irep] or any(
                not (same(m[1], i[1]) and same(m[2], i[2])) for m, i in zip(mrep, irep)):
            ctx.divergence(case, irep, mrep, 'Model/Validate.v report = validate_calcs mismatch dictionary '
                                             '(order, original, calced)')
            continue
        if set(msnap) != set(isnap) or any(not same(msnap[i], isnap[i]) for i in isnap):
            diff = {i: (isnap.get(i, '<unbuilt>'), msnap.get(i, '<unbuilt>')) for i in set(isnap) | set(msnap)
                    if i not in isnap or i not in msnap or not same(msnap[i], isnap[i])}
            ctx.divergence(case, diff, 'see impl', 'Model/Validate.v final cache = cell_map values after validate_calcs')


def close_enough_leg(ctx):
    """_CellBase.close_enough against its hand transcription (Model/Validate.v close_enough): numbers (int, float,
    logical), text, blank x tolerance None / positive / zero / negative; the alterations are powers of two times the
    value or simple multiples of the tolerance, far from the (1 + 1e-5) * tol and 1e-5 / 1e-8 boundaries, so that
    the exact-rational model and the float implementation must agree."""
    import types
    from pycel.excelcompiler import _CellBase
    rng = ctx.rng
    calls, meta = [], []
    nums = [0, 1, 2, 3, 7, -4, 10, 1000, 12345, 0.5, 2.25, -1.5, 1024.0, True, False]
    others = ['', 'a', 'zz', '#VALUE!', '12', None]
    for _ in range(ctx.n(400, 4000)):
        tol = rng.choice([None, None, 0.001, 1, 0.5, 2, 0, -1])
        a = rng.choice(nums + others) if rng.random() < 0.85 else rng.choice(others)
        if isinstance(a, (int, float)) and rng.random() < 0.85:
            base = float(a) if not isinstance(a, bool) else int(a)
            if tol:
                b = base + rng.choice([0, tol / 2, -tol / 2, tol, 2 * tol, -2 * tol, 1.5 * tol, tol / 4])
            else:
                b = base + rng.choice([0, base * 2.0 ** -30, base * 2.0 ** -20, -base * 2.0 ** -20, base * 2.0 ** -10,
                                       1, -1, 2.0 ** -30, 2.0 ** -20, -2.0 ** -30])
            if rng.random() < 0.1:
                b = rng.choice(others)
        else:
            b = rng.choice(nums + others)
        try:
            got = bool(_CellBase.close_enough(types.SimpleNamespace(value=a), b, tol=tol))
        except Exception as exc:     # noqa: BLE001
            got = ('raise', type(exc).__name__)
        calls.append(('close_enough', [enc_tol(tol), enc_val(a), enc_val(b)]))
        meta.append((dict(call='close_enough', args=[a, b, tol]), got))
    for (case, got), ans in zip(meta, ctx.model.batch(calls)):
        ctx.count(('close', repr(case['args'])), kind='correspondence:close_enough')
        m = dec_val(ans) if isinstance(ans, list) and ans and ans[0] == 1 else ('bad', ans)
        if m != got:
            ctx.divergence(case, got, m, 'Model/Validate.v close_enough = _CellBase.close_enough')


def ancestors(wb, n):
    out, stack = set(), list(wb.nodes[n]['deps'])
    while stack:
        d = stack.pop()
        if d not in out:
            out.add(d)
            stack.extend(wb.nodes[d]['deps'])
    return out


def quiet(f, *a, **kw):
    buf = io.StringIO()
    with contextlib.redirect_stdout(buf):
        return f(*a, **kw)


def run(ctx):
    ensure_impl_on_path()
    from pycel import ExcelCompiler
    rng = ctx.rng
    os.makedirs(ctx.work, exist_ok=True)
    ctx.extra['rule'] = (
        "single-sheet DAG workbooks of 5-9 cells (C01 generator, integer/text/logical results) written as .xlsx "
        "with consistent stored results; then each formula cell in turn gets a perturbed stored result (number "
        "+-{tol/2, tol, 2 tol, 1}, text, logical, error value) x tolerance in {None, 0.001, 1} x checked outputs "
        "(all formulas / one output); distinct = distinct (workbook, perturbed cell, perturbation, tolerance, outputs); "
        "every run is also replayed on the extracted loop model (correspondence:*), with two correspondence-only "
        "streams per workbook: tolerance=0, and a stored result equal to the formula's own text")
    nwb = ctx.n(60, 600)
    batch = []
    for k in range(nwb):
        wb = wbgen.gen_workbook(rng, ncells=rng.randrange(5, 10), pool=wbgen.CLEAN_POOL + [0, 1])
        desc = [(x['addr'], x.get('value'), x.get('text')) for x in wb.nodes]
        formulas = wb.formulas()
        if not formulas:
            continue
        ref = ExcelCompiler(excel=wb.to_openpyxl())
        good = {i: ref.evaluate(wb.nodes[i]['addr']) for i in formulas}
        path = os.path.join(ctx.work, f'v{k}.xlsx')
        # ---- consistent file: empty report, whatever the outputs and the tolerance
        wbgen.write_xlsx_with_results(wb, good, path)
        for tol in (None, 0.001, 1, 0):
            for outs in (None, [wb.nodes[rng.choice(formulas)]['addr']]):
                comp = ExcelCompiler(filename=path)
                case = dict(call='validate', workbook=desc, args=[outs, tol], perturbed=None)
                try:
                    rep = quiet(comp.validate_calcs, output_addrs=outs, tolerance=tol)
                except Exception as exc:      # noqa: BLE001
                    ctx.violation(case, f"validate_calcs raises {type(exc).__name__}: {exc}"[:200])
                    continue
                ctx.count(('ok', k, tol, repr(outs)), kind='consistent')
                record(batch, case, wb, good, comp, rep, outs, tol)
                if rep != {}:
                    ctx.violation(case, "non-empty report on a consistent workbook", impl=repr(rep)[:300], expected={})
        # ---- perturb one stored result at a time
        for p in formulas:
            v = good[p]
            for tol in (None, 0.001, 1):
                t = tol if tol is not None else 0
                if isinstance(v, bool) or not isinstance(v, (int, float)):
                    perts = [('text', 'zz' if v != 'zz' else 'yy'), ('number', 12345)]
                    if not isinstance(v, bool):
                        perts.append(('logical', True))
                else:
                    perts = [('2tol', v + 2 * t + (1 if tol is None else 0)), ('plus1', v + 1 + t),
                             ('text', 'zz'), ('half-tol', v + t / 2)]
                kind, v2 = rng.choice(perts[:3]) if rng.random() < 0.75 else perts[-1]
                if rng.random() < 0.05:
                    kind, v2 = 'formula-text', wb.nodes[p]['text']
                altered = dict(good)
                altered[p] = v2
                wbgen.write_xlsx_with_results(wb, altered, path)
                choices = [None] + [[wb.nodes[o]['addr']] for o in formulas if o == p or p in ancestors(wb, o)]
                outs = rng.choice(choices)
                comp = ExcelCompiler(filename=path)
                paddr = wb.nodes[p]['addr']
                case = dict(call='validate', workbook=desc, args=[outs, tol], perturbed=[paddr, v, v2, kind])
                try:
                    rep = quiet(comp.validate_calcs, output_addrs=outs, tolerance=tol)
                except Exception as exc:      # noqa: BLE001
                    ctx.violation(case, f"validate_calcs raises {type(exc).__name__}: {exc}"[:200])
                    continue
                ctx.count(('pert', k, p, kind, tol, repr(outs)), kind='perturbed-' + kind,
                          sample=dict(case, report=repr(rep)[:200]))
                record(batch, case, wb, altered, comp, rep, outs, tol)
                mism = rep.get('mismatch', {})
                if kind == 'half-tol' and tol is not None:
                    # within the tolerance: must not be reported
                    if paddr in mism:
                        ctx.violation(case, "a stored result altered by less than the tolerance is reported",
                                      impl=repr(rep)[:300])
                    continue
                if kind == 'half-tol':
                    continue
                if paddr not in mism:
                    ctx.violation(case, "the altered cell is not reported as a mismatch", impl=repr(rep)[:300],
                                  expected=paddr)
                else:
                    m = mism[paddr]
                    if canon(m.original) != canon(v2) or canon(m.calced) != canon(v):
                        ctx.violation(case, "the mismatch does not carry the stored and the recomputed value",
                                      impl=[canon(m.original), canon(m.calced)], expected=[canon(v2), canon(v)])
                for other in mism:
                    oi = wb.index_of(other)
                    if other != paddr and (oi is None or p not in ancestors(wb, oi)):
                        ctx.violation(case, f"{other} is reported but does not depend on the altered cell",
                                      impl=repr(rep)[:300])
                if set(rep) - {'mismatch'}:
                    ctx.violation(case, "unexpected exception / not-implemented entries", impl=repr(rep)[:300])
        # ---- correspondence-only streams (model and implementation agree; see coq/Refuted/C12_*.v)
        try:
            wbgen.write_xlsx_with_results(wb, good, path)
            comp = ExcelCompiler(filename=path)
            outs = rng.choice([None, [wb.nodes[rng.choice(formulas)]['addr']]])
            rep = quiet(comp.validate_calcs, output_addrs=outs, tolerance=0)
            record(batch, dict(call='validate', workbook=desc, args=[outs, 0], perturbed=None),
                   wb, good, comp, rep, outs, 0)
            p = rng.choice(formulas)
            altered = dict(good)
            altered[p] = wb.nodes[p]['text']
            wbgen.write_xlsx_with_results(wb, altered, path)
            comp = ExcelCompiler(filename=path)
            tol = rng.choice([None, 0.001, 1])
            rep = quiet(comp.validate_calcs, tolerance=tol)
            record(batch, dict(call='validate', workbook=desc, args=[None, tol],
                               perturbed=[wb.nodes[p]['addr'], good[p], altered[p], 'formula-text']),
                   wb, altered, comp, rep, None, tol)
        except Exception as exc:      # noqa: BLE001
            ctx.broke('harness: correspondence-only stream failed', repr(exc))
    if ctx.model:
        compare(ctx, batch)
        close_enough_leg(ctx)
    # ---- cells that cannot be evaluated are reported, not skipped
    for k in range(ctx.n(10, 100)):
        wb = wbgen.gen_workbook(rng, ncells=rng.randrange(4, 8), pool=wbgen.CLEAN_POOL)
        formulas = wb.formulas()
        if not formulas:
            continue
        bad = rng.choice(formulas)
        wb.nodes[bad]['text'] = '=NOSUCHFUNCTION(1)'
        desc = [(x['addr'], x.get('value'), x.get('text')) for x in wb.nodes]
        owb = wb.to_openpyxl()
        path = os.path.join(ctx.work, f'u{k}.xlsx')
        owb.save(path)
        comp = ExcelCompiler(filename=path)
        case = dict(call='validate-unknown', workbook=desc, args=[wb.nodes[bad]['addr']])
        try:
            rep = quiet(comp.validate_calcs)
        except Exception as exc:      # noqa: BLE001
            ctx.violation(case, f"validate_calcs raises {type(exc).__name__}: {exc}"[:200])
            continue
        ctx.count(('unknown', k), kind='unknown-function')
        listed = repr(rep.get('not-implemented', {})) + repr(rep.get('exceptions', {}))
        if wb.nodes[bad]['addr'] not in listed:
            ctx.violation(case, "a cell that cannot be evaluated is neither under exceptions nor not-implemented",
                          impl=repr(rep)[:300])
    shutil.rmtree(ctx.work, ignore_errors=True)
