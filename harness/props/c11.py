"""C11 — address algebra: correspondence (hand-written model coq/Model/Addr.v,
extracted, vs pycel.excelutil AddressRange/AddressCell and the openpyxl helpers)
and the property's oracle evaluated directly on the implementation.

Wire shapes: a cell is (sheet, col, row), a range (sheet, c1, r1, c2, r2), an
error value its text; results are (address, sheet, col, row) /
(address, sheet, c1, r1, c2, r2) / text, or the exception class."""
import itertools
import types

from harness.common import canon, dec_res, enc_val, ensure_impl_on_path, known_predicate, run_impl

GEN_MODULES = []
ASSUMPTIONS = []
EXPLANATION = (
    "Model/Addr.v is hand-written (the address classes are namedtuple subclasses with "
    "properties, outside the translator's subset); it is tied to the implementation by the "
    "differential run below, which compares printed address text, (sheet, col, row) tuples, "
    "error texts and exception classes exactly.")

MAX_COL, MAX_ROW = 16384, 1048576
BOUNDARY_COLS = [1, 2, 25, 26, 27, 28, 51, 52, 53, 676, 677, 701, 702, 703, 704, 728, 729,
                 16383, 16384]
BOUNDARY_ROWS = [1, 2, 9, 10, 11, 99, 100, 1000, 65536, 1048575, 1048576]
CORNERS = [(1, 1), (MAX_COL, 1), (1, MAX_ROW), (MAX_COL, MAX_ROW)]
ANCHORS = CORNERS + [(2, 2), (26, 10), (27, 100), (703, 65536), (MAX_COL - 1, MAX_ROW - 1)]

# sheet names Excel accepts (1..31 characters, none of \ / ? * [ ] :, no leading or
# trailing apostrophe)
SHEETS_PLAIN = ['Sheet1', 'S', 'data', 'A1', 'R1C1', 'RC', 'TRUE', 'XFD1048576', '2024', '1', 'a.b',
                'x-y', 'it\'s', 'a\'\'b', '#REF', '#N', 'Übersicht', '数据', 'a$b', 'a,b',
                'Tab(1)', 'A1B2', 'r[1]c[1]', 'x' * 31,
                # letters, digits, '_' and '.' only: printed bare by quote_sheet (repair 4860474) ...
                'Sheet_1.b', '_', '.', 'µ_1', 'x²', '½', 'ª.º', 'Ÿ', 'ÀÖØöøÿ', '数据_1',
                # ... any other character: quoted, although there is no space
                'a+b', 'a&b', 'p#q', 'a=b', 'a<b>', 'a@b', '50%', 'a;b', '{x}', 'a~b', 'a^b', '"q"', 'a|b', 'a`b',
                'a×b', 'a÷b', 'a\xa0b', '£5', '«q»', 'a¿', '数据-1', '🙂', 'x🙂', 'a$', '$', '$A$1', "o'clock-5"]
# str.isalnum() of these characters is not classified by the model (quote_sheet answers Unmodelled and the
# comparison of quote_sheet / the printed forms is skipped, counted under 'unmodelled'), unless another character
# of the name already forces the quotes ('π 1', 'π-1'); the oracle, which needs no model, keeps them
SHEETS_UNDECIDED = ['π_1', 'Ωmega', 'жук', 'ｆｕｌｌ', 'π 1', 'π-1']
SHEETS_SPACE = ['Sheet 1', 'My Data', ' lead', 'trail ', 'it\'s here', 'a \' b', 'a \'\' b', 'A1 B2',
                'R1C1 x', 'TRUE FALSE', '数据 表', '2024 Q1', 'x \'', 'a  b']
SHEETS_BANG = ['a!b', 'Hello!', '!x', 'wow !', 'a!b c', '!', 'it\'s!']
ILLEGAL_IN_EXCEL = ["'q'", "'", "''", "'a b'", "'lead", "trail'"]   # correspondence only


def is_excel_legal(s):
    return (0 < len(s) <= 31 and not any(c in s for c in '\\/?*[]:')
            and not s.startswith("'") and not s.endswith("'"))


# ----------------------------------------------------------------- helpers
def build(spec):
    """input spec -> implementation object"""
    from pycel.excelutil import AddressCell, AddressRange
    if isinstance(spec, str):
        return spec
    if len(spec) == 3:
        s, c, r = spec
        return AddressCell((c, r, c, r), sheet=s)
    s, c1, r1, c2, r2 = spec
    return AddressRange(tuple(x or None for x in (c1, r1, c2, r2)), sheet=s)   # 0 = unbounded side


def descr(o):
    """implementation result -> the shape the model answers with"""
    from pycel.excelutil import AddressCell, AddressRange
    if isinstance(o, AddressCell):
        return (o.address, o.sheet, o.col_idx, o.row)
    if isinstance(o, AddressRange):
        return (o.address, o.sheet, o.start.col_idx, o.start.row, o.end.col_idx, o.end.row)
    if isinstance(o, str):
        return o
    return ('unexpected', repr(o))


def rect_spec(sheet, c1, r1, c2, r2):
    return (sheet, c1, r1) if (c1, r1) == (c2, r2) else (sheet, c1, r1, c2, r2)


def anchor_obj(cell):
    return None if cell is None else types.SimpleNamespace(row=cell[0], col_idx=cell[1], excel=None)


def grid_rects(n):
    return [(c1, r1, c2, r2) for c1 in range(1, n + 1) for c2 in range(c1, n + 1)
            for r1 in range(1, n + 1) for r2 in range(r1, n + 1)]


def big_rect(rng):
    def span(mx, bnd):
        a = rng.choice(bnd + [rng.randrange(1, mx + 1)])
        b = rng.choice(bnd + [rng.randrange(1, mx + 1), a, min(mx, a + rng.randrange(0, 5))])
        return min(a, b), max(a, b)
    c1, c2 = span(MAX_COL, BOUNDARY_COLS)
    r1, r2 = span(MAX_ROW, BOUNDARY_ROWS)
    return (c1, r1, c2, r2)


def r1c1_text(dr, dc):
    return f"R[{dr}]C[{dc}]"


class Runner:
    """collects (entry, args, impl thunk) calls, runs both sides, compares"""

    def __init__(self, ctx):
        self.ctx = ctx
        self.calls = []

    def add(self, entry, args, thunk, kind=None):
        self.calls.append((entry, args, thunk, kind or entry))

    def run(self):
        ctx = self.ctx
        impl = [run_impl(lambda t=t: descr_any(t())) for _, _, t, _ in self.calls]
        if ctx.model:
            model = [dec_res(x) for x in ctx.model.batch(
                [(e, [enc_val(v) for v in a]) for e, a, _, _ in self.calls])]
        else:
            model = [None] * len(self.calls)
        for (e, a, _, kind), i, m in zip(self.calls, impl, model):
            ctx.count((e, repr(a)), kind=kind, sample=dict(call=e, args=list(a), impl=i))
            if m is None:
                continue
            if m[0] == 'raise' and m[1] in ('Unmodelled', 'OutOfFuel'):
                ctx.histogram['unmodelled'] = ctx.histogram.get('unmodelled', 0) + 1
                if len(ctx.extra.setdefault('unmodelled_calls', [])) < 30:
                    ctx.extra['unmodelled_calls'].append([e, repr(a)])
            elif m != i:
                ctx.divergence(dict(call=e, args=list(a)), i, m, 'Model/Addr.v = pycel.excelutil address API')
        self.calls = []


def descr_any(v):
    """descr for addresses; plain values (str, int, bool, tuples of them) pass through"""
    from pycel.excelutil import AddressCell, AddressRange
    if isinstance(v, (AddressCell, AddressRange)):
        return descr(v)
    if isinstance(v, tuple):
        return tuple(descr_any(x) for x in v)
    return canon(v)


# ------------------------------------------------------------ known findings
@known_predicate('C11-sheet-bang')
def _sheet_bang(case):
    return case.get('cls') == 'sheet-bang'


@known_predicate('C11-enum-full-span')
def _enum_full(case):
    return case.get('cls') == 'enum-full-span'


# Inert until the coordinator lists the ids in known_findings.json: the implementation stores "no limit
# on this axis" as the coordinate 0 and computes &, ** and `in` with it (extent 0..M-1 instead of 1..M), see
# coq/Refuted/C11_unbounded.v.  While an id is not listed, the deviations of the unbounded-operand oracle are
# only counted (histogram 'oracle:unbounded:deviation:*'); once listed they are reported as KNOWN-FINDING.
@known_predicate('C11-unbounded-algebra')
def _unbounded_algebra(case):
    return case.get('cls') == 'unbounded-algebra'


@known_predicate('C11-unbounded-abs-form')
def _unbounded_abs_form(case):
    return case.get('cls') == 'unbounded-abs-form'


def soft_violation(ctx, fid, case, what, **kw):
    """a deviation whose cause is the (reported, not yet listed) finding [fid]"""
    if any(f.get('id') == fid and f.get('kind') == 'known' for f in ctx.findings):
        ctx.violation(case, what, **kw)
    else:
        key = f'oracle:unbounded:deviation:{case.get("call")}'
        ctx.histogram[key] = ctx.histogram.get(key, 0) + 1
        ctx.extra.setdefault('unlisted_deviations', {}).setdefault(fid, dict(case=case, what=what, **kw))


def unbounded_pool(rng, n):
    """whole-column / whole-row ranges (0 = no limit), the forms & and ** produce from them, and bounded
    rectangles that reach the last column / row of the sheet"""
    cols = [(1, 3), (2, 4), (1, 1), (3, 3), (5, 9), (26, 27), (1, MAX_COL), (MAX_COL - 1, MAX_COL), (MAX_COL, MAX_COL)]
    rows = [(2, 5), (3, 9), (1, 1), (5, 5), (10, 11), (1, MAX_ROW), (MAX_ROW - 1, MAX_ROW), (MAX_ROW, MAX_ROW)]
    for _ in range(n):
        a, b = sorted((rng.randrange(1, MAX_COL + 1), rng.randrange(1, MAX_COL + 1)))
        cols.append((a, b))
        a, b = sorted((rng.randrange(1, MAX_ROW + 1), rng.randrange(1, MAX_ROW + 1)))
        rows.append((a, b))
    unb = [(c1, 0, c2, 0) for c1, c2 in cols] + [(0, r1, 0, r2) for r1, r2 in rows]
    produced = [(1, 0, 3, MAX_ROW - 1), (2, 0, 4, MAX_ROW), (0, 2, MAX_COL - 1, 5), (0, 3, MAX_COL, 9),
                (0, 0, MAX_COL - 1, MAX_ROW - 1)]
    edge = [(2, 1, 2, MAX_ROW), (2, 5, 3, MAX_ROW), (2, MAX_ROW, 2, MAX_ROW), (5, MAX_ROW, 5, MAX_ROW), (6, 1, 6, 1),
            (1, 2, MAX_COL, 2), (MAX_COL, 3, MAX_COL, 3), (MAX_COL - 1, 2, MAX_COL, 7), (2, 2, 4, 5), (1, 1, 1, 1),
            (3, 4, 3, 4), (1, 1, MAX_COL, MAX_ROW)]
    return unb, produced, edge


# R1C1 spellings: a component is bare, absolute or relative
def comp_text(letter, k):
    return letter + ('' if k is None else f'[{k[1]}]' if k[0] == 'rel' else str(k[1]))


def comp_val(is_row, anchor, k):
    ar, ac = anchor
    if k is None:
        return ar if is_row else ac
    if k[0] == 'abs':
        return k[1]
    return (ar + k[1] - 1) % MAX_ROW + 1 if is_row else (ac + k[1] - 1) % MAX_COL + 1


def a1like(item):
    """(has digits,) when one side 'R..C..' is also letters[+digits] of the A1 grammar, else None"""
    comps = [k for k in item if k != 'absent']
    if any(k is not None and k[0] == 'rel' for k in comps):
        return None
    if len(comps) == 2 and comps[0] is not None:       # R<n>C... : a letter after the digits
        return None
    return (comps[-1] is not None,)


def spelling_text(sp):
    def item(row, col):
        return ('' if row == 'absent' else comp_text('R', row)) + ('' if col == 'absent' else comp_text('C', col))
    return ':'.join(item(*it) for it in sp)


def spelling_unambiguous(sp):
    likes = [a1like(it) for it in sp]
    if len(sp) == 1:
        return likes[0] is None or not likes[0][0]
    return likes[0] is None or likes[1] is None or likes[0] != likes[1]


def spelling_want(sp, anchor):
    """(c1, r1, c2, r2) with 0 for an absent axis, by offset arithmetic from the anchor"""
    def val(is_row, k):
        return 0 if k == 'absent' else comp_val(is_row, anchor, k)
    (r1, c1), (r2, c2) = sp[0], sp[-1]
    return (val(False, c1), val(True, r1), val(False, c2), val(True, r2))


def gen_spellings(rng, n):
    def comp(mx):
        t = rng.random()
        if t < 0.3:
            return None
        if t < 0.55:
            return ('abs', rng.choice([1, 2, 5, 7, mx - 1, mx, rng.randrange(1, mx + 1)]))
        return ('rel', rng.choice([0, 1, -1, 2, -2, 3, mx, -mx, mx - 1, rng.randrange(-3 * mx, 3 * mx)]))
    out = [[(None, ('rel', 1))], [(('rel', 2), None)], [(('abs', 5), ('rel', 1))], [(None, None)],
           [(None, 'absent'), (('rel', 3), 'absent')], [('absent', None), ('absent', ('rel', 2))],
           [('absent', ('abs', 2)), ('absent', ('rel', 1))], [(('rel', 1), 'absent'), (('rel', 3), 'absent')],
           [(None, None), (('rel', 1), ('rel', 1))], [(None, 'absent'), (('abs', 3), 'absent')],
           [(None, ('abs', 5))], [(('abs', 1), 'absent'), (('abs', 3), 'absent')],
           [('absent', None), ('absent', None)], [(None, 'absent'), ('absent', None)],
           [(None, None), (None, None)], [(None, None), (None, ('abs', 5))]]
    for _ in range(n):
        shape = rng.choice(['cell', 'cell', 'full', 'rows', 'cols'])
        if shape == 'cell':
            out.append([(comp(MAX_ROW), comp(MAX_COL))])
        elif shape == 'full':
            out.append([(comp(MAX_ROW), comp(MAX_COL)), (comp(MAX_ROW), comp(MAX_COL))])
        elif shape == 'rows':
            out.append([(comp(MAX_ROW), 'absent'), (comp(MAX_ROW), 'absent')])
        else:
            out.append([('absent', comp(MAX_COL)), ('absent', comp(MAX_COL))])
    return out


# ---------------------------------------------------------------------- run
def run(ctx):
    ensure_impl_on_path()
    from openpyxl.utils import column_index_from_string, get_column_letter, quote_sheetname
    from pycel import excelutil as xl
    from pycel.excelutil import AddressCell, AddressRange
    rng = ctx.rng
    ctx.extra['rule'] = (
        "column numbers/letters at the Z/AA, ZZ/AAA, XFD, ZZZ boundaries and PRNG-sampled; cells at the 4 "
        "sheet corners, boundary columns x boundary rows and sampled; ranges from exhaustive rectangles on a "
        "4x4 grid and sampled large ones; sheet names from a legal-in-Excel list (spaces, apostrophes, digits, "
        "operators and punctuation that need quotes since 4860474, Latin-1 letters/superscripts/fractions, CJK, emoji, "
        "'$'; Greek/Cyrillic/full-width names are outside the model's isalnum classification: skipped, counted), "
        "names like A1/R1C1/TRUE, unicode, '!') plus illegal quoted-looking names for the correspondence; every "
        "printed form re-parsed; handcrafted malformed/odd address texts; all pairs and sampled triples of grid "
        "rectangles (with sheet mixes) under & and **; relative R1C1 offsets -2..2 around 9 anchors and sampled "
        "large offsets; whole-column / whole-row ranges (0 = no limit), the forms the operators produce from them "
        "and rectangles reaching the sheet's last row/column as operands of &, **, in, the printers and the parser; "
        "R1C1 spellings (bare/absolute/relative components; cells, R..C..:R..C.., R..:R.., C..:C..) from 9 anchors; "
        "a case is non-trivial when it is a distinct (entry, arguments) pair")
    R = Runner(ctx)

    # ---------------------------------------------------------------- A. columns
    cols = set(BOUNDARY_COLS + [-1, 0, 16385, 18277, 18278, 18279, 20000])
    cols.update(rng.randrange(1, 18279) for _ in range(ctx.n(300, 5000)))
    for n in sorted(cols):
        R.add('col_letter', (n,), lambda n=n: get_column_letter(n))
    letters = {get_column_letter(n) for n in cols if 1 <= n <= 18278}
    letters |= {s.lower() for s in list(letters)[:60]} | {'aB', 'Xfd', 'zZz'}
    letters |= {'', 'AAAA', 'A1', '1', 'É', 'A ', '$A', 'ß', 'A-'}
    for _ in range(ctx.n(200, 3000)):
        letters.add("".join(rng.choice('ABCXYZabz') for _ in range(rng.randrange(1, 5))))
    for s in sorted(letters):
        R.add('col_index', (s,), lambda s=s: column_index_from_string(s))
    for c in ANCHORS:
        for k in list(range(-3, 4)) + [MAX_COL, -MAX_COL, MAX_ROW, -MAX_ROW, 2 * MAX_ROW + 5,
                                       rng.randrange(-10 ** 7, 10 ** 7)]:
            cell = AddressCell((c[0], c[1], c[0], c[1]))
            R.add('inc_col', (c[0], k), lambda cell=cell, k=k: cell.inc_col(k))
            R.add('inc_row', (c[1], k), lambda cell=cell, k=k: cell.inc_row(k))

    # ---------------------------------------------------------------- sheets
    sheets = [''] + SHEETS_PLAIN + SHEETS_SPACE + SHEETS_BANG + SHEETS_UNDECIDED
    for s in sheets + ILLEGAL_IN_EXCEL:
        R.add('quote_sheet', (s,), lambda s=s: AddressCell.quote_sheet(s))
        R.add('quote_sheetname', (s,), lambda s=s: quote_sheetname(s))
        R.add('unquote_sheetname', (s,), lambda s=s: xl.unquote_sheetname(s))
        R.add('unquote_sheetname', (quote_sheetname(s),), lambda s=s: xl.unquote_sheetname(quote_sheetname(s)))

    # ---------------------------------------------------------------- B. addresses, printing
    cells = set(CORNERS)
    cells.update(itertools.product(BOUNDARY_COLS, [1, 10, 1048576]))
    cells.update(itertools.product([1, 27, 16384], BOUNDARY_ROWS))
    cells.update((rng.randrange(1, MAX_COL + 1), rng.randrange(1, MAX_ROW + 1)) for _ in range(ctx.n(150, 3000)))
    cells = sorted(cells)
    rects = grid_rects(4)
    rects_big = sorted({big_rect(rng) for _ in range(ctx.n(150, 3000))})
    addr_specs = []
    for i, (c, r) in enumerate(cells):
        for s in ([''] + rng.sample(sheets, 3) if i >= 12 else sheets + ILLEGAL_IN_EXCEL):
            addr_specs.append((s, c, r))
    for i, rc in enumerate(rects[::7] + rects_big):
        for s in ([''] + rng.sample(sheets, 2) if i >= 6 else sheets + ILLEGAL_IN_EXCEL):
            addr_specs.append(rect_spec(s, *rc))
    # unbounded column / row ranges and degenerate corners (correspondence only)
    odd_specs = [('', 1, 0, 2, 0), ('S', 3, 0, 3, 0), ('', 0, 1, 0, 2), ('S', 0, 5, 0, 5), ('', 2, 2, 1, 1),
                 ('', 1, 1, 16384, 1048576), ('', 1, 5, 16384, 5), ('', 18278, 1, 18278, 2), ('', 0, 0)]
    unb, produced, edge = unbounded_pool(rng, ctx.n(6, 60))
    unb_specs = [(rng.choice(['', 'S', 'My Data', "it's"]),) + rc for rc in unb + produced]
    for spec in addr_specs + odd_specs + unb_specs:
        R.add('prints', (spec,), lambda spec=spec: (lambda o: (
            o.address, o.quoted_address, o.abs_address, o.coordinate, o.abs_coordinate))(build(spec)))
        R.add('size', (spec,), lambda spec=spec: tuple(build(spec).size))
    R.run()

    # ---------------------------------------------------------------- C. parsing
    texts = []          # (text, sheet kw, anchor)
    for spec in unb_specs:
        o = build(spec)
        sh = AddressCell.quote_sheet(spec[0])
        for t in (o.address, o.quoted_address, o.abs_address, o.coordinate, o.abs_coordinate,
                  f"{sh}!${o.start.coordinate}:${o.end.coordinate}", f"${o.start.coordinate}:${o.end.coordinate}"):
            texts.append((t, '', None))
    spellings = gen_spellings(rng, ctx.n(250, 4000))
    for i, sp in enumerate(spellings):
        for (ac, ar) in (ANCHORS if i < 16 else [rng.choice(ANCHORS)]):
            texts.append((spelling_text(sp), '', (ar, ac)))
        if i % 10 == 0:
            texts.append(('Sheet 1!' + spelling_text(sp), '', (5, 3)))
            texts.append((spelling_text(sp), 'S', None))
    for spec in addr_specs + odd_specs:
        o = build(spec)
        for t in (o.address, o.quoted_address, o.abs_address):
            texts.append((t, '', None))
        if rng.random() < 0.05:
            texts.append((o.coordinate, spec[0], None))
            texts.append((o.address, 'Other', None))
            texts.append((o.address, spec[0], None))
    odd = ['', 'A', '1', 'A0', 'a1', 'xfd1048576', 'XFE1', 'ZZZ1', 'AAAA1', 'A1048577', '$A$1', '$A1', 'A$1',
           '$$1', '$1', '$A$', 'A1$', 'A1:', ':A1', 'A:B', 'a:b', '1:2', '$1:$2', '$A:$B', 'A1:B', 'A:B2', '1:B2',
           'A1:2', 'A1:B2', 'B2:A1', 'A1:A1', 'A1:a1', 'A01', 'A1 ', ' A1', 'A 1', 'A1:B2:C3', 'A1:B2:C3:D4',
           'a:b:c', 'A1,B2', 'R', 'C', 'RC', 'R1', 'C1', 'R1C1', 'R1C', 'RC1', 'r1c1', 'R1C1:R2C2', 'R1C1:R2',
           'R1:R2', 'C1:C2', 'R:R', 'C:C', 'R1C1:R1C1', 'R0C0', 'R5C20000', 'R1048577C1', 'R01C01', 'R[1]C[1]',
           'R[-1]C[-1]', 'R[0]C[0]', 'R[-0]C', 'RC[2]', 'R[2]C', 'R[1]', 'C[1]', 'R[1]:R[2]', 'C[1]:C[2]',
           'R[1]C[1]:R[2]C[2]', 'RC:R[1]C[1]', 'R[1]C[1]:R[2]', 'R[1]:C[2]', 'R[1', 'R[]C', 'R[-]C', 'R[+1]C',
           'R[1]C[1', 'R1C1R1', 'C1R1', 'R[1]C[1]x', 'R[1][1]', 'Table[col]', 'T[', 'x[y]', '#REF!', '#NULL!',
           '#N/A', '#NAME?', '#GETTING_DATA', '#DIV/0!', '#BAD!', 'S!#REF!', 'A1\n', 'R1C1\n', 'A１', 'Ａ1',
           'A1:B２', 'R[１]C', 'S!A1', 'S!A1:B2', "'S'!A1", "'S T'!A1", "'S''T'!A1", "S!A1:S!B2", "S!A1:'S'!B2",
           "'S T'!A1:'S T'!B2", "'it''s'!A1:'it''s'!B2", "S!A1:T!B2", "'a!b'!A1", 'a!b!A1', '!A1', '!!A1', "''!A1",
           "'!A1", "'''!A1", "''''!A1", "S!", "S!A", "S!RC", "S!R1C1", "S!R[1]C[1]", "S!R1C1:R2C2", "TRUE", "A1!B2",
           "S!'S'!A1", "'S'!'S'!A1", "x'!A1", "'x!A1"]
    for t in odd:
        for sh in ('', 'S'):
            for cell in (None, (5, 3)):
                texts.append((t, sh, cell))
    for (ac, ar) in ANCHORS:
        for dr in range(-2, 3):
            for dc in range(-2, 3):
                texts.append((r1c1_text(dr, dc), '', (ar, ac)))
                texts.append(('Sheet 1!' + r1c1_text(dr, dc), '', (ar, ac)))
        for _ in range(ctx.n(6, 60)):
            dr, dc = rng.randrange(-3 * MAX_ROW, 3 * MAX_ROW), rng.randrange(-3 * MAX_COL, 3 * MAX_COL)
            texts.append((r1c1_text(dr, dc), '', (ar, ac)))
        texts.append((f"R[{-ar}]C[{-ac}]", '', (ar, ac)))
        texts.append((f"R[1]C:R[2]C[1]", '', (ar, ac)))
        texts.append((f"R{ar}C{ac}", '', None))
        texts.append((f"R{ar}C{ac}:R{ar}C{ac}", '', None))
    for (c, r) in cells[:: max(1, len(cells) // ctx.n(80, 800))]:
        texts.append((f"R{r}C{c}", '', None))
        texts.append((f"S!R{r}C{c}", '', None))
    seen = set()
    for t, sh, cell in texts:
        if (t, sh, cell) in seen:
            continue
        seen.add((t, sh, cell))
        R.add('create', (t, sh, cell),
              lambda t=t, sh=sh, cell=cell: AddressRange.create(t, sheet=sh, cell=anchor_obj(cell)),
              kind='create:' + ('r1c1' if cell else 'a1'))
        if rng.random() < 0.3:
            R.add('create_cell', (t, sh, cell),
                  lambda t=t, sh=sh, cell=cell: AddressCell.create(t, sheet=sh, cell=anchor_obj(cell)))
        if rng.random() < 0.2:
            R.add('split_sheetname', (t, sh), lambda t=t, sh=sh: xl.split_sheetname(t, sheet=sh))
    R.run()

    # ---------------------------------------------------------------- D. contains / cells
    for rc in rects + rects_big[:: max(1, len(rects_big) // ctx.n(40, 400))]:
        spec = rect_spec(rng.choice(['', 'S']), *rc)
        c1, r1, c2, r2 = rc
        n_cells = (c2 - c1 + 1) * (r2 - r1 + 1)
        if n_cells <= 400 or (c2 - c1 + 1 == MAX_COL and r1 == r2 and rng.random() < 0.02):
            R.add('resolve', (spec,), lambda spec=spec: build(spec).resolve_range)
        probes = {(c, r) for c in (c1 - 1, c1, c2, c2 + 1) for r in (r1 - 1, r1, r2, r2 + 1)}
        probes.add((rng.randrange(1, MAX_COL + 1), rng.randrange(1, MAX_ROW + 1)))
        for (c, r) in sorted(probes):
            if 1 <= c <= MAX_COL and 1 <= r <= MAX_ROW:
                x = (rng.choice(['', 'S', 'T']), c, r)
                R.add('contains', (spec, x), lambda spec=spec, x=x: build(x) in build(spec))
    for spec in odd_specs:
        R.add('resolve', (spec,), lambda spec=spec: build(spec).resolve_range)
        R.add('contains', (spec, ('', 1, 1)), lambda spec=spec: build(('', 1, 1)) in build(spec))
    R.add('contains', (('', 1, 1), ('', 1, 1, 2, 2)), lambda: build(('', 1, 1, 2, 2)) in build(('', 1, 1)))
    for spec in unb_specs:
        R.add('resolve', (spec,), lambda spec=spec: build(spec).resolve_range, kind='resolve:unbounded')
        for (c, r) in [(1, 1), (2, 2), (3, MAX_ROW), (MAX_COL, 5), (MAX_COL, MAX_ROW),
                       (rng.randrange(1, MAX_COL + 1), rng.randrange(1, MAX_ROW + 1))]:
            x = (spec[0], c, r)
            R.add('contains', (spec, x), lambda spec=spec, x=x: build(x) in build(spec), kind='contains:unbounded')

    # ---------------------------------------------------------------- E. & and **
    ops = (('inter', lambda a, b: a & b), ('union', lambda a, b: a ** b))
    for ra in rects:
        for rb in rects:
            a, b = rect_spec('', *ra), rect_spec('', *rb)
            for nm, f in ops:
                R.add(nm, (a, b), lambda a=a, b=b, f=f: f(build(a), build(b)))
    pool = rects + rects_big
    sheet_mix = ['', '', 'S', 'S', 'T', 'Sheet 1']
    for _ in range(ctx.n(1500, 30000)):
        a = rect_spec(rng.choice(sheet_mix), *rng.choice(pool))
        b = rect_spec(rng.choice(sheet_mix), *rng.choice(pool))
        for nm, f in ops:
            R.add(nm, (a, b), lambda a=a, b=b, f=f: f(build(a), build(b)), kind=nm + ':sheets/large')
    for a in odd_specs[:-1]:
        for b in odd_specs[:-1] + [('', 2, 2), ('', 1, 1, 3, 3)]:
            for nm, f in ops:
                R.add(nm, (a, b), lambda a=a, b=b, f=f: f(build(a), build(b)), kind=nm + ':unbounded')
                R.add(nm, (b, a), lambda a=a, b=b, f=f: f(build(b), build(a)), kind=nm + ':unbounded')
    upool = unb + produced + edge
    for _ in range(ctx.n(600, 12000)):
        ra = rng.choice(unb + produced)
        rb = rng.choice(upool + rects[::5])
        sa, sb = rng.choice(sheet_mix), rng.choice(sheet_mix)
        a, b = (sa,) + ra, rect_spec(sb, *rb) if 0 not in rb else (sb,) + rb
        if rng.random() < 0.5:
            a, b = b, a
        for nm, f in ops:
            R.add(nm, (a, b), lambda a=a, b=b, f=f: f(build(a), build(b)), kind=nm + ':unbounded')
    utriples = [((1, 0, 3, 0), (5, MAX_ROW, 5, MAX_ROW), (6, 1, 6, 1))]
    for _ in range(ctx.n(500, 10000)):
        t = [rng.choice(upool + rects[::5]) for _ in range(3)]
        t[rng.randrange(3)] = rng.choice(unb + produced)
        utriples.append(tuple(t))
    for (ra, rb, rcc) in utriples:
        sh = rng.choice(['', 'S'])
        a, b, c = ((sh,) + rc if 0 in rc else rect_spec(sh, *rc) for rc in (ra, rb, rcc))
        for nm, f in ops:
            R.add(nm + '_l', (a, b, c), lambda a=a, b=b, c=c, f=f: f(f(build(a), build(b)), build(c)),
                  kind=nm + '_l:unbounded')
            R.add(nm + '_r', (a, b, c), lambda a=a, b=b, c=c, f=f: f(build(a), f(build(b), build(c))),
                  kind=nm + '_r:unbounded')
    for e in ('#NULL!', '#VALUE!', '#REF!'):
        for nm, f in ops:
            R.add(nm, (('', 1, 1, 2, 2), e), lambda e=e, f=f: f(build(('', 1, 1, 2, 2)), e), kind=nm + ':error')
            R.add(nm, (e, ('', 1, 1, 2, 2)), lambda e=e, f=f: f(e, build(('', 1, 1, 2, 2))), kind=nm + ':error')
            R.add(nm, (e, e), lambda e=e, f=f: f(e, e), kind=nm + ':error')
    for t in ('A1:B2', 'B2', 'S!A1:C3', "'S T'!B2", 'T!A1', 'R1C1', 'garbage', '#BAD!', '', 'A:B', 'A1:B2:C3', 'a!b!A1'):
        for a in (('', 1, 1, 2, 2), ('S', 2, 2)):
            for nm, f in ops:
                R.add(nm, (a, t), lambda a=a, t=t, f=f: f(build(a), t), kind=nm + ':text')
                R.add(nm, (t, a), lambda a=a, t=t, f=f: f(t, build(a)), kind=nm + ':text')
    for _ in range(ctx.n(1500, 30000)):
        a, b, c = (rect_spec(rng.choice(sheet_mix), *rng.choice(rects)) for _ in range(3))
        for nm, f in ops:
            R.add(nm + '_l', (a, b, c), lambda a=a, b=b, c=c, f=f: f(f(build(a), build(b)), build(c)),
                  kind=nm + '_l:sheets')
            R.add(nm + '_r', (a, b, c), lambda a=a, b=b, c=c, f=f: f(build(a), f(build(b), build(c))),
                  kind=nm + '_r:sheets')
    triples = []
    for _ in range(ctx.n(2500, 60000)):
        triples.append(tuple(rng.choice(rects) for _ in range(3)))
    if ctx.tier == 'thorough':
        small = grid_rects(3)
        triples.extend(itertools.product(small, repeat=3))
    for _ in range(ctx.n(300, 5000)):
        triples.append(tuple(rng.choice(pool) for _ in range(3)))
    triples.append(((1, 1, 2, 2), (3, 3, 4, 4), (1, 1, 1, 2)))
    for (ra, rb, rcc) in triples:
        sh = rng.choice(['', 'S'])
        a, b, c = rect_spec(sh, *ra), rect_spec(sh, *rb), rect_spec(sh, *rcc)
        for nm, f in ops:
            R.add(nm + '_l', (a, b, c), lambda a=a, b=b, c=c, f=f: f(f(build(a), build(b)), build(c)))
            R.add(nm + '_r', (a, b, c), lambda a=a, b=b, c=c, f=f: f(build(a), f(build(b), build(c))))

    # ---------------------------------------------------------------- F. offsets
    for (ac, ar) in ANCHORS:
        for sh in ('', 'Sheet 1'):
            spec = (sh, ac, ar)
            offs = [(dr, dc) for dr in range(-2, 3) for dc in range(-2, 3)]
            offs += [(MAX_ROW, MAX_COL), (-MAX_ROW, -MAX_COL), (MAX_ROW, 0), (0, MAX_COL), (-ar, -ac),
                     (MAX_ROW - ar, MAX_COL - ac), (MAX_ROW - ar + 1, MAX_COL - ac + 1)]
            offs += [(rng.randrange(-3 * MAX_ROW, 3 * MAX_ROW), rng.randrange(-3 * MAX_COL, 3 * MAX_COL))
                     for _ in range(ctx.n(5, 100))]
            for dr, dc in offs:
                R.add('offset', (spec, dr, dc),
                      lambda spec=spec, dr=dr, dc=dc: build(spec).address_at_offset(row_inc=dr, col_inc=dc))
    R.add('offset', (('S', 2, 3, 5, 6), 1, 1), lambda: build(('S', 2, 3, 5, 6)).address_at_offset(1, 1))
    R.run()

    oracle(ctx, cells, rects, rects_big, triples)
    oracle_spellings(ctx, spellings)
    oracle_unbounded(ctx, unb, produced, edge, rects, utriples)


# ------------------------------------------------------------------- oracle
def oracle(ctx, cells, rects, rects_big, triples):
    """The property's statement evaluated on the implementation alone."""
    from pycel.excelutil import AddressCell, AddressRange
    rng = ctx.rng

    def mk(sheet, rc):
        return build(rect_spec(sheet, *rc))

    def cellset(a):
        return {(c.col_idx, c.row) for row in a.resolve_range for c in row}

    # ---- 1. print/parse round trip, three forms, every legal sheet name
    legal = [''] + [s for s in SHEETS_PLAIN + SHEETS_SPACE + SHEETS_BANG + SHEETS_UNDECIDED if is_excel_legal(s)]
    some_cells = cells[:: max(1, len(cells) // ctx.n(40, 400))] + CORNERS
    some_rects = [rc for rc in rects[::9] + rects_big[:: max(1, len(rects_big) // ctx.n(25, 250))]
                  if (rc[0], rc[1]) != (rc[2], rc[3])]
    locs = [(c, r, c, r) for (c, r) in some_cells] + some_rects
    for s in legal:
        for rc in locs:
            a = mk(s, rc)
            for form in ('address', 'quoted_address', 'abs_address'):
                text = getattr(a, form)
                case = dict(call='roundtrip', args=[form, s, list(rc)],
                            cls='sheet-bang' if '!' in s else 'roundtrip')
                ctx.count(('rt', form, s, rc), kind='oracle:roundtrip')
                back = run_impl(lambda: descr(AddressRange(text)))
                if back != ('ok', descr(a)):
                    ctx.violation(case, f"{form} {text!r} does not parse back to the same address",
                                  impl=back, expected=descr(a))
                # the way the formula compiler reads a range token (RangeNode._emit): every '$' stripped first;
                # a sheet name holding '$' is excluded (it loses it there: C05-cse-sheet-name-dollar)
                if form != 'address' and '$' not in s and '!' not in s:
                    ctx.count(('rt-stripped', form, s, rc), kind='oracle:roundtrip-stripped')
                    back = run_impl(lambda: descr(AddressRange.create(text.replace('$', ''))))
                    if back != ('ok', descr(a)):
                        ctx.violation(dict(case, call='roundtrip-stripped'),
                                      f"{form} {text!r} with its '$' removed does not parse back to the same address",
                                      impl=back, expected=descr(a))
    # ---- 2. A1, R1C1 and tuple notations agree; relative R1C1 = offset with wrap
    for (c, r) in some_cells:
        a = AddressCell((c, r, c, r), sheet='S')
        ctx.count(('not', c, r), kind='oracle:notations')
        forms = {'A1': lambda: AddressCell(f"S!{a.coordinate}"),
                 'R1C1': lambda: AddressCell(f"S!R{r}C{c}"),
                 'R1C1+sheetkw': lambda: AddressCell(f"R{r}C{c}", sheet='S'),
                 'abs': lambda: AddressCell(f"S!{a.abs_coordinate}")}
        for nm, f in forms.items():
            got = run_impl(lambda: descr(f()))
            if got != ('ok', descr(a)):
                ctx.violation(dict(call='notation', args=[nm, c, r]), "notations of one cell differ",
                              impl=got, expected=descr(a))
    for (ac, ar) in ANCHORS:
        anchor = AddressCell((ac, ar, ac, ar))
        for dr in range(-2, 3):
            for dc in range(-2, 3):
                ctx.count(('rel', ac, ar, dr, dc), kind='oracle:relative')
                want_c = (ac + dc - 1) % MAX_COL + 1
                want_r = (ar + dr - 1) % MAX_ROW + 1
                want = descr(AddressCell((want_c, want_r, want_c, want_r)))
                got1 = run_impl(lambda: descr(AddressRange.create(r1c1_text(dr, dc), cell=anchor_obj((ar, ac)))))
                got2 = run_impl(lambda: descr(anchor.address_at_offset(row_inc=dr, col_inc=dc)))
                for nm, got in (('R1C1', got1), ('address_at_offset', got2)):
                    if got != ('ok', want):
                        ctx.violation(dict(call='relative', args=[nm, ac, ar, dr, dc]),
                                      "relative reference does not wrap to the expected cell", impl=got, expected=want)
                # the other spellings of the same relative reference: a bare R / C for a zero offset, and the
                # absolute spelling of the target
                spellings = {('R' if dr == 0 else f'R[{dr}]') + ('C' if dc == 0 else f'C[{dc}]'),
                             f'R{want_r}' + ('C' if dc == 0 else f'C[{dc}]'),
                             f'R[{dr}]C{want_c}'}        # (a bare R before a column number reads as an A1 address: RC5)
                for text in sorted(spellings - {r1c1_text(dr, dc)}):
                    ctx.count(('rel-spelling', ac, ar, text), kind='oracle:relative')
                    got = run_impl(lambda: descr(AddressRange.create(text, cell=anchor_obj((ar, ac)))))
                    if got != ('ok', want):
                        ctx.violation(dict(call='relative', args=[text, ac, ar, dr, dc]),
                                      "a spelling of a relative R1C1 reference does not denote the expected cell",
                                      impl=got, expected=want)
    # ---- 3. enumeration
    enum_rects = rects + [rc for rc in rects_big if (rc[2] - rc[0] + 1) * (rc[3] - rc[1] + 1) <= 300]
    for rc in enum_rects:
        a = mk('S', rc)
        c1, r1, c2, r2 = rc
        ctx.count(('enum', rc), kind='oracle:enumerate')
        case = dict(call='resolve_range', args=[list(rc)])
        flat = [c for row in a.resolve_range for c in row]
        h, w = a.size
        if (h, w) != (r2 - r1 + 1, c2 - c1 + 1):
            ctx.violation(case, "size is not (height, width)", impl=(h, w))
        if len(flat) != h * w or len(set(flat)) != len(flat):
            ctx.violation(case, "does not enumerate height*width distinct cells", impl=len(flat), expected=h * w)
        if not all(c in a for c in flat):
            ctx.violation(case, "an enumerated cell is not contained in the range")
        inside = {(c.col_idx, c.row) for c in flat}
        for c in range(max(1, c1 - 1), min(MAX_COL, c2 + 1) + 1):
            for r in range(max(1, r1 - 1), min(MAX_ROW, r2 + 1) + 1):
                if (AddressCell((c, r, c, r), sheet='S') in a) != ((c, r) in inside):
                    ctx.violation(dict(call='contains', args=[list(rc), c, r]),
                                  "containment disagrees with the enumeration")
    # a bounded range that spans the whole sheet width is a range like any other
    for rc in [(1, 5, MAX_COL, 5)]:
        a = mk('S', rc)
        ctx.count(('enum-full', rc), kind='oracle:enumerate')
        got = run_impl(lambda: len({c for row in a.resolve_range for c in row}))
        if got != ('ok', MAX_COL):
            ctx.violation(dict(call='resolve_range', args=[list(rc)], cls='enum-full-span'),
                          "a full-width (or full-height) bounded range is not enumerated", impl=got, expected=MAX_COL)
    # ---- 4. lattice laws
    def expected_inter(*rs):
        c1 = max(r[0] for r in rs); r1 = max(r[1] for r in rs)
        c2 = min(r[2] for r in rs); r2 = min(r[3] for r in rs)
        return None if c2 < c1 or r2 < r1 else (c1, r1, c2, r2)

    def expected_union(*rs):
        return (min(r[0] for r in rs), min(r[1] for r in rs), max(r[2] for r in rs), max(r[3] for r in rs))

    def want_descr(sheet, rc):
        return '#NULL!' if rc is None else descr(mk(sheet, rc))

    pairs = [(ra, rb) for ra in rects for rb in rects]
    pairs += [(rng.choice(rects_big), rng.choice(rects_big)) for _ in range(ctx.n(400, 8000))]
    for ra, rb in pairs:
        a, b = mk('S', ra), mk('S', rb)
        ctx.count(('pair', ra, rb), kind='oracle:pairs')
        case = dict(call='pair', args=[list(ra), list(rb)])
        i_ab, i_ba = run_impl(lambda: descr(a & b)), run_impl(lambda: descr(b & a))
        u_ab, u_ba = run_impl(lambda: descr(a ** b)), run_impl(lambda: descr(b ** a))
        if i_ab != ('ok', want_descr('S', expected_inter(ra, rb))):
            ctx.violation(dict(case, call='inter'), "intersection is not the common cells / #NULL!",
                          impl=i_ab, expected=want_descr('S', expected_inter(ra, rb)))
        if u_ab != ('ok', want_descr('S', expected_union(ra, rb))):
            ctx.violation(dict(case, call='union'), "union is not the bounding rectangle",
                          impl=u_ab, expected=want_descr('S', expected_union(ra, rb)))
        if i_ab != i_ba or u_ab != u_ba:
            ctx.violation(dict(case, call='commute'), "operator is not commutative", impl=[i_ab, i_ba, u_ab, u_ba])
        if ra == rb and (i_ab != ('ok', descr(a)) or u_ab != ('ok', descr(a))):
            ctx.violation(dict(case, call='idempotent'), "a op a is not a", impl=[i_ab, u_ab])
        if max(ra[2], rb[2]) <= 4 and max(ra[3], rb[3]) <= 4:      # grid: check against the cell sets
            common = cellset(a) & cellset(b)
            got = a & b
            if (got == '#NULL!') != (not common) or (got != '#NULL!' and cellset(got) != common):
                ctx.violation(dict(case, call='inter-cells'), "intersection cells differ from the common cells")
            un = a ** b
            both = cellset(a) | cellset(b)
            cs = [c for c, _ in both]; rs = [r for _, r in both]
            if not both <= cellset(un) or len(cellset(un)) != (max(cs) - min(cs) + 1) * (max(rs) - min(rs) + 1):
                ctx.violation(dict(case, call='union-cells'), "union is not the least rectangle containing both")
    for (ra, rb, rcc) in triples:
        a, b, c = mk('S', ra), mk('S', rb), mk('S', rcc)
        ctx.count(('triple', ra, rb, rcc), kind='oracle:triples')
        want_i = want_descr('S', expected_inter(ra, rb, rcc))
        want_u = want_descr('S', expected_union(ra, rb, rcc))
        for nm, want, thunks in (
                ('inter', want_i, (lambda: descr((a & b) & c), lambda: descr(a & (b & c)))),
                ('union', want_u, (lambda: descr((a ** b) ** c), lambda: descr(a ** (b ** c))))):
            for side, th in zip('lr', thunks):
                got = run_impl(th)
                if got != ('ok', want):
                    case = dict(call=f'{nm}_{side}', args=[list(ra), list(rb), list(rcc)], cls='assoc')
                    ctx.violation(case, "three-way result differs from the set-theoretic one "
                                        "(associativity / #NULL! propagation)", impl=got, expected=want)
    # ** across sheets: #VALUE! iff two named sheets differ, whichever the grouping; error operands handed on
    for _ in range(ctx.n(800, 15000)):
        ss = [rng.choice(['', '', 'S', 'T']) for _ in range(3)]
        rs = [rng.choice(rects) for _ in range(3)]
        a, b, c = (mk(s, r) for s, r in zip(ss, rs))
        ctx.count(('utriple', tuple(ss), tuple(rs)), kind='oracle:union-sheets')
        named = {s for s in ss if s}
        want = '#VALUE!' if len(named) > 1 else want_descr(next(iter(named), ''), expected_union(*rs))
        for side, th in (('l', lambda: descr((a ** b) ** c)), ('r', lambda: descr(a ** (b ** c)))):
            got = run_impl(th)
            if got != ('ok', want):
                ctx.violation(dict(call=f'union_{side}', args=[ss, [list(r) for r in rs]], cls='assoc-sheets'),
                              "three-way union across sheets differs from the expected value", impl=got, expected=want)
    for e in ('#NULL!', '#VALUE!', '#REF!', '#N/A'):
        a = mk('S', (1, 1, 2, 2))
        ctx.count(('errop', e), kind='oracle:error-operand')
        for nm, th in (('a&e', lambda: a & e), ('e&a', lambda: e & a), ('a**e', lambda: a ** e), ('e**a', lambda: e ** a)):
            got = run_impl(th)
            if got != ('ok', e):
                ctx.violation(dict(call='error-operand', args=[nm, e]), "an error operand is not handed on",
                              impl=got, expected=e)
    # ---- 5. offsets
    for (ac, ar) in ANCHORS + [(rng.randrange(1, MAX_COL + 1), rng.randrange(1, MAX_ROW + 1))
                               for _ in range(ctx.n(30, 300))]:
        a = AddressCell((ac, ar, ac, ar), sheet='S')
        ks = [(rng.randrange(-2 * MAX_ROW, 2 * MAX_ROW), rng.randrange(-2 * MAX_COL, 2 * MAX_COL))
              for _ in range(6)] + [(1, 1), (-1, -1), (MAX_ROW - ar + 1, MAX_COL - ac + 1)]
        case = dict(call='address_at_offset', args=[ac, ar])
        ctx.count(('off', ac, ar), kind='oracle:offsets')
        if a.address_at_offset(MAX_ROW, MAX_COL) != a or a.address_at_offset(-MAX_ROW, -MAX_COL) != a \
                or a.address_at_offset(0, 0) != a:
            ctx.violation(case, "offset by the sheet size is not the identity")
        for (dr1, dc1), (dr2, dc2) in zip(ks, ks[1:]):
            x = a.address_at_offset(dr1, dc1)
            if not (1 <= x.col_idx <= MAX_COL and 1 <= x.row <= MAX_ROW and x.sheet == 'S'):
                ctx.violation(dict(case, args=[ac, ar, dr1, dc1]), "offset leaves the sheet", impl=descr(x))
            if x.address_at_offset(dr2, dc2) != a.address_at_offset(dr1 + dr2, dc1 + dc2):
                ctx.violation(dict(case, args=[ac, ar, dr1, dc1, dr2, dc2]), "offsets do not compose additively")


def oracle_spellings(ctx, spellings):
    """Every unambiguous R1C1 spelling denotes the address computed by offset arithmetic (written
    independently of the model: comp_val / spelling_want above)."""
    from pycel.excelutil import AddressRange
    rng = ctx.rng
    for i, sp in enumerate(spellings):
        shapes = [tuple(k == 'absent' for k in it) for it in sp]
        if len(sp) == 2 and shapes[0] != shapes[1] or (len(sp) == 1 and any(shapes[0])):
            continue                                   # R:C, R1C1:R2 ... are not references
        if not spelling_unambiguous(sp):
            ctx.count(('spell-ambiguous', spelling_text(sp)), kind='oracle:spelling-ambiguous')
            continue
        text = spelling_text(sp)
        for (ac, ar) in (ANCHORS if i < 16 else [rng.choice(ANCHORS), rng.choice(ANCHORS)]):
            c1, r1, c2, r2 = spelling_want(sp, (ar, ac))
            if len(sp) == 1 or (0 not in (c1, r1) and (c1, r1) == (c2, r2)):
                want = build(('S', c1, r1))
            else:
                want = build(('S', c1, r1, c2, r2))
            ctx.count(('spelling', text, ac, ar), kind='oracle:spellings')
            got = run_impl(lambda: descr(AddressRange.create('S!' + text, cell=anchor_obj((ar, ac)))))
            if got != ('ok', descr(want)):
                ctx.violation(dict(call='spelling', args=[text, ac, ar]),
                              "an R1C1 spelling does not denote the address given by offset arithmetic",
                              impl=got, expected=descr(want))


def oracle_unbounded(ctx, unb, produced, edge, rects, utriples):
    """The property's statement on whole-column / whole-row operands, with a range read as its cells clipped
    to the sheet (A:C = A1:C1048576).  Deviations caused by the 0-coordinate arithmetic are soft (see
    soft_violation); anything proved for these operands (commutativity, plain/quoted round trip) is hard."""
    from pycel.excelutil import AddressCell, AddressRange
    rng = ctx.rng
    FID = 'C11-unbounded-algebra'

    def mk(rc):
        return build(('S',) + tuple(rc)) if 0 in rc else build(rect_spec('S', *rc))

    def raw(thunk):
        try:
            return ('ok', thunk())
        except Exception as e:   # noqa: BLE001
            return ('raise', type(e).__name__)

    def den(o):
        if isinstance(o, AddressCell):
            return (o.col_idx, o.row, o.col_idx, o.row)
        c1, r1, c2, r2 = o.start.col_idx, o.start.row, o.end.col_idx, o.end.row
        if 0 in (c1, c2):
            c1, c2 = 1, MAX_COL
        if 0 in (r1, r2):
            r1, r2 = 1, MAX_ROW
        return (c1, r1, c2, r2)

    def unb_axis(o, i):
        return not isinstance(o, AddressCell) and 0 in ((o.start.col_idx, o.end.col_idx) if i == 0 else (o.start.row, o.end.row))

    def inter(*ds):
        c1 = max(d[0] for d in ds); r1 = max(d[1] for d in ds)
        c2 = min(d[2] for d in ds); r2 = min(d[3] for d in ds)
        return None if c2 < c1 or r2 < r1 else (c1, r1, c2, r2)

    def union(*ds):
        return (min(d[0] for d in ds), min(d[1] for d in ds), max(d[2] for d in ds), max(d[3] for d in ds))

    def same_cells(got, want):
        """got: ('ok', object) ; want: clipped rectangle or None"""
        if got[0] != 'ok':
            return False
        o = got[1]
        return (o == '#NULL!') if want is None else (not isinstance(o, str) and den(o) == want)

    def reparse(case, got):
        if got[0] == 'ok' and not isinstance(got[1], str):
            back = raw(lambda: AddressRange(got[1].address))
            if back != ('ok', got[1]):
                soft_violation(ctx, FID, dict(case, call='result-roundtrip', cls='unbounded-algebra'),
                               "the result of an operator prints to text that does not parse back to it",
                               impl=repr(back), expected=got[1].address)

    # ---- round trip of the parsed forms
    for rc in unb:
        for s in ('S', 'My Data'):
            a = build((s,) + rc)
            for form in ('address', 'quoted_address', 'abs_address'):
                text = getattr(a, form)
                ctx.count(('urt', form, s, rc), kind='oracle:unbounded:roundtrip')
                back = run_impl(lambda: descr(AddressRange(text)))
                if back == ('ok', descr(a)) or (form == 'address' and ' ' in s):
                    continue          # (the plain form of a sheet name with a space is not re-readable: quoted is)
                case = dict(call='roundtrip', args=[form, s, list(rc)])
                if form == 'abs_address':
                    soft_violation(ctx, 'C11-unbounded-abs-form', dict(case, cls='unbounded-abs-form'),
                                   f"{form} {text!r} does not parse back to the same address",
                                   impl=back, expected=descr(a))
                else:
                    ctx.violation(case, f"{form} {text!r} does not parse back to the same address",
                                  impl=back, expected=descr(a))
    # ---- contains = membership of the clipped cells
    for rc in unb + produced:
        a = mk(rc)
        d = den(a)
        for (c, r) in [(1, 1), (2, 2), (3, MAX_ROW), (MAX_COL, 5), (MAX_COL, MAX_ROW),
                       (rng.randrange(1, MAX_COL + 1), rng.randrange(1, MAX_ROW + 1))]:
            ctx.count(('ucontains', rc, c, r), kind='oracle:unbounded:contains')
            got = raw(lambda: AddressCell((c, r, c, r), sheet='S') in a)
            want = d[0] <= c <= d[2] and d[1] <= r <= d[3]
            if got != ('ok', want):
                soft_violation(ctx, FID, dict(call='contains', args=[list(rc), c, r], cls='unbounded-algebra'),
                               "containment disagrees with the cells of the range", impl=got, expected=want)
    # ---- pairs
    pool = unb + produced + edge + rects[::5]
    pairs = [(ra, rng.choice(pool)) for ra in unb + produced for _ in range(3)]
    pairs += [(ra, ra) for ra in unb + produced]
    pairs += [((1, 0, 3, 0), (2, MAX_ROW, 2, MAX_ROW)), ((1, 0, 3, 0), (2, 1, 2, MAX_ROW)), ((1, 0, 3, 0), (0, 2, 0, 5))]
    for ra, rb in pairs:
        a, b = mk(ra), mk(rb)
        ctx.count(('upair', ra, rb), kind='oracle:unbounded:pairs')
        case = dict(call='pair', args=[list(ra), list(rb)], cls='unbounded-algebra')
        i_ab, i_ba = raw(lambda: a & b), raw(lambda: b & a)
        u_ab, u_ba = raw(lambda: a ** b), raw(lambda: b ** a)
        if i_ab != i_ba or u_ab != u_ba:
            ctx.violation(dict(case, call='commute', cls='commute'), "operator is not commutative",
                          impl=repr([i_ab, i_ba, u_ab, u_ba]))
        if not same_cells(i_ab, inter(den(a), den(b))):
            # the one known cause: the last column / row is dropped on an axis where exactly one operand is unbounded
            da, db = list(den(a)), list(den(b))
            for lo, hi, mx in ((0, 2, MAX_COL), (1, 3, MAX_ROW)):
                if unb_axis(a, lo) != unb_axis(b, lo):
                    da[hi], db[hi] = min(da[hi], mx - 1), min(db[hi], mx - 1)
            if same_cells(i_ab, inter(da, db)):
                soft_violation(ctx, FID, dict(case, call='inter'), "intersection is not the common cells / #NULL!",
                               impl=repr(i_ab), expected=inter(den(a), den(b)))
            else:
                ctx.violation(dict(case, call='inter', cls='unbounded-inter'),
                              "intersection is not the common cells / #NULL! (and not the known last-row/column loss)",
                              impl=repr(i_ab), expected=inter(den(a), den(b)))
        if not same_cells(u_ab, union(den(a), den(b))):
            ctx.violation(dict(case, call='union', cls='unbounded-union'), "union is not the least bounding rectangle",
                          impl=repr(u_ab), expected=union(den(a), den(b)))
        if ra == rb and (i_ab != ('ok', a) or u_ab != ('ok', a)):
            if same_cells(i_ab, den(a)) and same_cells(u_ab, den(a)):
                soft_violation(ctx, FID, dict(case, call='idempotent'), "a op a is not a", impl=repr([i_ab, u_ab]))
            else:
                ctx.violation(dict(case, call='idempotent', cls='unbounded-idem'), "a op a has not the cells of a",
                              impl=repr([i_ab, u_ab]))
        reparse(case, i_ab)
        reparse(case, u_ab)
    # ---- triples
    for (ra, rb, rcc) in utriples[:: max(1, len(utriples) // ctx.n(300, 3000))]:
        a, b, c = mk(ra), mk(rb), mk(rcc)
        ctx.count(('utriple', ra, rb, rcc), kind='oracle:unbounded:triples')
        case = dict(call='triple', args=[list(ra), list(rb), list(rcc)], cls='unbounded-algebra')
        for nm, want, l, r in (('inter', inter(den(a), den(b), den(c)), lambda: (a & b) & c, lambda: a & (b & c)),
                               ('union', union(den(a), den(b), den(c)), lambda: (a ** b) ** c, lambda: a ** (b ** c))):
            gl, gr = raw(l), raw(r)
            if gl != gr and nm == 'union':
                # proved exact when no bounded axis of an operand reaches the last column / row
                if all(unb_axis(o, 0) or den(o)[2] < MAX_COL for o in (a, b, c)) and \
                        all(unb_axis(o, 1) or den(o)[3] < MAX_ROW for o in (a, b, c)):
                    ctx.violation(dict(case, call='union-assoc', cls='unbounded-union'),
                                  "** is not associative (away from the sheet's last column / row)", impl=repr([gl, gr]))
                else:
                    soft_violation(ctx, FID, dict(case, call='union-assoc'), "** is not associative", impl=repr([gl, gr]))
            if not same_cells(gl, want) or not same_cells(gr, want):
                if nm == 'union':
                    ctx.violation(dict(case, call='union3', cls='unbounded-union'),
                                  "three-way union has not the cells of the least bounding rectangle",
                                  impl=repr([gl, gr]), expected=want)
                else:
                    soft_violation(ctx, FID, dict(case, call='inter3'),
                                   "three-way result differs from the set-theoretic one", impl=repr([gl, gr]), expected=want)
            if nm == 'inter' and gl != gr:
                ctx.violation(dict(case, call='inter-assoc', cls='unbounded-inter'), "& is not associative",
                              impl=repr([gl, gr]))
