"""Shared workbook generator for the graph properties (C01, C05, C08, C09, C12, C03).

A generated workbook is a DAG in topological presentation, the same object the
Coq model (coq/Model/Graph.v + GraphExpr.v) runs on:

  nodes[i] = dict(kind='input'|'formula'|'range', deps=[indices < i], addr=…,
                  value=… (inputs), text='=A1+A2' (formulas), enc=<model formula sexp>)

Cell nodes live in column A of sheet "S" (row = order of creation); a range node
is a contiguous block A{r1}:A{r2} of earlier cells.

Optional second column (gen_workbook(..., colb=True), only for callers that ask for it; the
single-column generation is unchanged): input cells S!B1..S!Bm (constants and trailing blanks, m = the
sheet's last row), range nodes over blocks of column B, and the node of the whole-column reference
S!B:B (kind 'ref': of range kind in the model, its single precedent is the bounded range node
S!B1:Bm the implementation makes it stand for, its meaning is "the value of my precedent"), used by
formulas in column A (=SUM(B:B), =MAX(B:B)+A3, =COUNT(B1:B5), =B2*A1, ...).
"""
import os
import re
import zipfile

from harness.common import enc_val

SHEET = 'S'
POOL = [0, 1, 2, 3, 5, 7, -4, 10, 12, 'text', '12', '', 'b', True, False, None]
CLEAN_POOL = [2, 3, 5, 7, -4, 10, 12, 100, 'text', 'abc', '12', 'b']   # no None, no bool/0/1 confusions
OPS = [('+', 0), ('-', 1), ('*', 2), ('&', 5), ('=', 7), ('<>', 8), ('<', 9), ('>=', 12)]
AGGS = [('SUM', 0), ('MIN', 1), ('MAX', 2), ('COUNT', 3)]   # AVERAGE would leave the float-exact domain when nested


def cell_addr(row, col='A'):
    return f'{SHEET}!{col}{row}'


def range_addr(r1, r2, col='A'):
    return f'{SHEET}!{col}{r1}:{col}{r2}'


COLB_REF = f'{SHEET}!B:B'


class WB:
    def __init__(self):
        self.nodes = []
        self.rows = []          # node index of the cell in row r (1-based -> rows[r-1])
        self.ranges = {}        # (r1, r2) -> node index
        self.brows = []         # second column: node index of the cell S!B{r} (rows[r-1] analogue)
        self.branges = {}       # (r1, r2) -> node index of S!B{r1}:B{r2}
        self.colref = None      # node index of S!B:B
        self.pinned = set()     # input nodes that must stay non-blank (they fix the sheet's last row)

    # -- construction
    def add_input(self, value):
        row = len(self.rows) + 1
        self.nodes.append(dict(kind='input', deps=[], addr=cell_addr(row), row=row, value=value, enc=[0]))
        self.rows.append(len(self.nodes) - 1)
        return len(self.nodes) - 1

    def get_range(self, r1, r2):
        if (r1, r2) not in self.ranges:
            deps = [self.rows[r - 1] for r in range(r1, r2 + 1)]
            self.nodes.append(dict(kind='range', deps=deps, addr=range_addr(r1, r2), r1=r1, r2=r2, enc=[1, 1]))
            self.ranges[(r1, r2)] = len(self.nodes) - 1
        return self.ranges[(r1, r2)]

    # -- second column
    def add_input_b(self, value):
        row = len(self.brows) + 1
        self.nodes.append(dict(kind='input', deps=[], addr=cell_addr(row, 'B'), row=row, col=2, value=value,
                               enc=[0]))
        self.brows.append(len(self.nodes) - 1)
        return len(self.nodes) - 1

    def get_range_b(self, r1, r2):
        if (r1, r2) not in self.branges:
            deps = [self.brows[r - 1] for r in range(r1, r2 + 1)]
            self.nodes.append(dict(kind='range', deps=deps, addr=range_addr(r1, r2, 'B'), r1=r1, r2=r2, col=2,
                                   enc=[1, 1]))
            self.branges[(r1, r2)] = len(self.nodes) - 1
        return self.branges[(r1, r2)]

    def get_colref(self):
        """The node of S!B:B: a reference cell standing for the bounded range S!B1:B{last row}."""
        if self.colref is None:
            bounded = self.get_range_b(1, len(self.brows))
            self.nodes.append(dict(kind='ref', deps=[bounded], addr=COLB_REF, col=2, enc=[6]))
            self.colref = len(self.nodes) - 1
        return self.colref

    def add_formula(self, text, deps, enc):
        row = len(self.rows) + 1
        self.nodes.append(dict(kind='formula', deps=deps, addr=cell_addr(row), row=row, text=text, enc=enc))
        self.rows.append(len(self.nodes) - 1)
        return len(self.nodes) - 1

    # -- wire form for the model
    def wire(self, stored=None, inputs=None):
        out = []
        for i, n in enumerate(self.nodes):
            v0 = (inputs or {}).get(i, n.get('value')) if n['kind'] == 'input' else None
            st = (stored or {}).get(i) if n['kind'] == 'formula' else None
            out.append([1 if n['kind'] == 'input' else 0, 1 if n['kind'] in ('range', 'ref') else 0,
                        list(n['deps']), enc_val(v0), enc_val(st), n['enc']])
        return out

    # -- openpyxl workbook with the given input values
    def to_openpyxl(self, inputs=None, extra=None):
        import openpyxl
        wb = openpyxl.Workbook()
        ws = wb.active
        ws.title = SHEET
        for i, n in enumerate(self.nodes):
            if n['kind'] == 'input':
                v = (inputs or {}).get(i, n['value'])
                if v is not None:
                    ws.cell(row=n['row'], column=n.get('col', 1), value=v)
            elif n['kind'] == 'formula':
                ws.cell(row=n['row'], column=1, value=n['text'])
        for (row, col), v in (extra or {}).items():
            ws.cell(row=row, column=col, value=v)
        return wb

    def index_of(self, addr):
        for i, n in enumerate(self.nodes):
            if n['addr'] == addr:
                return i
        return None

    def cells(self):
        return [i for i, n in enumerate(self.nodes) if n['kind'] in ('input', 'formula')]

    def formulas(self):
        return [i for i, n in enumerate(self.nodes) if n['kind'] == 'formula']

    def inputs(self):
        return [i for i, n in enumerate(self.nodes) if n['kind'] == 'input']

    def descendants(self, a):
        out = set()
        for i, n in enumerate(self.nodes):
            if any(d == a or d in out for d in n['deps']):
                out.add(i)
        return out


def operand_text(wb, rng, ref_rows, allow_lit=True):
    """Pick an operand: a reference to an earlier cell, or a literal.
    Returns (excel text, dep node index or None, model operand builder)."""
    if ref_rows and (not allow_lit or rng.random() < 0.75):
        r = rng.choice(ref_rows)
        return f'A{r}', wb.rows[r - 1], 'ref'
    if rng.random() < 0.7:
        z = rng.choice([0, 1, 2, 3, 10, -1])
        return str(z), None, [1, z]
    s = rng.choice(['x', 'ab', ''])
    return f'"{s}"', None, [2] + [ord(c) for c in s]


BPOOL = [1, 2, 3, 5, 8, -4, 10, 12, 7, 'text', 'b']    # constants of the second column


def colb_formula(wb, rng, rows, force_ref=False):
    """One formula cell of column A over the second column: an aggregate of the whole column B:B, of the
    explicit range B1:B{last row} it stands for, or of a smaller block of column B - alone or followed by an
    operator and a column-A operand -, or an operator formula over one cell of column B."""
    m = len(wb.brows)
    kind = 0.0 if force_ref else rng.random()
    if kind < 0.75:
        if kind < 0.40:
            arg, dep = 'B:B', wb.get_colref()
        elif kind < 0.60 or m < 3:
            arg, dep = f'B1:B{m}', wb.get_range_b(1, m)
        else:
            r1 = rng.randrange(1, m)
            r2 = rng.randrange(r1 + 1, m + 1)
            if (r1, r2) == (1, m):
                r2 -= 1
            arg, dep = f'B{r1}:B{r2}', wb.get_range_b(r1, r2)
        (name, w) = rng.choice(AGGS)
        if rng.random() < 0.45:
            (sym, code) = rng.choice(OPS)
            tb, db, eb = operand_text(wb, rng, rows)
            deps = [dep] + ([db] if eb == 'ref' else [])
            return wb.add_formula(f'={name}({arg}){sym}{tb}', deps, [7, w, [0, 0], code, [0, 1] if eb == 'ref' else eb])
        return wb.add_formula(f'={name}({arg})', [dep], [5, w, [0, 0]])
    r = rng.randrange(1, m + 1)
    (sym, code) = rng.choice(OPS)
    tb, db, eb = operand_text(wb, rng, rows)
    deps = [wb.brows[r - 1]] + ([db] if eb == 'ref' else [])
    return wb.add_formula(f'=B{r}{sym}{tb}', deps, [3, code, [0, 0], [0, 1] if eb == 'ref' else eb])


def gen_workbook(rng, ncells=8, pool=POOL, blank_results=False, p_formula=0.55, colb=False):
    wb = WB()
    n_inputs = max(2, int(ncells * (1 - p_formula)))
    if colb:
        # the second column: constants in B1..B{nb}, blank cells below down to the sheet's last row (the bounded
        # range of B:B covers every row of the sheet); the cells that fix the last row are pinned
        nb = rng.randrange(2, ncells + 3)
        for r in range(1, max(nb, ncells) + 1):
            wb.add_input_b(rng.choice(BPOOL) if r <= nb else None)
        if nb >= ncells:
            wb.pinned.add(wb.brows[-1])
    for k in range(ncells):
        rows = list(range(1, len(wb.rows) + 1))
        if colb and k >= 2 and (rng.random() < 0.45 or (k == ncells - 1 and wb.colref is None)):
            colb_formula(wb, rng, rows, force_ref=(k == ncells - 1 and wb.colref is None))
            continue
        if k < 2 or (rng.random() > p_formula and
                     sum(1 for i in wb.rows if wb.nodes[i]['kind'] == 'input') < n_inputs + 2):
            wb.add_input(rng.choice(pool))
            continue
        kind = rng.random()
        if kind < 0.45:
            (sym, code) = rng.choice(OPS)
            ta, da, ea = operand_text(wb, rng, rows)
            tb, db, eb = operand_text(wb, rng, rows)
            deps, encs = [], []
            for d, e in ((da, ea), (db, eb)):
                if e == 'ref':
                    if d not in deps:
                        deps.append(d)
                    encs.append([0, deps.index(d)])
                else:
                    encs.append(e)
            wb.add_formula(f'={ta}{sym}{tb}', deps, [3, code, encs[0], encs[1]])
        elif kind < 0.55:
            ta, da, _ = operand_text(wb, rng, rows, allow_lit=False)
            wb.add_formula(f'=-{ta}', [da], [4, [0, 0]])
        elif kind < 0.65:
            ta, da, _ = operand_text(wb, rng, rows, allow_lit=False)
            wb.add_formula(f'={ta}', [da], [2, [0, 0]])
        elif kind < 0.70 and blank_results and len(rows) >= 2:
            r1 = rng.choice(rows[:-1])
            r2 = rng.randrange(r1 + 1, len(rows) + 1)
            ri = wb.get_range(r1, r2)
            wb.add_formula(f'=A{r1}:A{r2}', [ri], [2, [0, 0]])
        else:
            if len(rows) < 2:
                wb.add_input(rng.choice(pool))
                continue
            r1 = rng.choice(rows[:-1])
            r2 = rng.randrange(r1 + 1, len(rows) + 1)
            ri = wb.get_range(r1, r2)
            (name, w) = rng.choice(AGGS)
            wb.add_formula(f'={name}(A{r1}:A{r2})', [ri], [5, w, [0, 0]])
    if colb and wb.nodes[wb.rows[-1]]['kind'] == 'input':
        wb.pinned.add(wb.rows[-1])
    return wb


# ------------------------------------------------------------ implementation side
def snapshot(compiler, wb):
    """{node index: canonical value} for every node of wb present in the cell map."""
    from harness.common import canon
    out = {}
    for addr, cell in compiler.cell_map.items():
        i = wb.index_of(addr)
        if i is not None:
            out[i] = canon(cell.value)
    return out


ERROR_VALUES = ('#NULL!', '#DIV/0!', '#VALUE!', '#REF!', '#NAME?', '#NUM!', '#N/A')


def write_xlsx_with_results(wb, results, path, error_type=False):
    """Save wb as .xlsx and inject the stored results of the formula cells
    (openpyxl cannot write cached values: patch <v/> in the sheet XML).
    error_type=True: an error value is stored the way Excel stores it (<c t="e"><v>#DIV/0!</v>), otherwise as
    a formula string result (t="str") like any other text."""
    owb = wb.to_openpyxl()
    owb.save(path)
    tmp = path + '.tmp'
    with zipfile.ZipFile(path) as zin, zipfile.ZipFile(tmp, 'w', zipfile.ZIP_DEFLATED) as zout:
        for item in zin.infolist():
            data = zin.read(item.filename)
            if item.filename == 'xl/worksheets/sheet1.xml':
                xml = data.decode('utf8')
                for i, n in enumerate(wb.nodes):
                    if n['kind'] != 'formula' or results.get(i) is None:
                        continue
                    v = results[i]
                    ref = f'A{n["row"]}'
                    if isinstance(v, bool):
                        typ, body = 'b', '1' if v else '0'
                    elif isinstance(v, (int, float)):
                        typ, body = None, repr(v)
                    elif error_type and v in ERROR_VALUES:
                        typ, body = 'e', v
                    else:
                        typ, body = 'str', (str(v).replace('&', '&amp;').replace('<', '&lt;')
                                            .replace('>', '&gt;'))
                    pat = re.compile(r'<c r="%s"([^>]*)>(<f>.*?</f>)<v ?/>|<c r="%s"([^>]*)>(<f>.*?</f>)<v></v>'
                                     % (ref, ref))
                    m = pat.search(xml)
                    if not m:
                        raise RuntimeError(f'cannot inject stored value for {ref}')
                    attrs = (m.group(1) or m.group(3) or '')
                    attrs = re.sub(r'\s+t="[^"]*"', '', attrs)
                    f = m.group(2) or m.group(4)
                    t = f' t="{typ}"' if typ else ''
                    xml = xml[:m.start()] + f'<c r="{ref}"{attrs}{t}>{f}<v>{body}</v>' + xml[m.end():]
                data = xml.encode('utf8')
            zout.writestr(item, data)
    os.replace(tmp, path)
