"""CLI: python -m harness.run Cxx [--tier quick|thorough] [--replay path]"""
import argparse
import importlib
import json
import os
import shutil
import sys
import traceback

from harness import common
from harness.common import Ctx, finish, standard_proof_phase


def main():
    ap = argparse.ArgumentParser()
    ap.add_argument('pid')
    ap.add_argument('--tier', default=os.environ.get('VERIF_TIER', 'quick'))
    ap.add_argument('--replay')
    a = ap.parse_args()
    pid = a.pid.upper()
    seed = int(os.environ.get('VERIF_SEED', '0'))
    tier = a.tier if a.tier in ('quick', 'thorough') else 'quick'
    os.environ['VERIF_TIER'] = tier
    mod = importlib.import_module(f'harness.props.{pid.lower()}')
    if a.replay:
        # a replay file records the property, the seed and tier of the run that produced it and the failing
        # input(s) / the obligations that no longer check.  Every run is a deterministic function of
        # (tree under test, seed, tier): replaying = showing the record, then running the same search again on the
        # current tree; the exit code and the VIOLATION line say whether the failure is still there.
        rec = json.load(open(a.replay))
        print(json.dumps(rec, indent=1)[:4000])
        seed = int(rec.get('seed', seed))
        tier = rec.get('tier', tier) if rec.get('tier') in ('quick', 'thorough') else tier
        os.environ['VERIF_TIER'] = tier
        print(f"--- replaying: property={pid} seed={seed} tier={tier} on the current tree")
    ctx = Ctx(pid, tier, seed)
    try:
        if hasattr(mod, 'main'):
            rc = mod.main(ctx)
        else:
            model_ok = standard_proof_phase(ctx, getattr(mod, 'GEN_MODULES', None),
                                            getattr(mod, 'EXTRA_TARGETS', ()),
                                            clean=(tier == 'thorough'))
            try:
                mod.run(ctx)
            except Exception:      # noqa: BLE001
                ctx.broke("harness: correspondence run failed", traceback.format_exc())
                if ctx.model is not None and not ctx.violations:
                    # the model side could not be run (a regenerated model can blow up on a faulty variant of the
                    # code): look for a failing input on the implementation alone, with the same case streams
                    import random
                    ctx.model = None
                    ctx.rng = random.Random(seed)
                    try:
                        mod.run(ctx)
                    except Exception:      # noqa: BLE001
                        ctx.broke("harness: oracle-only run failed", traceback.format_exc())
            if tier == 'thorough' and hasattr(mod, 'thorough'):
                mod.thorough(ctx)
            rc = finish(ctx, level=getattr(mod, 'LEVEL', 'proof'),
                        checker_cmd=f"make Props/{pid}.vo && coqc -Q . PV Props/{pid}.v  (in /verif/coq)",
                        assumptions=getattr(mod, 'ASSUMPTIONS', []),
                        explanation=getattr(mod, 'EXPLANATION', ''))
    finally:
        shutil.rmtree(os.path.join(common.WORK, pid), ignore_errors=True)
    sys.exit(rc)


if __name__ == '__main__':
    main()
