"""Regenerate coq/Gen/*.v from /repo/src/pycel (working tree).

usage: gen.py [--repo /repo] [--out /verif/coq/Gen] [module ...]
Exit status 0: all requested modules regenerated (files rewritten only when
their text changes).  Exit status 3: a target left the translatable subset;
the message names the function and construct.
"""
import argparse
import os
import sys

HERE = os.path.dirname(os.path.abspath(__file__))
sys.path.insert(0, HERE)

import pylite  # noqa: E402
from pylite import FuncInfo, ModuleTranslator, Untranslatable  # noqa: E402


def const(q):
    return ('const', q, None)


EXCELUTIL_CONSTS = ['ERROR_CODES', 'DIV0', 'EMPTY', 'VALUE_ERROR', 'NUM_ERROR', 'NA_ERROR',
                    'NAME_ERROR', 'NULL_ERROR', 'REF_ERROR', 'MAX_COL', 'MAX_ROW',
                    'COMPARISION_OPS', 'VALID_R1C1_RANGE_ITEM_COMBOS', 'OPERATORS']


def excelutil_externs():
    return {c: const(f"excelutil.c_{c}") for c in EXCELUTIL_CONSTS}


def specs(repo):
    src = os.path.join(repo, 'src', 'pycel')
    S = {}
    S['excelutil'] = dict(
        pymod='pycel.excelutil', path=os.path.join(src, 'excelutil.py'),
        consts=EXCELUTIL_CONSTS,
        funcs=['is_address', 'is_number', 'is_array_arg', 'list_like', 'coerce_to_number', 'coerce_to_string',
               'type_cmp_value'],
        libcalls={},
        fuel={'coerce_to_number': 'py_fuel'},
    )
    S['engineering'] = dict(
        pymod='pycel.lib.engineering', path=os.path.join(src, 'lib', 'engineering.py'),
        consts=['_SIZE_MASK', '_BASE_TO_FUNC', '_BASE_DIGITS'],
        funcs=['_base2dec', '_dec2base', '_base2base'],
        partials=['bin2dec', 'bin2hex', 'bin2oct', 'dec2bin', 'dec2hex', 'dec2oct',
                  'hex2bin', 'hex2dec', 'hex2oct', 'oct2bin', 'oct2dec', 'oct2hex'],
        externs=excelutil_externs(),
        libcalls={'flatten': ('py_flatten', 1)},
    )
    return S


ORDER = ['excelutil', 'engineering']


# ---- per-property spec blocks live in translator/specs/*.py; each is executed
# here, in this module's namespace, in file-name order, and extends `specs` and
# `ORDER` (one file per property keeps concurrent edits from colliding)
import glob as _glob
for _f in sorted(_glob.glob(os.path.join(HERE, 'specs', '*.py'))):
    exec(compile(open(_f).read(), _f, 'exec'), globals())


def generate(repo, out, modules=None):
    sys.path.insert(0, os.path.join(repo, 'src'))
    S = specs(repo)
    changed = []
    for m in ORDER:
        if modules and m not in modules:
            continue
        sp = dict(S[m])
        tr = ModuleTranslator(m, sp.pop('pymod'), sp.pop('path'), **sp)
        text = tr.translate()
        path = os.path.join(out, m + '.v')
        old = open(path).read() if os.path.exists(path) else None
        if old != text:
            with open(path, 'w') as f:
                f.write(text)
            changed.append(m)
    return changed


def main():
    ap = argparse.ArgumentParser()
    ap.add_argument('--repo', default='/repo')
    ap.add_argument('--out', default=os.path.join(os.path.dirname(HERE), 'coq', 'Gen'))
    ap.add_argument('modules', nargs='*')
    a = ap.parse_args()
    try:
        changed = generate(a.repo, a.out, a.modules)
    except Untranslatable as exc:
        print(f"UNTRANSLATABLE: {exc}")
        sys.exit(3)
    print("regenerated:", " ".join(changed) if changed else "(nothing changed)")


if __name__ == '__main__':
    main()
