"""Regenerate coq/Gen/*.v from /repo/src/pycel (working tree).

usage: gen.py [--repo /repo] [--out /verif/coq/Gen] [module ...]
Exit status 0: all requested modules regenerated (files rewritten only when
their text changes).  Exit status 3: a target left the translatable subset;
the message names the function and construct.
"""
import argparse
import os
import sys

HERE = os.path.dirname(os.path.abspath(__file__))
sys.path.insert(0, HERE)

import pylite  # noqa: E402
from pylite import FuncInfo, ModuleTranslator, Untranslatable  # noqa: E402


def const(q):
    return ('const', q, None)


EXCELUTIL_CONSTS = ['ERROR_CODES', 'DIV0', 'EMPTY', 'VALUE_ERROR', 'NUM_ERROR', 'NA_ERROR',
                    'NAME_ERROR', 'NULL_ERROR', 'REF_ERROR', 'MAX_COL', 'MAX_ROW',
                    'COMPARISION_OPS', 'VALID_R1C1_RANGE_ITEM_COMBOS', 'OPERATORS']


def excelutil_externs():
    return {c: const(f"excelutil.c_{c}") for c in EXCELUTIL_CONSTS}


def specs(repo):
    src = os.path.join(repo, 'src', 'pycel')
    S = {}
    S['excelutil'] = dict(
        pymod='pycel.excelutil', path=os.path.join(src, 'excelutil.py'),
        consts=EXCELUTIL_CONSTS,
        funcs=['is_address', 'is_number', 'is_array_arg', 'list_like', 'coerce_to_number', 'coerce_to_string',
               'type_cmp_value'],
        libcalls={},
        fuel={'coerce_to_number': 'py_fuel'},
    )
    S['engineering'] = dict(
        pymod='pycel.lib.engineering', path=os.path.join(src, 'lib', 'engineering.py'),
        consts=['_SIZE_MASK', '_BASE_TO_FUNC', '_BASE_DIGITS'],
        funcs=['_base2dec', '_dec2base', '_base2base'],
        partials=['bin2dec', 'bin2hex', 'bin2oct', 'dec2bin', 'dec2hex', 'dec2oct',
                  'hex2bin', 'hex2dec', 'hex2oct', 'oct2bin', 'oct2dec', 'oct2hex'],
        externs=excelutil_externs(),
        libcalls={'flatten': ('py_flatten', 1)},
    )
    return S


ORDER = ['excelutil', 'engineering']


# ---- C20: pycel.lib.text — the slicing/search functions that are plain
# Python over str/int (the @excel_helper decorators are metadata; the wrappers
# they request are modelled in coq/Model/Text.v).  substitute (while loop),
# trim (regex) and text (TextFormat) are hand-modelled in coq/Model/Text.v.
_specs_before_text = specs


def specs(repo):     # noqa: F811
    S = _specs_before_text(repo)
    ext = excelutil_externs()
    ext['coerce_to_string'] = ('func', 'excelutil.f_coerce_to_string',
                               FuncInfo('coerce_to_string', ['value'], {}, False,
                                        'f_coerce_to_string'))
    S['text'] = dict(
        pymod='pycel.lib.text',
        path=os.path.join(repo, 'src', 'pycel', 'lib', 'text.py'),
        consts=[],
        funcs=['concatenate', 'exact', 'find', 'left', 'len_', 'lower', 'mid', 'replace',
               'right', 'upper'],
        externs=ext,
        libcalls={'flatten': ('py_flatten', 1),
                  '__methods__': {'find': ('str_find2', 2), 'join': ('str_join', 1)}},
    )
    return S


ORDER = ORDER + ['text']


# ---- C19: pycel.excellib — the rounding family (plain arithmetic over numbers;
# the @excel_math_func wrappers are modelled in coq/Model/MathWrap.v)
_specs_before_excellib = specs


def specs(repo):     # noqa: F811
    S = _specs_before_excellib(repo)
    S['excellib'] = dict(
        pymod='pycel.excellib',
        path=os.path.join(repo, 'src', 'pycel', 'excellib.py'),
        consts=[],
        import_consts=['ROUND_DOWN', 'ROUND_HALF_UP', 'ROUND_UP'],
        funcs=['ceiling', 'ceiling_math', 'ceiling_precise', 'even', 'floor', 'floor_math',
               'floor_precise', 'int_', 'mod', 'odd', 'round_', '_round', 'rounddown', 'roundup',
               'sign', 'trunc', 'abs_'],
        externs=excelutil_externs(),
        libcalls={'math.ceil': ('py_ceil', 1), 'math.floor': ('py_floor', 1),
                  'math.copysign': ('py_copysign', 2)},
    )
    return S


ORDER = ORDER + ['excellib']


# ---- C14: aggregates (generated module Gen/aggregates.v: the name excellib is taken by
# C19's rounding family).  excellib._numerics / sum_ and lib.stats average /
# count / max_ / min_ are translated (the *args / lambda-default extensions are
# at the end of pylite.py); the signature of _numerics that the callers in
# lib.stats see is read from excellib.py itself, so a changed default changes
# the generated callers.  sumproduct (numpy) and FunctionNode.func_subtotal
# (AST node methods) are hand-modelled in coq/Model/Aggregates.v on top of the
# generated table c_FunctionNode_SUBTOTAL_FUNCS.
_specs_before_c14 = specs


def specs(repo):     # noqa: F811
    S = _specs_before_c14(repo)
    src = os.path.join(repo, 'src', 'pycel')
    ext = excelutil_externs()
    xl = os.path.join(src, 'excellib.py')
    S['aggregates'] = dict(
        pymod='pycel.excellib', path=xl, consts=[],
        funcs=['_numerics', 'sum_'],
        externs=ext,
        libcalls={'flatten': ('py_flatten', 1)},
    )
    probe = ModuleTranslator('aggregates', 'pycel.excellib', xl, funcs=['_numerics'])
    ninfo = probe.info_of(probe.find_def('_numerics'), '_numerics')
    ext2 = dict(ext)
    ext2['_numerics'] = ('func', 'aggregates.f__numerics', ninfo)
    S['stats'] = dict(
        pymod='pycel.lib.stats', path=os.path.join(src, 'lib', 'stats.py'), consts=[],
        funcs=['average', 'count', 'max_', 'min_'],
        externs=ext2,
        libcalls={'flatten': ('py_flatten', 1)},
    )
    S['excelformula'] = dict(
        pymod='pycel.excelformula', path=os.path.join(src, 'excelformula.py'),
        consts=['FunctionNode.SUBTOTAL_FUNCS'], funcs=[],
    )
    return S


ORDER = ORDER + ['aggregates', 'stats', 'excelformula']


def generate(repo, out, modules=None):
    sys.path.insert(0, os.path.join(repo, 'src'))
    S = specs(repo)
    changed = []
    for m in ORDER:
        if modules and m not in modules:
            continue
        sp = dict(S[m])
        tr = ModuleTranslator(m, sp.pop('pymod'), sp.pop('path'), **sp)
        text = tr.translate()
        path = os.path.join(out, m + '.v')
        old = open(path).read() if os.path.exists(path) else None
        if old != text:
            with open(path, 'w') as f:
                f.write(text)
            changed.append(m)
    return changed


def main():
    ap = argparse.ArgumentParser()
    ap.add_argument('--repo', default='/repo')
    ap.add_argument('--out', default=os.path.join(os.path.dirname(HERE), 'coq', 'Gen'))
    ap.add_argument('modules', nargs='*')
    a = ap.parse_args()
    try:
        changed = generate(a.repo, a.out, a.modules)
    except Untranslatable as exc:
        print(f"UNTRANSLATABLE: {exc}")
        sys.exit(3)
    print("regenerated:", " ".join(changed) if changed else "(nothing changed)")


if __name__ == '__main__':
    main()
