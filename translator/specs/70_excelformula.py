# ---- C02 / C04: the tables of pycel.excelformula that the parser/emitter model
# (coq/Model/Syntax.v, coq/Model/Emit.v, coq/Model/Scan.v) is built on.  The
# module Gen/excelformula.v already exists (C14: FunctionNode.SUBTOTAL_FUNCS);
# this block only EXTENDS its list of constants:
#   Token.precedences   operator -> (precedence, associativity); the values are
#                       Token.Precedence objects, rendered as the pair of their
#                       two attributes (see _coq_value_c02 below),
#   OperatorNode.op_map, FunctionNode.func_map, ADDR_FUNCS_NAMES.
# A changed table changes coq/Gen/excelformula.v and breaks the proofs that
# compute with it (Proofs/C02Parse.v: prec_table_ok, Proofs/C02.v: op_map_ok).
_specs_before_c02 = specs
_coq_value_before_c02 = pylite.coq_value


def _coq_value_c02(v):
    if type(v).__name__ == 'Precedence' and type(v).__module__ == 'pycel.excelformula' \
            and set(vars(v)) == {'precedence', 'associativity'}:
        return pylite.coq_value((v.precedence, v.associativity))
    return _coq_value_before_c02(v)


pylite.coq_value = _coq_value_c02


def specs(repo):     # noqa: F811
    S = _specs_before_c02(repo)
    sp = dict(S['excelformula'])
    sp['consts'] = list(sp.get('consts', [])) + [
        'ADDR_FUNCS_NAMES', 'Token.precedences', 'OperatorNode.op_map', 'FunctionNode.func_map']
    S['excelformula'] = sp
    return S
