# ---- C17: pycel.lib.date_time — the integer date path (datetime/calendar are
# modelled by coq/Lib/PyDate.v; wrappers by coq/Model/DateFuncs.v)
_specs_before_dates = specs


def specs(repo):     # noqa: F811
    S = _specs_before_dates(repo)
    ext = excelutil_externs()
    ext['coerce_to_number'] = ('func', 'excelutil.f_coerce_to_number',
                               FuncInfo('coerce_to_number', ['value', 'convert_all'],
                                        {'convert_all': __import__('ast').Constant(value=False)},
                                        True, 'f_coerce_to_number'))
    ext['is_number'] = ('func', 'excelutil.f_is_number',
                        FuncInfo('is_number', ['value'], {}, False, 'f_is_number'))
    ext['yearfrac_basis_1'] = ('func', 'py_unmodelled2',
                               FuncInfo('yearfrac_basis_1', ['beg', 'end'], {}, False, 'py_unmodelled2'))
    S['date_time'] = dict(
        pymod='pycel.lib.date_time',
        path=os.path.join(repo, 'src', 'pycel', 'lib', 'date_time.py'),
        consts=['DATE_ZERO', 'DATE_MAX_INT', 'LEAP_1900_SERIAL_NUMBER', 'LEAP_1900_TUPLE'],
        funcs=['date_from_int', 'is_leap_year', 'max_days_in_month', 'normalize_year',
               'yearfrac_basis_0', 'date', 'months_inc', 'edate', 'eomonth', 'day', 'month', 'year',
               'weekday', 'yearfrac'],
        externs=ext,
        fuel={'normalize_year': 'py_recursion_fuel', 'coerce_to_number': 'py_fuel'},
        libcalls={'dt.datetime': ('py_datetime', 3), 'calendar.monthrange': ('py_monthrange', 2),
                  'math.floor': ('py_floor', 1),
                  '__attrs__': {'days': 'py_delta_days', 'year': 'py_date_year',
                                'month': 'py_date_month', 'day': 'py_date_day'}},
        header_imports=['Lib.PyDate'],
    )
    return S


ORDER = ORDER + ['date_time']


