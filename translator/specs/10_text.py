# ---- C20: pycel.lib.text — the slicing/search functions that are plain
# Python over str/int (the @excel_helper decorators are metadata; the wrappers
# they request are modelled in coq/Model/Text.v).  substitute (while loop),
# trim (regex) and text (TextFormat) are hand-modelled in coq/Model/Text.v.
_specs_before_text = specs


def specs(repo):     # noqa: F811
    S = _specs_before_text(repo)
    ext = excelutil_externs()
    ext['coerce_to_string'] = ('func', 'excelutil.f_coerce_to_string',
                               FuncInfo('coerce_to_string', ['value'], {}, False,
                                        'f_coerce_to_string'))
    S['text'] = dict(
        pymod='pycel.lib.text',
        path=os.path.join(repo, 'src', 'pycel', 'lib', 'text.py'),
        consts=[],
        funcs=['concatenate', 'exact', 'find', 'left', 'len_', 'lower', 'mid', 'replace',
               'right', 'upper'],
        externs=ext,
        libcalls={'flatten': ('py_flatten', 1),
                  '__methods__': {'find': ('str_find2', 2), 'join': ('str_join', 1)}},
    )
    return S


ORDER = ORDER + ['text']


