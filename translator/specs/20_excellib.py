# ---- C19: pycel.excellib — the rounding family (plain arithmetic over numbers;
# the @excel_math_func wrappers are modelled in coq/Model/MathWrap.v)
_specs_before_excellib = specs


def specs(repo):     # noqa: F811
    S = _specs_before_excellib(repo)
    S['excellib'] = dict(
        pymod='pycel.excellib',
        path=os.path.join(repo, 'src', 'pycel', 'excellib.py'),
        consts=[],
        import_consts=['ROUND_DOWN', 'ROUND_HALF_UP', 'ROUND_UP'],
        funcs=['ceiling', 'ceiling_math', 'ceiling_precise', 'even', 'floor', 'floor_math',
               'floor_precise', 'int_', 'mod', 'odd', 'round_', '_round', 'rounddown', 'roundup',
               'sign', 'trunc', 'abs_'],
        externs=excelutil_externs(),
        libcalls={'math.ceil': ('py_ceil', 1), 'math.floor': ('py_floor', 1),
                  'math.copysign': ('py_copysign', 2)},
    )
    return S


ORDER = ORDER + ['excellib']


