# ---- C16: pycel.lib.lookup — the bodies of match/vlookup/hlookup/lookup are
# plain Python over tuples once `_match` is given (closures + bisect on
# ExcelCmp objects: hand-modelled in coq/Model/LookupCore.v, tied by the
# correspondence run); index (closure, numpy branch) is hand-modelled too.
# The generated file has to Require the hand-written core from Model/, not Gen/.
_specs_before_lookup = specs


def specs(repo):     # noqa: F811
    import ast as _ast
    S = _specs_before_lookup(repo)
    ext = excelutil_externs()
    ext['list_like'] = ('func', 'excelutil.f_list_like',
                        FuncInfo('list_like', ['data'], {}, False, 'f_list_like'))
    ext['_match'] = ('func', 'LookupCore.match_',
                     FuncInfo('_match', ['lookup_value', 'lookup_array', 'match_type'],
                              {'match_type': _ast.Constant(value=1)}, False, 'match_'))
    S['lookup'] = dict(
        pymod='pycel.lib.lookup',
        path=os.path.join(repo, 'src', 'pycel', 'lib', 'lookup.py'),
        consts=[],
        funcs=['hlookup', 'vlookup', 'lookup', 'match'],
        externs=ext,
        libcalls={},
    )
    return S


ORDER = ORDER + ['lookup']

_MT_before_lookup = ModuleTranslator


class ModuleTranslator(_MT_before_lookup):     # noqa: F811
    def translate(self):
        text = super().translate()
        if self.modname == 'lookup':
            text = text.replace('From PV Require Gen.LookupCore.', 'From PV Require Model.LookupCore.')
        return text


