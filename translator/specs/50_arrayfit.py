# ---- C13: excelutil._ArrayFormulaContext.fit_to_range.  The context object is
# modelled by its ctx_address, an address by its size, an AddressSize by the
# pair (height, width) (coq/Lib/Py.v attr_*, py_address_size).
_specs_before_arrayfit = specs


def specs(repo):     # noqa: F811
    S = _specs_before_arrayfit(repo)
    ext = excelutil_externs()
    ext['list_like'] = ('func', 'excelutil.f_list_like',
                        FuncInfo('list_like', ['data'], {}, False, 'f_list_like'))
    S['arrayfit'] = dict(
        pymod='pycel.excelutil',
        path=os.path.join(repo, 'src', 'pycel', 'excelutil.py'),
        consts=[],
        funcs=['_ArrayFormulaContext.fit_to_range'],
        externs=ext,
        libcalls={'AddressSize': ('py_address_size', 2),
                  '__attrs__': {'ctx_address': 'attr_ctx_address', 'size': 'attr_size',
                                'width': 'attr_width', 'height': 'attr_height'}},
    )
    return S


ORDER = ORDER + ['arrayfit']


