# ---- C14: aggregates (generated module Gen/aggregates.v: the name excellib is taken by
# C19's rounding family).  excellib._numerics / sum_ and lib.stats average /
# count / max_ / min_ are translated (the *args / lambda-default extensions are
# at the end of pylite.py); the signature of _numerics that the callers in
# lib.stats see is read from excellib.py itself, so a changed default changes
# the generated callers.  sumproduct (numpy) and FunctionNode.func_subtotal
# (AST node methods) are hand-modelled in coq/Model/Aggregates.v on top of the
# generated table c_FunctionNode_SUBTOTAL_FUNCS.
_specs_before_c14 = specs


def specs(repo):     # noqa: F811
    S = _specs_before_c14(repo)
    src = os.path.join(repo, 'src', 'pycel')
    ext = excelutil_externs()
    xl = os.path.join(src, 'excellib.py')
    S['aggregates'] = dict(
        pymod='pycel.excellib', path=xl, consts=[],
        funcs=['_numerics', 'sum_'],
        externs=ext,
        libcalls={'flatten': ('py_flatten', 1)},
    )
    probe = ModuleTranslator('aggregates', 'pycel.excellib', xl, funcs=['_numerics'])
    ninfo = probe.info_of(probe.find_def('_numerics'), '_numerics')
    ext2 = dict(ext)
    ext2['_numerics'] = ('func', 'aggregates.f__numerics', ninfo)
    S['stats'] = dict(
        pymod='pycel.lib.stats', path=os.path.join(src, 'lib', 'stats.py'), consts=[],
        funcs=['average', 'count', 'max_', 'min_'],
        externs=ext2,
        libcalls={'flatten': ('py_flatten', 1)},
    )
    S['excelformula'] = dict(
        pymod='pycel.excelformula', path=os.path.join(src, 'excelformula.py'),
        consts=['FunctionNode.SUBTOTAL_FUNCS'], funcs=[],
    )
    return S


ORDER = ORDER + ['aggregates', 'stats', 'excelformula']


